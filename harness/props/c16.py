"""C16 - static routes never leave their directory and serve exactly the requested bytes / ranges."""
PROP = 'C16'
LEAN_MODULES = ['FalconModel.Static', 'FalconModel.StaticPathProofs', 'FalconModel.StaticResp', 'FalconModel.StaticRespProofs']
DRIVERS = ['stdriver']
THEOREMS = [
    'St.resolve_contained', 'St.serve_contained', 'St.rejected_opens_nothing',
    'St.range_closed', 'St.range_open', 'St.range_suffix', 'St.range_wellformed',
    # the native normpath (StaticPathProofs.lean)
    'St.splitOn_no_sep', 'St.splitOn_append', 'St.splitOn_joinSlash', 'St.normpath_no_dotdot_inside', 'St.normpath_abs',
    'St.prefix_check_suffices', 'St.serve_lexically_inside',
    # _BoundedFile / streams (StaticRespProofs.lean)
    'Sr.bounded_read_spec', 'Sr.bounded_file_never_exceeds_length', 'Sr.bounded_read_empty_iff', 'Sr.drain_eq_window',
    # _set_range with its stream, and the response side of __call__
    'Sr.setRange_proj', 'Sr.setRange_window', 'Sr.setRange_unsat_iff', 'Sr.range_slice_exact', 'Sr.range_closed_response', 'Sr.range_open_response',
    'Sr.range_suffix_response', 'Sr.unsatisfiable_is_416_with_size', 'Sr.no_range_is_200_whole', 'Sr.other_unit_ignored', 'Sr.size_zero_ignores_range',
    'Sr.not_modified_is_304_without_body', 'Sr.not_modified_only_if', 'Sr.ims_bad_is_400', 'Sr.served_status',
    # match and the files __call__ opens
    'Sr.mkRoute_pfx_slash', 'Sr.matches_iff', 'Sr.matches_no_fallback', 'Sr.suffix_of_bare_match', 'Sr.findRoute_spec', 'Sr.findRoute_none',
    'Sr.only_fallback_outside', 'Sr.served_from_last_open', 'Sr.call_contained', 'Sr.bare_prefix_opens', 'Sr.options_opens_nothing',
]
STATEMENTS = {
    'St.resolve_contained': 'for an ARBITRARY normpath result n: if the tail of StaticRoute.__call__ accepts, the path opened is dir + "/" + n (or dir + n when dir ends with a slash) and contains no ".." anywhere - containment does not depend on normpath being right',
    'St.serve_contained': 'for EVERY request-path suffix s: if sanitise -> normpath -> resolve hands a path to io.open, it is dir + "/" + normpath(s), contains no ".." at all, and s has no control / reserved character, no backslash, no "//", at most 512 characters (and is non-empty unless a fallback is configured)',
    'St.rejected_opens_nothing': 'a suffix failing one of the six textual tests opens nothing (404 before any file-system access)',
    'St.range_closed': 'bytes=first-last on size > 0: unsatisfiable iff first >= size, else 206 with first..min(last, size-1) and length min(last,size-1)-first+1 (RFC 9110)',
    'St.range_open': 'bytes=first- on size > 0: unsatisfiable iff first >= size, else first..size-1 with length size-first',
    'St.range_suffix': 'bytes=-n (n > 0) on size > 0: the last min(n, size) bytes',
    'St.range_wellformed': 'every 206 slice satisfies first <= last < size and Content-Length = last - first + 1',
    'St.normpath_no_dotdot_inside': 'for every relative path p (not starting with "/"): normpath(p) is "." or its components are a leading run of ".." followed only by real names (never "", "." or "..") - ".." never occurs inside',
    'St.normpath_abs': 'normpath of a path starting with "/" starts with "/" (so the disallowed normalised prefix "/" rejects every absolute suffix)',
    'St.prefix_check_suffices': 'for a relative suffix whose normal form neither starts with "../" nor is exactly "..", the normal form is "." or consists of real names only: the two disallowed normalised prefixes alone give containment, except for the bare ".." (reached by e.g. "../"), which only the final \'..\' in file_path test turns into a 404',
    'St.serve_lexically_inside': 'for EVERY suffix s, with the native normpath (no assumption about normpath left): if a path fp is handed to io.open then s is relative, n = normpath(s) is relative and is "." or has only real-name components (no "", ".", ".."), and the components of fp are those of the directory followed by those of n',
    'St.splitOn_joinSlash': '"/".join(l).split("/") = l for a non-empty list of slash-free components (ties the component view to the string normpath returns)',
    'Sr.bounded_read_spec': 'one _BoundedFile.read(size): the bytes returned followed by the new window are the old window; remaining decreases by exactly len(data); for size >= 0 at most size bytes are returned',
    'Sr.bounded_file_never_exceeds_length': 'for ANY sequence of read(size) calls (None, negative, 0, positive, larger than what is left): the concatenation of all returned bytes followed by what is still readable equals file[pos : pos+length]; hence it is a prefix of that slice, its total length is <= length, and remaining + total = length',
    'Sr.bounded_read_empty_iff': 'a read with size != 0 returns b"" iff the window is exhausted (so the servers\' read-until-empty loop stops exactly at the end of the slice)',
    'Sr.drain_eq_window': 'reading block > 0 bytes at a time until an empty read yields exactly the window: file[pos : pos+length] for a _BoundedFile, the rest of the file for the raw handle',
    'Sr.setRange_proj': 'status / Content-Range / Content-Length of the full _set_range model (with streams) are exactly St.setRange, so range_closed / range_open / range_suffix / range_wellformed apply to it',
    'Sr.setRange_window': 'for every (start, end) of the shape falcon.Request.range produces: the 206 stream is _BoundedFile(fh seeked to first, last-first+1) and what can be read from it is file[first .. last]',
    'Sr.range_slice_exact': 'size > 0, satisfiable: for every Range header value with unit "bytes" that falcon reads as (a, b) (shape by Hp.range_ok_shape), if the arithmetic gives first-last then the response is 206, Content-Range bytes first-last/size, Content-Length last-first+1 = len(body), and draining the stream with any block size yields exactly file[first .. last]',
    'Sr.range_closed_response': 'header text "bytes=a-b" (a <= b, a < size), end to end: 206, a .. min(b, size-1), body = file[a .. min(b, size-1)]',
    'Sr.range_open_response': 'header text "bytes=a-" (a < size): 206, a .. size-1, body = file[a:]',
    'Sr.range_suffix_response': 'header text "bytes=-n" (n > 0, size > 0): 206, the last min(n, size) bytes',
    'Sr.unsatisfiable_is_416_with_size': 'size > 0, unit bytes, reading (a, b): the outcome is HTTPRangeNotSatisfiable(size) (416, Content-Range bytes */size) iff a >= size, and a 416 never carries another size',
    'Sr.other_unit_ignored': 'a Range header whose unit is not exactly "bytes" gives the same response as no Range header',
    'Sr.no_range_is_200_whole': 'without a usable Range: 200, Content-Length size, no Content-Range, the raw file handle, whose drain is the complete content',
    'Sr.size_zero_ignores_range': 'KNOWN FINDING F14, exactly: on a zero-length file every syntactically valid Range header (including int-ranges RFC 9110 calls unsatisfiable) is ignored: 200, Content-Length 0, no Content-Range, empty body, never 416',
    'Sr.not_modified_is_304_without_body': 'If-Modified-Since >= Last-Modified (whole seconds) gives 304 with only Last-Modified set - no stream, no Content-Length / Content-Range - and this test precedes the Range handling: the outcome is the same for an absent, satisfiable, unsatisfiable or malformed Range header',
    'Sr.not_modified_only_if': 'a 304 is produced only by that test',
    'Sr.ims_bad_is_400': 'a malformed If-Modified-Since is a 400 (raised by req.if_modified_since) before Range is looked at',
    'Sr.served_status': 'a served response has status 206 iff Content-Range is set, else 200; Last-Modified is the file\'s; downloadable_as is basename(opened path) iff the route is downloadable',
    'Sr.matches_iff': 'match(path) iff path extends the prefix (which always ends with "/": whole segments only) or - only for a route with a fallback file - path is the prefix without its trailing slash',
    'Sr.only_fallback_outside': '__call__ opens nothing, or the resolved path St.serve computes, or that path followed - only when a fallback is configured and only after opening the first failed - by the fallback file; nothing else, never more than two',
    'Sr.served_from_last_open': 'a 200 / 206 is the response computed from the file opened last (the requested file, or the fallback when the former could not be opened)',
    'Sr.call_contained': 'end to end: every path __call__ hands to io.open is the configured fallback or lies lexically inside the directory (components of the directory followed by real names only, or by the single ".")',
    'Sr.bare_prefix_opens': 'a request for the bare prefix can only open directory + "/." (which io.open refuses) and then the fallback',
    'Sr.options_opens_nothing': 'OPTIONS answers Allow: GET without touching a file',
}
TRUSTED = [
    'the operating system: io.open(path) opens the file that path names; a path that starts with dir + "/" and contains no ".." (and no symlink) names a file below dir',
    'sys.addaudithook reports every open() performed while a request is handled',
    'falcon.Request.range / range_unit: modelled by Hp.range / Hp.rangeUnit (HeaderParsers.lean, tied to falcon.Request by C09); here the raw Range header value goes to the model and the complete responses are compared, so a wrong reading shows up as a mismatch',
    'falcon.Request.if_modified_since (HTTP-date parser) and datetime.fromtimestamp(st_mtime): their values are read off the real objects and given to the model (absent / seconds / malformed)',
    'io.BufferedReader on a regular file: read(n) returns min(n, bytes left) bytes, seek / tell as documented; fstat().st_size is the number of bytes in the file',
    'the framework around the route: falcon.App turns HTTPNotFound / HTTPInvalidHeader / HTTPRangeNotSatisfiable into 404 / 400 / 416 responses and resp.set_stream / content_range / downloadable_as / last_modified into headers (compared on the wire); Content-Type selection is not modelled',
]
ASSUMPTIONS = [
    'directory trees of regular files and subdirectories, no symlinks (as in the property statement); POSIX path semantics (os.path is posixpath)',
    'the request path reaches the app percent-decoded once, as PEP 3333 / ASGI servers deliver it (PATH_INFO latin-1, scope["path"] UTF-8 with replacement)',
    'bytes=-0 and first > last are treated as malformed by falcon\'s Range parser (400); the oracle accepts 400 or 416 / an ignored header for syntactically odd Range values, and demands 206/416 exactly for well-formed single byte ranges',
    'KNOWN FINDING F14 (left in the code): on a zero-length file an int-range (RFC-unsatisfiable) is ignored: 200 with an empty body instead of 416',
]
RULE = ('scratch tree (16 files of sizes 0..9 in 3 directory levels, names with spaces / unicode / dots / reserved punctuation; secret files next to the served directory) under a fresh '
        'tempfile.mkdtemp(); request paths = route prefix + suffix from a traversal grammar (dot segments, raw and percent-encoded and doubled separators, backslashes, control / reserved '
        'characters, NUL, over-long names, overlong-UTF-8 and unicode look-alike dots and slashes, absolute paths to the secrets) or a mutation of an existing name, through full WSGI and ASGI apps '
        'with 5 static routes (plain, downloadable, fallback inside, fallback outside, nested prefix); every open() during the request is recorded by an audit hook. '
        'Ranges: every first-last / first- / -suffix with bounds 0..11, other units and malformed values x every file size 0..9 x both stacks, exhaustively in every run; '
        'If-Modified-Since at mtime-2 .. mtime+2 (mtime with and without a fractional part) x no / satisfiable / unsatisfiable / malformed Range; OPTIONS. '
        'Directly on the real objects: StaticRoute.match for random prefixes (with / without trailing slash, fallback or not) x paths around them; _BoundedFile on real file handles at random positions with '
        'random windows (also longer than the file) and random sequences of read(None | <0 | 0 | small | 8192); _set_range for every request-range shape x size 0..9. '
        'non-trivial = the route opened a file / a read returned bytes; distinct = distinct (stack, route, request bytes, headers) or (data, pos, length, sizes)')
PARTIAL = ''
JOBS = {'quick': 4, 'thorough': 16}

LEVEL_TEXT = ('Machine-checked proofs (Lean 4): for every request-path suffix the path handed to io.open by StaticRoute.__call__ is directory + "/" + normpath(suffix) with no ".." anywhere '
              '(serve_contained; resolve_contained holds for an arbitrary normpath) and, for the native POSIX normpath, consists of the directory followed by real names only (normpath_no_dotdot_inside, '
              'serve_lexically_inside, call_contained: no assumption about normpath is left); the only other file ever opened is the fallback (only_fallback_outside); match is prefix matching on whole '
              'segments plus the bare prefix for fallback routes (matches_iff); rejected suffixes open nothing. Response side, for every file content, Range header value, If-Modified-Since reading: '
              'the 206 body is exactly file[first..last] with matching Content-Range / Content-Length for every block size the server reads with (range_slice_exact, range_*_response), 416 carries the size, '
              'other units are ignored, size 0 ignores Range (F14 stated exactly), not-modified is 304 without body and precedes Range; _BoundedFile never exceeds its length over any history of reads. '
              'The model is tied to falcon/routing/static.py on every run: the same requests go through full WSGI and ASGI apps on a real scratch tree and to the compiled model, comparing the paths '
              'opened (audit hook), status, Last-Modified, Content-Length, Content-Range, Content-Disposition name and body bytes; match, _BoundedFile (bytes of every read) and _set_range (stream kind, '
              'position, window) are also compared directly on the real objects. An independent oracle judges containment by realpath of every opened file, exact bodies / slices, 206 / 416 / 304 headers.')
LEVEL_NOTE = ('Trusted: Lean kernel + standard axioms; correspondence harness and oracle; the OS path resolution and the audit hook; falcon.Request.range tuple convention. '
              'Symlinks excluded by the property. F14 (size 0 ignores Range) is a listed known finding.')
TECHNIQUE = 'Lean 4 proofs (path containment for all strings; range arithmetic) + differential correspondence vs. real static routes on a scratch tree with open() auditing + statement oracle'

_STATE = {'on': False, 'opened': [], 'installed': False}


def _install_hook():
    import sys
    if _STATE['installed']:
        return

    def hook(ev, args):
        if ev == 'open' and _STATE['on']:
            p = args[0]
            if isinstance(p, bytes):
                p = p.decode('utf-8', 'surrogateescape')
            if isinstance(p, str):
                _STATE['opened'].append(p)
    sys.addaudithook(hook)
    _STATE['installed'] = True


def run(ctx):
    # the process time zone is part of the configuration space: nothing the route answers may depend on it
    import os as _os, time as _time
    _tz = ['UTC0', 'CET-1', 'EST5', 'JST-9'][ctx.shard[0] % 4]
    _os.environ['TZ'] = _tz; _time.tzset(); ctx.count('process_tz_' + _tz)
    import os
    import shutil
    import tempfile
    root = os.path.realpath(tempfile.mkdtemp(prefix='fv-static-'))
    assert not root.startswith(('/repo', '/verif')), root
    try:
        _run(ctx, root)
    finally:
        _STATE['on'] = False
        shutil.rmtree(root, ignore_errors=True)


FILES = {
    'a.txt': b'0123456789', 'index.html': b'<html>', 'sub/b.bin': b'xyz', 'sub/deep/c': b'', 'e': b'E', '.hidden': b'HIDE!', 'a..b': b'DOTS',
    'sp ace.txt': b'SPACE..', 'ünï.txt': 'ü'.encode(), 'sub/x.json': b'{"a": 1}', 'UPPER.TXT': b'UP', 'pct%41.txt': b'PCT', 'name;param': b'SEMI',
    'plus+sign': b'PLUS1', 'semi,colon': b'CO', 'sub/deep/d.css': b'a{b:c}', 'sub/index.html': b'SUBIDX',
}
SAFE_NAMES = ['a.txt', 'index.html', 'sub/b.bin', 'sub/deep/c', 'e', 'sub/x.json', 'UPPER.TXT', 'sub/deep/d.css', '.hidden', 'plus+sign', 'semi,colon', 'name;param']
# ('a..b' exists in the tree but is not servable: the final check refuses any path containing '..' - a 404, which the statement allows)


def _run(ctx, root):
    import os
    import sys
    import time
    import email.utils
    import re
    import urllib.parse
    from runner import hx
    import falcon
    import falcon.asgi
    from lib_httpdrive import wsgi_call, AsgiDriver, pct_decode, simple_file_wrapper
    rnd = ctx.rng
    _install_hook()

    served = os.path.join(root, 'pub')
    for rel, data in FILES.items():
        p = os.path.join(served, rel)
        os.makedirs(os.path.dirname(p), exist_ok=True)
        with open(p, 'wb') as f:
            f.write(data)
    os.makedirs(os.path.join(served, 'emptydir'))
    secrets = {'secret.txt': b'SECRET-1', 'pub-evil/s': b'SECRET-2', 'pub.bak': b'SECRET-3', 'pub2/a.txt': b'SECRET-4'}
    for rel, data in secrets.items():
        p = os.path.join(root, rel)
        os.makedirs(os.path.dirname(p), exist_ok=True)
        with open(p, 'wb') as f:
            f.write(data)
    os.makedirs(os.path.join(root, 'fallback'))
    fb_out = os.path.join(root, 'fallback', 'fb.html')
    with open(fb_out, 'wb') as f:
        f.write(b'FALLBACK')
    fb_in = os.path.join(served, 'index.html')
    T0 = 1_600_000_000
    for dp, dn, fn in os.walk(root):
        for n in fn:
            os.utime(os.path.join(dp, n), (T0, T0))

    # route table: prefix -> (directory, downloadable, fallback path or None)
    ROUTES = {
        '/s/': (served, False, None),
        '/d/': (served, True, None),
        '/f/': (served, False, fb_in),
        '/g/': (served, True, fb_out),
        '/s/nested/x/': (os.path.join(served, 'sub'), False, None),
    }
    seen_path = {}

    def ims_reading(req):
        """what req.if_modified_since yields: absent | seconds since the epoch | bad (HTTPInvalidHeader)"""
        try:
            v = req.if_modified_since
        except falcon.HTTPInvalidHeader:
            return 'bad'
        return 'absent' if v is None else str(int(v.timestamp()))

    class Cap:
        def process_request(self, req, resp):
            seen_path['p'] = req.path
            seen_path['ims'] = ims_reading(req)

    class CapA:
        async def process_request(self, req, resp):
            seen_path['p'] = req.path
            seen_path['ims'] = ims_reading(req)

    def build(cls, mw):
        app = cls(middleware=[mw])
        app.add_static_route('/s', served)
        app.add_static_route('/d', served, downloadable=True)
        app.add_static_route('/f', served, fallback_filename='index.html')
        app.add_static_route('/g', served, downloadable=True, fallback_filename=fb_out)
        app.add_static_route('/s/nested/x', os.path.join(served, 'sub'))
        return app
    wapp = build(falcon.App, Cap())
    aapp = build(falcon.asgi.App, CapA())
    drv = AsgiDriver()
    infra = tuple(p for p in {os.path.realpath(os.environ.get('FALCON_REPO', '/repo')), sys.prefix, sys.base_prefix, '/usr/lib/python', '/usr/local/lib/python'} if p)

    last = {}

    def request(stack, path_bytes, headers=None, method='GET'):
        """-> (status, headers dict lower-case (last wins) , header list, body, opened paths, req.path seen by the app or None, error)"""
        seen_path.clear()
        _STATE['opened'] = []
        _STATE['on'] = True
        try:
            if stack == 'wsgi':
                fw = simple_file_wrapper if rnd.random() < 0.3 else None
                st, hl, body = wsgi_call(wapp, method, path_bytes, headers=headers, file_wrapper=fw)
            else:
                st, hl, body, _ = drv.call(aapp, method, path_bytes, headers=headers)
            err = None
        except Exception as e:  # noqa
            st, hl, body, err = None, [], b'', f'{type(e).__name__}: {e}'
        finally:
            _STATE['on'] = False
        opened = [p for p in _STATE['opened'] if not (p.endswith(('.py', '.pyc')) or p.startswith(infra))]
        last['ims'] = seen_path.get('ims', 'absent')
        return st, {k.lower(): v for k, v in hl}, hl, body, opened, seen_path.get('p'), err

    def inside(p, directory):
        rp = os.path.realpath(p)
        d = os.path.realpath(directory)
        return rp == d or rp.startswith(d + os.sep)

    def route_of(path):
        """LIFO matching as documented: the most recently added matching route wins"""
        for prefix in ['/s/nested/x/', '/g/', '/f/', '/d/', '/s/']:
            d, dl, fb = ROUTES[prefix]
            if path.startswith(prefix) or (fb is not None and path == prefix[:-1]):
                return prefix
        return None

    def H(s):
        return hx(s.encode('utf-8', 'surrogatepass'))

    def unroot(b):
        return b.replace(root.encode(), b'$ROOT').replace(root.encode().replace(b'/', b'%2f'), b'$ROOT(%2f-encoded)')

    # ---- the model's view of the file system and of a response (correspondence 'whole response = Sr.call model')
    from datetime import datetime, timezone
    from falcon.routing.static import StaticRoute, _BoundedFile, _set_range
    fs_cache = {'lines': None}

    def fs_dirty():
        fs_cache['lines'] = None

    def fs_lines():
        """every regular file below the scratch root: path, bytes, Last-Modified seconds as __call__ computes them"""
        if fs_cache['lines'] is None:
            out = []
            for dp, dn, fn in sorted(os.walk(root)):
                for n in sorted(fn):
                    fp_ = os.path.join(dp, n)
                    with open(fp_, 'rb') as f:
                        data_ = f.read()
                    lm_ = int(datetime.fromtimestamp(os.stat(fp_).st_mtime, timezone.utc).replace(microsecond=0).timestamp())
                    out.append(f'file {H(fp_)} {hx(data_)} {lm_}')
            fs_cache['lines'] = out
        return fs_cache['lines']

    def dl_name(hd):
        cd = hd.get('content-disposition')
        if cd is None:
            return 'none'
        m = re.fullmatch(r'attachment; filename="(.*)"', cd)
        if m:
            return H(m.group(1))
        m = re.fullmatch(r"attachment; filename=[^;]*; filename\*=UTF-8''(.*)", cd)
        return H(urllib.parse.unquote(m.group(1))) if m else '?' + cd.replace(' ', '_')

    def out_rep(method, st, hd, body):
        """the real response in the reply format of the driver's `call` op"""
        lmh = hd.get('last-modified')
        try:
            lm_ = 'none' if lmh is None else str(int(email.utils.parsedate_to_datetime(lmh).timestamp()))
        except (TypeError, ValueError):
            lm_ = '?'
        cl_ = hd.get('content-length', 'none'); cr_ = hd.get('content-range')
        if st == 404:
            return '404'
        if st == 400:
            return f'400 {lm_}'
        if st == 304:
            extra = [k for k in ('content-length', 'content-range', 'accept-ranges', 'content-disposition') if k in hd]
            return f'304 {lm_}' + (f' body={hx(body)}' if body else '') + (f' extra={",".join(extra)}' if extra else '')
        if st == 416:
            m = re.fullmatch(r'bytes \*/(\d+)', cr_ or '')
            return f'416 {lm_} {m.group(1)}' if m else f'416 {lm_} ?{cr_}'
        if method == 'OPTIONS' and st == 200 and hd.get('allow') == 'GET' and cl_ == '0' and not body and lmh is None:
            return 'options'
        if st in (200, 206):
            if cr_ is None:
                crs = '-'
            else:
                m = re.fullmatch(r'bytes (\d+)-(\d+)/(\d+)', cr_)
                crs = f'{m.group(1)}-{m.group(2)}/{m.group(3)}' if m else '?' + cr_.replace(' ', '_')
            return f'{st} {lm_} {cl_} {crs} {hx(body)} dl={dl_name(hd)}' + ('' if hd.get('accept-ranges') == 'bytes' else ' no-accept-ranges')
        return f'status {st}'

    csess = ctx.session('whole response = Sr.call model', 'stdriver')

    def call_ops(meta, method, prefix, seenp, range_value, st, hd, body, opened):
        directory, dl, fb = ROUTES[prefix]
        csess.case(meta)
        csess.op('fsreset', 'ok')
        for ln in fs_lines():
            csess.op(ln, 'ok')
        rv = 'absent' if range_value is None else H(range_value)
        csess.op(f'call {1 if method == "OPTIONS" else 0} {H(prefix)} {H(directory)} {1 if dl else 0} {H(fb) if fb else "none"} {H(seenp)} {last["ims"]} {rv}',
                 'opens=' + ','.join(H(p) for p in opened) + ' ' + out_rep(method, st, hd, body))

    # the five routes as StaticRoute objects, in the order app._static_routes keeps them (most recently added first)
    LIFO = [('/s/nested/x', os.path.join(served, 'sub'), None), ('/g', served, fb_out), ('/f', served, 'index.html'), ('/d', served, None), ('/s', served, None)]
    SRS = [StaticRoute(pf, d_, fallback_filename=fb_) for pf, d_, fb_ in LIFO]
    ROUTE_ARGS = ' '.join(f'{H(pf)}:{1 if fb_ else 0}' for pf, d_, fb_ in LIFO)
    msess = ctx.session('route matching = Sr.matches / findRoute model', 'stdriver')
    ORA_MATCH = 'match: a route answers exactly the paths below its prefix (whole segments) and, with a fallback file, the bare prefix'

    sess = ctx.session('static path resolution = St.serve model', 'stdriver')
    ORA_CONT = 'containment: every file opened is inside the served directory or is the configured fallback'
    ORA_404 = 'served or 404: body is exactly the bytes of the file opened inside the directory / fallback, anything else is 404'
    ORA_POS = 'existing files are served byte-exact with matching headers'

    def judge_paths(stack, raw, st, hd, body, opened, prefix, err, case):
        ok = True
        if prefix is None:
            directory, dl, fb = None, False, None
        else:
            directory, dl, fb = ROUTES[prefix]
        bad = [p for p in opened if not ((directory is not None and inside(p, directory)) or (fb is not None and os.path.realpath(p) == os.path.realpath(fb)))]
        ok &= ctx.oracle(ORA_CONT, not bad and b'SECRET' not in body, (f'opened outside the served directory: {bad}' if bad else 'response body discloses a secret file') if (bad or b'SECRET' in body) else None, case)
        what = None
        if err:
            what = f'request raised {err}'
        elif st == 200:
            if not opened:
                what = '200 without opening any file'
            else:
                try:
                    with open(opened[-1], 'rb') as f:
                        want = f.read()
                except OSError:
                    want = None
                if want is None or body != want:
                    what = f'200 body {body!r} is not the content of the file opened last ({opened[-1]})'
                elif hd.get('content-length') != str(len(want)):
                    what = f'Content-Length {hd.get("content-length")!r} for a {len(want)}-byte file'
        elif st != 404:
            what = f'status {st} for a plain GET'
        elif body and b'SECRET' in body:
            what = '404 body discloses a secret'
        ok &= ctx.oracle(ORA_404, what is None, what, case)
        return ok

    # ---------------------------------------------------------------- 1. hostile and mutated paths
    TOK = [b'..', b'.', b'...', b'%2e%2e', b'%2e', b'.%2e', b'%2E%2E', b'/', b'/', b'//', b'%2f', b'%2F', b'%5c', b'\\', b'..%2f', b'..%5c', b'..\\', b'%00', b'%0a', b'%0d%0a', b'%09', b'~', b' ', b'%20', b'+',
           b':', b'*', b'%3f', b'<', b'>', b'|', b'"', b"'", b';', b'..;', b'%252e%252e', b'%25', b'%c0%af', b'%c0%ae%c0%ae', b'%ef%bc%8f', b'%e2%80%a5', b'%ef%bc%8e%ef%bc%8e', b'%e2%88%95',
           b'%80', b'%ff', b'%c2%a0', b'%c2%85', b'%e2%80%8b', b'%ef%bf%bd', b'%7f', b'%1f', b'%9f', b'%c2%9f',
           b'secret.txt', b'pub-evil', b'pub', b'pub2', b'pub.bak', b's', b'fallback', b'fb.html', b'a.txt', b'sub', b'deep', b'c', b'e', b'b.bin', b'index.html', b'emptydir', b'nested', b'x',
           root.encode(), (root + '/secret.txt').encode(), b'etc/passwd', b'/etc/passwd', b'x' * 300, b'y' * 513]
    existing = sorted(FILES) + ['sub', 'sub/deep', 'emptydir']

    def mutate(rel):
        b = urllib.parse.quote(rel, safe='/').encode() if rnd.random() < 0.5 else rel.encode()
        for _ in range(rnd.randint(1, 3)):
            k = rnd.randrange(14)
            pos = rnd.randint(0, len(b))
            if k == 0: b = b'../' * rnd.randint(1, 4) + rnd.choice([b'pub/', b'', b'pub-evil/', b'pub2/']) + b
            elif k == 1: b = b[:pos] + rnd.choice([b'./', b'/./', b'/../', b'/', b'//', b'\\', b'%5c', b'%2f', b'%2f..%2f']) + b[pos:]
            elif k == 2: b = b.replace(b'/', rnd.choice([b'%2f', b'//', b'\\', b'%5c', b'/./', b'%ef%bc%8f']), 1)
            elif k == 3: b = b + rnd.choice([b'/', b'.', b'..', b' ', b'%20', b'/.', b'/..', b'%00', b'%00.txt', b'::$DATA', b'~', b'%0a', b'/../../secret.txt', b'/..%2f..%2fsecret.txt', b'?x', b'%3f', b'#'])
            elif k == 4 and b: i = rnd.randrange(len(b)); b = b[:i] + bytes([b[i] ^ 0x20]) + b[i + 1:] if chr(b[i]).isalpha() else b
            elif k == 5 and b: i = rnd.randrange(len(b)); b = b[:i] + b'%%%02x' % b[i] + b[i + 1:]
            elif k == 6: b = rnd.choice([b' ', b'%20', b'.', b'./', b'/', b'%09', b'%c2%a0']) + b
            elif k == 7: b = b + b'/' + rnd.choice(TOK)
            elif k == 8: b = rnd.choice(TOK) + b'/' + b
            elif k == 9: b = b.replace(b'.', rnd.choice([b'%2e', b'%ef%bc%8e', b'%c0%ae']), 1)
            elif k == 10: b = b'sub/../' + b
            elif k == 11: b = b'emptydir/../' * rnd.randint(1, 3) + b
            elif k == 12: b = b + b'a' * rnd.choice([100, 500, 512, 513])
        return b

    n_paths = ctx.n(40000, 800000)
    for ci in range(n_paths):
        stack = rnd.choice(['wsgi', 'asgi'])
        prefix = rnd.choice(['/s/', '/s/', '/d/', '/f/', '/g/', '/s/nested/x/'])
        r = rnd.random()
        if r < 0.08:
            # absolute / sibling targets: the secrets and the directories whose names merely start with the served directory's name
            tgt = rnd.choice([root + '/secret.txt', root + '/pub-evil/s', root + '/pub2/a.txt', root + '/pub.bak', root + '/fallback/fb.html', served + '/../secret.txt',
                              served + '-evil/s', served + '2/a.txt', served + '/a.txt', '/etc/hostname']).encode()
            form = rnd.randrange(6)
            if form == 0: suffix = tgt
            elif form == 1: suffix = tgt[1:]
            elif form == 2: suffix = tgt.replace(b'/', b'%2f')
            elif form == 3: suffix = b'.' + tgt
            elif form == 4: suffix = b'../' * rnd.randint(1, 8) + tgt[1:]
            else: suffix = os.path.relpath(tgt.decode(), served).encode()
            kind = 'absolute'
        elif r < 0.45:
            suffix = b''.join(rnd.choice(TOK) + rnd.choice([b'', b'/', b'/', b'']) for _ in range(rnd.randint(1, 6)))
            kind = 'grammar'
        elif r < 0.9:
            suffix = mutate(rnd.choice(existing)); kind = 'mutation'
        else:
            suffix = rnd.choice(existing).encode(); kind = 'exact'
            if rnd.random() < 0.3: suffix = urllib.parse.quote(suffix.decode(), safe='').encode()
        pfx = prefix.encode()
        if rnd.random() < 0.05:
            pfx = pfx[:-1] if rnd.random() < 0.5 else pfx.replace(b'/s', b'/S')
            if rnd.random() < 0.5: suffix = b''
        raw = pfx + suffix
        path_bytes = pct_decode(raw)
        st, hd, hl, body, opened, seenp, err = request(stack, path_bytes)
        matched = route_of(seenp) if seenp is not None else None
        case = {'stack': stack, 'request_target': unroot(raw), 'decoded_path': unroot(path_bytes), 'route': matched}   # $ROOT = the scratch directory of this run
        judge_paths(stack, raw, st, hd, body, opened, matched, err, case)
        ctx.count('path_' + kind); ctx.count('path_status_' + str(st))
        if seenp is not None:
            # which of the five routes answers: the real match() of each route in app order vs. Sr.findRouteIdx
            idx = next((i for i, sr in enumerate(SRS) if sr.match(seenp)), None)
            msess.case({'stack': stack, 'request_target': unroot(raw)})
            msess.op(f'route {H(seenp)} {ROUTE_ARGS}', 'none' if idx is None else str(idx))
            want_idx = None if matched is None else ['/s/nested/x/', '/g/', '/f/', '/d/', '/s/'].index(matched)
            ctx.oracle(ORA_MATCH, idx == want_idx, None if idx == want_idx else f'route #{idx} matched, the documented LIFO prefix rule says #{want_idx}', case)
        if matched is not None and seenp is not None:
            directory, dl, fb = ROUTES[matched]
            sfx = seenp[len(matched):]
            sess.case({'stack': stack, 'route': matched, 'request_target': unroot(raw)})
            sess.op(f'serve {1 if fb else 0} {H(directory)} {H(sfx)}', ('open ' + H(opened[0])) if opened else 'reject')
            sess.op(f'norm {H(sfx)}', 'path ' + H(os.path.normpath(sfx)))
            if not err and rnd.random() < (0.25 if opened else 0.02):
                call_ops({'stack': stack, 'route': matched, 'request_target': unroot(raw)}, 'GET', matched, seenp, None, st, hd, body, opened)
            if opened and st == 200 and dl:
                # Content-Disposition names the file actually served
                cd = hd.get('content-disposition', '')
                base = os.path.basename(opened[-1])
                m = re.fullmatch(r'attachment; filename="(.*)"', cd) if base.isascii() else re.fullmatch(r"attachment; filename=[A-Za-z0-9._\-]+; filename\*=UTF-8''(.*)", cd)
                got = None if not m else (m.group(1) if base.isascii() else urllib.parse.unquote(m.group(1)))
                ctx.oracle(ORA_POS, got == base, f'downloadable: Content-Disposition {cd!r} does not name {base!r}' if got != base else None, case)
        ctx.seen((stack, raw), bool(opened))

    # ---------------------------------------------------------------- 2. positive control: every plainly named file is served exactly
    for stack in ('wsgi', 'asgi'):
        for prefix in ('/s/', '/d/', '/f/', '/g/'):
            for rel in SAFE_NAMES + ['sp ace.txt', 'ünï.txt', 'pct%41.txt']:
                raw = prefix.encode() + urllib.parse.quote(rel, safe='/').encode()
                st, hd, hl, body, opened, seenp, err = request(stack, pct_decode(raw))
                case = {'stack': stack, 'request_target': raw, 'route': prefix}
                want = FILES[rel]
                what = None
                if err: what = f'raised {err}'
                elif st != 200: what = f'existing file {rel!r} answered {st}'
                elif body != want: what = f'body {body!r} != file content {want!r}'
                elif hd.get('content-length') != str(len(want)): what = f'Content-Length {hd.get("content-length")!r} != {len(want)}'
                elif opened != [os.path.join(served, rel)]: what = f'opened {opened!r} instead of exactly the requested file'
                elif hd.get('last-modified') != email.utils.formatdate(T0, usegmt=True): what = f'Last-Modified {hd.get("last-modified")!r}'
                elif hd.get('accept-ranges') != 'bytes': what = 'Accept-Ranges: bytes missing'
                ctx.oracle(ORA_POS, what is None, what, case)
                sess.case({'stack': stack, 'route': prefix, 'request_target': raw})
                sess.op(f'serve {1 if ROUTES[prefix][2] else 0} {H(served)} {H(rel)}', ('open ' + H(opened[0])) if opened else 'reject')
                if not err and seenp is not None:
                    call_ops({'stack': stack, 'route': prefix, 'request_target': raw}, 'GET', prefix, seenp, None, st, hd, body, opened)
                ctx.seen((stack, raw, 'pos'), True)
            # OPTIONS: Allow: GET, no file touched - also for names that do not exist or would be rejected
            for rel in ('a.txt', 'missing', '../secret.txt'):
                raw = prefix.encode() + rel.encode()
                st, hd, hl, body, opened, seenp, err = request(stack, raw, method='OPTIONS')
                case = {'stack': stack, 'request_target': raw, 'route': prefix, 'method': 'OPTIONS'}
                what = None if (not err and not opened and not body) else f'OPTIONS opened {opened}, body {body!r}, {err}'
                ctx.oracle(ORA_CONT, what is None, what, case)
                if not err and seenp is not None:
                    call_ops(case, 'OPTIONS', prefix, seenp, None, st, hd, body, opened)
                ctx.seen((stack, raw, 'options'), False)
        # fallback: a missing file, a directory and the bare prefix are answered with the fallback file
        for prefix, fbp in (('/f/', fb_in), ('/g/', fb_out)):
            for sfx, expect_fb in ((b'missing.html', True), (b'', True), (b'sub/nope/none', True), (b'sub', True), (b'emptydir', True)):
                for raw in ([prefix.encode() + sfx] + ([prefix.encode()[:-1]] if sfx == b'' else [])):
                    st, hd, hl, body, opened, seenp, err = request(stack, pct_decode(raw))
                    case = {'stack': stack, 'request_target': raw, 'route': prefix}
                    with open(fbp, 'rb') as f:
                        fbdata = f.read()
                    if expect_fb:
                        what = None if (st == 200 and body == fbdata and opened and os.path.realpath(opened[-1]) == os.path.realpath(fbp)) else f'fallback not served: status {st}, body {body!r}, opened {opened}'
                    else:
                        what = None if (st == 404 and not opened) else f'rejected name answered {st}, opened {opened}'
                    ctx.oracle(ORA_POS, what is None, what, case)
                    judge_paths(stack, raw, st, hd, body, opened, prefix, err, case)
                    if not err and seenp is not None:
                        call_ops(case, 'GET', prefix, seenp, None, st, hd, body, opened)
                    ctx.seen((stack, raw, 'fb'), True)
    sess.finish()
    msess.finish()

    # ---------------------------------------------------------------- 3. ranges x sizes, exhaustively
    rsess = ctx.session('range responses = St.setRange model', 'stdriver')
    ORA_RANGE = 'range semantics'
    specs = [None]
    for a in range(0, 12):
        specs.append(('open', a)); specs.append(('suffix', a))
        for b in range(0, 12):
            specs.append(('closed', a, b))
    specs += [('closed', 0, 10 ** 12), ('open', 10 ** 12), ('suffix', 10 ** 12), ('closed', 3, 2 ** 63)]
    ODD = ['items=0-1,4-5', 'seconds=1.5-3.25', 'npt=0:10-0:20', 't=10', 'rows=', 'items=a-b', 'pages=-', 'x=', 'items=0-1', 'Bytes=0-1', 'BYTES=1-', 'none=0-0', 'bytes', 'bytes=', 'bytes=-', 'bytes=a-b', 'bytes=0-1,3-4', 'bytes=--1', 'bytes=1-2-3', 'bytes= 0-1', 'bytes=0 - 1', 'bytes=+1-2',
           'bytes=1_0-', 'bytes=0x1-', 'bytes=1e0-', '=0-1', 'bytes=0-1;q=1', 'bytes=1.5-2', 'bytes 0-1', '']
    jobs = []
    for size in range(0, 10):
        for stack in ('wsgi', 'asgi'):
            for sp in specs:
                jobs.append((size, stack, 'std', sp))
            for o in ODD:
                jobs.append((size, stack, 'odd', o))
    i_shard, k_shard = ctx.shard
    sizes_done = set()
    for ji, (size, stack, kind, sp) in enumerate(jobs):
        if ji % k_shard != i_shard:
            continue
        data = bytes(range(65, 65 + size))
        rel = f'r{size}'
        fpath = os.path.join(served, rel)
        if size not in sizes_done:
            with open(fpath, 'wb') as f:
                f.write(data)
            os.utime(fpath, (T0, T0))
            sizes_done.add(size)
            fs_dirty()
        route = rnd.choice(['/s/', '/d/', '/f/'])
        if kind == 'std':
            if sp is None: hv = None
            elif sp[0] == 'open': hv = f'bytes={sp[1]}-'
            elif sp[0] == 'suffix': hv = f'bytes=-{sp[1]}'
            else: hv = f'bytes={sp[1]}-{sp[2]}'
        else:
            hv = sp
        headers = {} if hv is None else {'Range': hv}
        st, hd, hl, body, opened, seenp, err = request(stack, (route + rel).encode(), headers=headers)
        case = {'stack': stack, 'size': size, 'range': hv, 'route': route}
        ctx.count('range_status_' + str(st))
        cr = hd.get('content-range'); cl = hd.get('content-length')
        what = None
        f14 = False

        def full():
            if st != 200: return f'expected 200 with the whole file, got {st}'
            if body != data: return f'200 body {body!r} != file {data!r}'
            if cl != str(size): return f'Content-Length {cl!r} != {size}'
            if cr is not None: return f'200 with Content-Range {cr!r}'
            return None

        def partial(first, last):
            if st != 206: return f'expected 206 for bytes {first}-{last}/{size}, got {st}'
            if cr is None: return '206 without Content-Range'
            if cr != f'bytes {first}-{last}/{size}': return f'Content-Range {cr!r} != "bytes {first}-{last}/{size}"'
            if body != data[first:last + 1]: return f'206 body {body!r} != file[{first}:{last + 1}] = {data[first:last + 1]!r}'
            if cl != str(last - first + 1): return f'Content-Length {cl!r} != {last - first + 1}'
            return None

        def unsat():
            if st != 416: return f'expected 416, got {st}'
            if cr != f'bytes */{size}': return f'416 Content-Range {cr!r} != "bytes */{size}"'
            return None

        def consistent():
            """whatever a lenient parser made of a malformed value, the response must be self-consistent"""
            if st in (400,): return None
            if st == 200: return full()
            if st == 416: return unsat()
            if st == 206:
                m = re.fullmatch(r'bytes (\d+)-(\d+)/(\d+)', cr or '')
                if not m: return f'206 with Content-Range {cr!r}'
                a, b, s = map(int, m.groups())
                if s != size or not (a <= b < size): return f'206 Content-Range {cr!r} outside a {size}-byte file'
                return partial(a, b)
            return f'status {st}'
        if err:
            what = f'raised {err}'
        elif opened != [fpath]:
            what = f'opened {opened!r}'
        elif kind == 'odd':
            unit = hv.partition('=')[0] if '=' in hv else None
            if unit is not None and unit != 'bytes' and unit.strip().lower() != 'bytes':
                what = full()                     # unknown range unit: the header is ignored (RFC 9110 14.2)
            else:
                what = consistent()
        elif sp is None:
            what = full()
        elif sp[0] == 'closed':
            a, b = sp[1], sp[2]
            if b < a:
                what = None if st == 400 else consistent()      # invalid int-range: rejected or ignored
            elif a >= size:
                if size == 0 and st == 200 and body == b'':
                    f14 = True
                else:
                    what = unsat()
            else:
                what = partial(a, min(b, size - 1))
        elif sp[0] == 'open':
            a = sp[1]
            if a >= size:
                if size == 0 and st == 200 and body == b'':
                    f14 = True
                else:
                    what = unsat()
            else:
                what = partial(a, size - 1)
        else:
            n = sp[1]
            if n == 0:
                what = None if st in (400, 416) else f'bytes=-0 answered {st}'
            elif size == 0:
                what = None if ((st == 200 and body == b'' and cl == '0') or st == 416) else f'suffix range on an empty file answered {st} {body!r}'
            else:
                what = partial(size - min(n, size), size - 1)
        if f14:
            ctx.oracle(ORA_RANGE, False, 'size 0: Range ignored (200, empty body)', case)
        else:
            ctx.oracle(ORA_RANGE, what is None, what, case)
        # correspondence with _set_range for the well-formed forms falcon's parser maps to (first, last)
        if kind == 'std' and sp is not None and not err and not (sp[0] == 'closed' and sp[2] < sp[1]) and not (sp[0] == 'suffix' and sp[1] == 0):
            if sp[0] == 'closed': a, b = sp[1], sp[2]
            elif sp[0] == 'open': a, b = sp[1], -1
            else: a, b = -sp[1], -1
            if st == 200: rep = f'whole {cl}'
            elif st == 206:
                m = re.fullmatch(r'bytes (\d+)-(\d+)/(\d+)', cr or '')
                rep = f'partial {m.group(1)} {m.group(2)} {cl}' if m else f'206 {cr}'
            elif st == 416:
                m = re.fullmatch(r'bytes \*/(\d+)', cr or '')
                rep = f'unsat {m.group(1)}' if m else f'416 {cr}'
            else:
                rep = f'status {st}'
            rsess.case(case); rsess.op(f'range {size} {a} {b}', rep)
        # the complete response for EVERY header value (also other units and malformed ones) vs. Sr.call: the raw header text goes to the model
        if not err and seenp is not None:
            call_ops(case, 'GET', route, seenp, hv, st, hd, body, opened)
        ctx.seen((stack, size, hv, 'range'), hv is not None)
    rsess.finish()

    # ---------------------------------------------------------------- 4. If-Modified-Since around the mtime
    ORA_COND = 'conditional: not modified -> 304 without body, modified -> the file'
    # modification times: the epoch itself (a legitimate value that is falsy), its neighbours, the usual one with and without a
    # fractional part, and one beyond 2^31; methods: GET and HEAD (a HEAD revalidation is answered like the GET, without body)
    for mt, method in [(m_, 'GET') for m_ in (T0, T0 + 0.5, T0 + 0.999, 0, 0.5, 1, 2 ** 31 + 0.25)] + [(T0 + 0.5, 'HEAD'), (0, 'HEAD')]:
        fpath = os.path.join(served, 'a.txt')
        os.utime(fpath, (mt, mt))
        fs_dirty()
        lm = int(mt)
        ctx.count(f'conditional_{method}_mtime_' + ('epoch' if mt == 0 else 'near_epoch' if mt < 10 else 'beyond_2^31' if mt > 2 ** 31 else 'ordinary'))
        for stack in ('wsgi', 'asgi'):
            for delta in (-86400, -2, -1, 0, 1, 2, 86400):
                if lm + delta < 0:
                    continue
                for rng in (None, 'bytes=2-4', 'bytes=50-', 'bytes=-3', 'items=0-1', 'bytes=4-2', 'junk'):
                    for route in ('/s/', '/d/'):
                        ims = email.utils.formatdate(lm + delta, usegmt=True)
                        headers = {'If-Modified-Since': ims}
                        if rng: headers['Range'] = rng
                        st, hd, hl, body, opened, seenp, err = request(stack, (route + 'a.txt').encode(), headers=headers, method=method)
                        case = {'stack': stack, 'method': method, 'mtime': mt, 'if_modified_since': ims, 'range': rng, 'route': route}
                        data = FILES['a.txt']
                        what = None
                        if method == 'HEAD':
                            # judged on status and headers only: what the GET would answer, and never a body
                            if err: what = f'raised {err}'
                            elif body: what = f'HEAD answered with a body {body!r}'
                            elif delta >= 0:
                                if st != 304 and not (rng in ('bytes=4-2', 'junk') and st == 400): what = f'HEAD: not modified since {ims} but status {st}'
                            elif rng is None or rng == 'items=0-1':
                                if st != 200: what = f'HEAD: modified, expected 200, got {st}'
                            elif rng in ('bytes=2-4', 'bytes=-3'):
                                if st != 206: what = f'HEAD: modified + range, expected 206, got {st}'
                            elif rng == 'bytes=50-':
                                if st != 416: what = f'HEAD: modified + unsatisfiable range, expected 416, got {st}'
                            if what is None and st in (200, 206, 304) and hd.get('last-modified') != email.utils.formatdate(lm, usegmt=True):
                                what = f'Last-Modified {hd.get("last-modified")!r} for mtime {mt}'
                            ctx.oracle(ORA_COND, what is None, what, case)
                            ctx.seen((stack, method, mt, ims, rng, route), True)
                            continue
                        if err: what = f'raised {err}'
                        elif hd.get('last-modified') != email.utils.formatdate(lm, usegmt=True): what = f'Last-Modified {hd.get("last-modified")!r} for mtime {mt}'
                        elif delta >= 0:
                            if st != 304: what = f'not modified since {ims} but status {st}'
                            elif body: what = f'304 with a body {body!r}'
                        elif rng is None:
                            if st != 200 or body != data: what = f'modified: expected 200 + file, got {st} {body!r}'
                        elif rng == 'bytes=2-4':
                            if st != 206 or body != data[2:5] or hd.get('content-range') != f'bytes 2-4/{len(data)}': what = f'modified + range: got {st} {body!r} {hd.get("content-range")!r}'
                        elif rng == 'bytes=-3':
                            if st != 206 or body != data[-3:] or hd.get('content-range') != f'bytes {len(data) - 3}-{len(data) - 1}/{len(data)}': what = f'modified + suffix range: got {st} {body!r} {hd.get("content-range")!r}'
                        elif rng == 'items=0-1':
                            if st != 200 or body != data: what = f'modified + other range unit: expected 200 + file, got {st} {body!r}'
                        elif rng in ('bytes=4-2', 'junk'):
                            if st not in (400, 416) and not (st == 200 and body == data): what = f'modified + invalid Range {rng!r}: got {st} {body!r}'
                        else:
                            if st != 416 or hd.get('content-range') != f'bytes */{len(data)}': what = f'modified + unsatisfiable range: got {st} {hd.get("content-range")!r}'
                        if delta >= 0 and rng in ('bytes=4-2', 'junk') and st == 400 and not err:
                            what = None            # a malformed Range may be rejected before the conditional is evaluated; the statement does not order them
                        ctx.oracle(ORA_COND, what is None, what, case)
                        if not err and seenp is not None:
                            call_ops(case, 'GET', route, seenp, rng, st, hd, body, opened)
                        ctx.seen((stack, mt, ims, rng, route), True)
            for bad in ('garbage', '', 'Thu, 32 Foo 2020 00:00:00 GMT', 'Sunday, 06-Nov-94 08:49:37 GMT', 'Sun Nov  6 08:49:37 1994'):
                for rng in (None, 'bytes=2-4', 'bytes=50-'):
                    headers = {'If-Modified-Since': bad}
                    if rng: headers['Range'] = rng
                    st, hd, hl, body, opened, seenp, err = request(stack, b'/s/a.txt', headers=headers)
                    ok_file = (st == 200 and body == FILES['a.txt']) if rng is None else ((st == 206 and body == FILES['a.txt'][2:5]) if rng == 'bytes=2-4' else st == 416)
                    what = None if (not err and (st == 400 or st == 304 or ok_file)) else f'invalid If-Modified-Since {bad!r}: {st} {err}'
                    ctx.oracle(ORA_COND, what is None, what, {'stack': stack, 'if_modified_since': bad, 'range': rng})
                    if not err and seenp is not None:
                        call_ops({'stack': stack, 'if_modified_since': bad, 'range': rng}, 'GET', '/s/', seenp, rng, st, hd, body, opened)
    os.utime(os.path.join(served, 'a.txt'), (T0, T0))
    fs_dirty()
    # a conditional header never turns "no such file" into "not modified": whatever is not a file below the served directory (a directory,
    # a missing name, a name that is too long for the file system) answers with or without If-Modified-Since alike; a served file or fallback
    # answers 304 to a date in the far future
    ORA_COND2 = 'conditional on non-files: If-Modified-Since does not change the answer for directories / missing names; served files become 304'
    far = 'Thu, 31 Dec 2099 23:59:59 GMT'
    for stack in ('wsgi', 'asgi'):
        for route in ('/s/', '/d/', '/f/', '/g/', '/s/nested/x/'):
            for rel in ['', 'sub', 'sub/', 'sub/.', 'emptydir', 'emptydir/', 'nested', 'nested/x', 'nested/x/', 'no-such-file', 'sub/no-such', 'a.txt', 'a.txt/', 'x' * 300, 'é' * 130, '.', './']:
                raw = (route + rel).encode()
                st0, hd0, _, body0, opened0, seenp0, err0 = request(stack, raw)
                st1, hd1, _, body1, opened1, seenp1, err1 = request(stack, raw, headers={'If-Modified-Since': far})
                what = None
                if err0 or err1: what = f'raised {err0 or err1}'
                elif st0 == 200 and st1 != 304: what = f'a served file ({st0} without the header) answers {st1} to If-Modified-Since: {far}'
                elif st0 == 200 and body1: what = f'304 with a body {body1[:20]!r}'
                elif st0 != 200 and st1 != st0: what = f'without the header {st0}, with If-Modified-Since {st1}: a conditional header changed the answer for something that is not a served file'
                ctx.oracle(ORA_COND2, what is None, what, {'stack': stack, 'request_target': route + (rel if len(rel) < 40 else rel[:10] + f'...({len(rel)} chars)'), 'if_modified_since': far})
                ctx.seen(('cond2', stack, route, rel), st0 == 200)
                ctx.count('conditional_on_' + ('served_file' if st0 == 200 else 'non_file_%d' % st0))
    csess.finish()

    # ---------------------------------------------------------------- 5. match(), directly on StaticRoute objects
    dsess = ctx.session('match / _BoundedFile / _set_range on the real objects = Sr model', 'stdriver')
    SEG = ['a', 'b', 'ab', 'A', 'static', 'x y', 'é', '.', '..', 'a.b', '']
    for ci in range(ctx.n(1500, 30000)):
        pf = '/' + '/'.join(rnd.choice(SEG) for _ in range(rnd.randint(0, 3)))
        if rnd.random() < 0.3: pf += '/'
        has_fb = rnd.random() < 0.5
        npf = pf if pf.endswith('/') else pf + '/'
        r = rnd.randrange(9)
        if r == 0: path = pf
        elif r == 1: path = npf
        elif r == 2: path = npf[:-1]
        elif r == 3: path = npf + rnd.choice(SEG) + rnd.choice(['', '/', '/x'])
        elif r == 4: path = npf[:-1] + rnd.choice(['x', '.', ' ', '//', '/.', '%2f'])
        elif r == 5: path = npf[:rnd.randint(0, len(npf))]
        elif r == 6: path = npf.swapcase() + 'a'
        elif r == 7: path = npf[:-1][:-1]
        else: path = '/' + '/'.join(rnd.choice(SEG) for _ in range(rnd.randint(0, 4)))
        sr = StaticRoute(pf, served, fallback_filename=fb_out if has_fb else None)
        got = bool(sr.match(path))
        case = {'prefix': pf, 'fallback': has_fb, 'path': path}
        want = path.startswith(npf) or (has_fb and path + '/' == npf)
        ctx.oracle(ORA_MATCH, got == want, None if got == want else f'match({path!r}) = {got} for prefix {pf!r}' + (' with' if has_fb else ' without') + ' fallback', case)
        dsess.case(case)
        dsess.op(f'match {H(pf)} {1 if has_fb else 0} {H(path)}', 'true' if got else 'false')
        ctx.seen(('match', pf, has_fb, path), got)
        ctx.count('match_' + str(got))

    # ---------------------------------------------------------------- 6. _BoundedFile on real file handles: the bytes of every read
    ORA_BF = '_BoundedFile: the reads concatenate to a prefix of file[pos:pos+length], never more than length bytes, never more than asked for'
    scratch = os.path.join(root, 'bf')
    os.makedirs(scratch)
    SIZES = [None, -1, -7, 0, 0, 1, 1, 2, 3, 5, 8, 100, 8192, 'noarg']
    for ci in range(ctx.n(1500, 40000)):
        n = rnd.choice([0, 1, 2, 3, 5, 8, 13, 21, 40])
        data = bytes(rnd.randrange(256) for _ in range(n))
        fp_ = os.path.join(scratch, f'f{ctx.shard[0]}')
        with open(fp_, 'wb') as f:
            f.write(data)
        pos = rnd.randint(0, n + 2)
        length = rnd.choice([0, 1, 2, 3, n, max(0, n - pos), n + 3, rnd.randint(0, n + 1)])
        sizes = [rnd.choice(SIZES) for _ in range(rnd.randint(1, 8))]
        fh = open(fp_, 'rb')
        fh.seek(pos)
        bf = _BoundedFile(fh, length)
        outs = []
        raised = None
        for sz in sizes:
            try:
                outs.append(bf.read() if sz == 'noarg' else bf.read(sz))
            except Exception as e:  # noqa
                raised = f'read({sz}) raised {type(e).__name__}: {e}'
                break
        rem = bf.remaining
        bf.close()
        closed = fh.closed
        if not closed: fh.close()
        window = data[pos:pos + length]
        cat = b''
        what = None
        for sz, o in zip(sizes, outs):
            cat += o
            if not isinstance(o, bytes): what = f'read({sz}) returned {type(o).__name__}'
            elif isinstance(sz, int) and sz >= 0 and len(o) > sz: what = f'read({sz}) returned {len(o)} bytes'
            elif not window.startswith(cat): what = f'after read({sz}) the bytes handed out {cat!r} are not a prefix of file[{pos}:{pos + length}] = {window!r}'
            elif (sz is None or sz == 'noarg' or (isinstance(sz, int) and sz < 0)) and cat != window: what = f'read({sz}) did not deliver the rest of the window: {cat!r} != {window!r}'
            if what: break
        if what is None and raised: what = raised
        if what is None and len(cat) > length: what = f'{len(cat)} bytes handed out of a {length}-byte window'
        if what is None and not closed: what = 'close() did not close the underlying file'
        case = {'data': data, 'pos': pos, 'length': length, 'read_sizes': [str(x) for x in sizes]}
        ctx.oracle(ORA_BF, what is None, what, case)
        dsess.case(case)
        dsess.op(f'bfile {hx(data)} {pos} {length} ' + ','.join('N' if x is None else ('-1' if x == 'noarg' else str(x)) for x in sizes),
                 ' '.join('r ' + hx(o) for o in outs) + (f' rem {rem}' if not raised else ' ' + raised.replace(' ', '_')))
        ctx.seen(('bf', data, pos, length, tuple(map(str, sizes))), bool(cat))
        ctx.count('bf_bytes_' + ('0' if not cat else ('window' if cat == window else 'part')))

    # ---------------------------------------------------------------- 7. _set_range directly: stream kind, position, window, length, Content-Range
    ORA_SR = '_set_range: the stream delivers exactly the bytes Content-Range names, length is their number'
    tuples = [None]
    for a in range(0, 12):
        tuples.append((a, -1)); tuples.append((-a - 1, -1))
        for b in range(a, 12):
            tuples.append((a, b))
    tuples += [(0, 10 ** 12), (10 ** 12, -1), (-10 ** 12, -1), (3, 2 ** 63), (2 ** 70, 2 ** 70)]
    jn = 0
    for size in range(0, 10):
        data = bytes(range(97, 97 + size))
        fp_ = os.path.join(scratch, f's{ctx.shard[0]}_{size}')
        with open(fp_, 'wb') as f:
            f.write(data)
        for t in tuples:
            jn += 1
            if jn % k_shard != i_shard:
                continue
            fh = open(fp_, 'rb')
            st_ = os.fstat(fh.fileno())
            what = None
            try:
                stream, length, cr = _set_range(fh, st_, t)
            except Exception as e:  # noqa
                if not isinstance(e, falcon.HTTPRangeNotSatisfiable):
                    rep = f'raised {type(e).__name__}'; what = f'_set_range({t}) on {size} bytes raised {type(e).__name__}: {e}'
                    if not fh.closed: fh.close()
                    case = {'size': size, 'req_range': None if t is None else [str(t[0]), str(t[1])]}
                    ctx.oracle(ORA_SR, False, what, case)
                    dsess.case(case); dsess.op(f'setrange {hx(data)} ' + ('none' if t is None else f'{t[0]} {t[1]}'), rep)
                    continue
                crh = dict(e.headers or {}).get('Content-Range', '')
                m = re.fullmatch(r'bytes \*/(\d+)', crh)
                rep = (f'unsat {m.group(1)}' if m else f'unsat ?{crh}') + ('' if fh.closed else ' not-closed')
                if size > 0 and not (t is not None and t[0] >= size): what = f'416 for a satisfiable range {t} of a {size}-byte file'
                elif crh != f'bytes */{size}': what = f'416 with Content-Range {crh!r}'
            else:
                posn = fh.tell()
                if stream is fh:
                    rep = f'raw {posn} {length} ' + ('-' if cr is None else f'{cr[0]}-{cr[1]}/{cr[2]}')
                elif isinstance(stream, _BoundedFile):
                    rep = f'bounded {posn} {stream.remaining} {length} ' + ('-' if cr is None else f'{cr[0]}-{cr[1]}/{cr[2]}')
                else:
                    rep = f'stream {type(stream).__name__}'
                got = b''
                try:
                    while True:
                        chunk = stream.read(4)
                        if not chunk: break
                        got += chunk
                        if len(got) > size + 8: break
                except Exception as e:  # noqa
                    got = f'<read raised {type(e).__name__}>'.encode()
                if cr is None:
                    if got != data or length != size: what = f'no Content-Range but stream {got!r}, length {length} for file {data!r}'
                    elif t is not None and size > 0: what = f'range {t} ignored on a {size}-byte file'
                else:
                    a_, b_, s_ = cr
                    if s_ != size or not (0 <= a_ <= b_ < size): what = f'Content-Range {cr} outside a {size}-byte file'
                    elif got != data[a_:b_ + 1]: what = f'stream {got!r} != file[{a_}:{b_ + 1}] = {data[a_:b_ + 1]!r}'
                    elif length != b_ - a_ + 1: what = f'length {length} != {b_ - a_ + 1}'
                    else:
                        if t[1] == -1 and t[0] < 0: exp = (size - min(-t[0], size), size - 1)
                        elif t[1] == -1: exp = (t[0], size - 1)
                        else: exp = (t[0], min(t[1], size - 1))
                        if (a_, b_) != exp: what = f'range {t} on {size} bytes served as {a_}-{b_}, RFC 9110 says {exp[0]}-{exp[1]}'
                if not fh.closed: fh.close()
            case = {'size': size, 'req_range': None if t is None else [str(t[0]), str(t[1])]}
            ctx.oracle(ORA_SR, what is None, what, case)
            dsess.case(case)
            dsess.op(f'setrange {hx(data)} ' + ('none' if t is None else f'{t[0]} {t[1]}'), rep)
            ctx.seen(('setrange', size, t), t is not None and size > 0)
    dsess.finish()
    drv.close()

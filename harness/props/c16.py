"""C16 - static routes never leave their directory and serve exactly the requested bytes / ranges."""
PROP = 'C16'
LEAN_MODULES = ['FalconModel.Static']
DRIVERS = ['stdriver']
THEOREMS = [
    'St.resolve_contained', 'St.serve_contained', 'St.rejected_opens_nothing',
    'St.range_closed', 'St.range_open', 'St.range_suffix', 'St.range_wellformed',
]
STATEMENTS = {
    'St.resolve_contained': 'for an ARBITRARY normpath result n: if the tail of StaticRoute.__call__ accepts, the path opened is dir + "/" + n (or dir + n when dir ends with a slash) and contains no ".." anywhere - containment does not depend on normpath being right',
    'St.serve_contained': 'for EVERY request-path suffix s: if sanitise -> normpath -> resolve hands a path to io.open, it is dir + "/" + normpath(s), contains no ".." at all, and s has no control / reserved character, no backslash, no "//", at most 512 characters (and is non-empty unless a fallback is configured)',
    'St.rejected_opens_nothing': 'a suffix failing one of the six textual tests opens nothing (404 before any file-system access)',
    'St.range_closed': 'bytes=first-last on size > 0: unsatisfiable iff first >= size, else 206 with first..min(last, size-1) and length min(last,size-1)-first+1 (RFC 9110)',
    'St.range_open': 'bytes=first- on size > 0: unsatisfiable iff first >= size, else first..size-1 with length size-first',
    'St.range_suffix': 'bytes=-n (n > 0) on size > 0: the last min(n, size) bytes',
    'St.range_wellformed': 'every 206 slice satisfies first <= last < size and Content-Length = last - first + 1',
}
TRUSTED = [
    'the operating system: io.open(path) opens the file that path names; a path that starts with dir + "/" and contains no ".." (and no symlink) names a file below dir',
    'sys.addaudithook reports every open() performed while a request is handled',
    'falcon.Request.range: the (first, last) tuple the Range parser hands to _set_range (first-last -> (first,last); first- -> (first,-1); -n -> (-n,-1)); the correspondence compares the complete responses, so a wrong tuple shows up as a mismatch',
]
ASSUMPTIONS = [
    'directory trees of regular files and subdirectories, no symlinks (as in the property statement); POSIX path semantics (os.path is posixpath)',
    'the request path reaches the app percent-decoded once, as PEP 3333 / ASGI servers deliver it (PATH_INFO latin-1, scope["path"] UTF-8 with replacement)',
    'bytes=-0 and first > last are treated as malformed by falcon\'s Range parser (400); the oracle accepts 400 or 416 / an ignored header for syntactically odd Range values, and demands 206/416 exactly for well-formed single byte ranges',
    'KNOWN FINDING F14 (left in the code): on a zero-length file an int-range (RFC-unsatisfiable) is ignored: 200 with an empty body instead of 416',
]
RULE = ('scratch tree (16 files of sizes 0..9 in 3 directory levels, names with spaces / unicode / dots / reserved punctuation; secret files next to the served directory) under a fresh '
        'tempfile.mkdtemp(); request paths = route prefix + suffix from a traversal grammar (dot segments, raw and percent-encoded and doubled separators, backslashes, control / reserved '
        'characters, NUL, over-long names, overlong-UTF-8 and unicode look-alike dots and slashes, absolute paths to the secrets) or a mutation of an existing name, through full WSGI and ASGI apps '
        'with 5 static routes (plain, downloadable, fallback inside, fallback outside, nested prefix); every open() during the request is recorded by an audit hook. '
        'Ranges: every first-last / first- / -suffix with bounds 0..11, other units and malformed values x every file size 0..9 x both stacks, exhaustively in every run; '
        'If-Modified-Since at mtime-2 .. mtime+2 (mtime with and without a fractional part). non-trivial = the route opened a file; distinct = distinct (stack, route, request bytes, headers)')
PARTIAL = ''
JOBS = {'quick': 4, 'thorough': 16}

LEVEL_TEXT = ('Machine-checked proofs (Lean 4): for every request-path suffix the path handed to io.open by StaticRoute.__call__ is directory + "/" + normpath(suffix) with no ".." anywhere '
              '(serve_contained; resolve_contained holds for an arbitrary normpath), rejected suffixes open nothing, and _set_range computes the RFC 9110 slice for every size > 0 '
              '(range_closed / range_open / range_suffix / range_wellformed). The model (six textual tests, POSIX normpath, join, final check, _set_range) is tied to falcon/routing/static.py '
              'on every run: the same suffixes go through full WSGI and ASGI apps on a real scratch tree and to the compiled model, comparing the first path opened (audit hook) or the 404, and every '
              'Range form x file size 0..9 compares the complete response. An independent oracle judges containment by realpath of every opened file, exact bodies / slices, 206 / 416 / 304 headers.')
LEVEL_NOTE = ('Trusted: Lean kernel + standard axioms; correspondence harness and oracle; the OS path resolution and the audit hook; falcon.Request.range tuple convention. '
              'Symlinks excluded by the property. F14 (size 0 ignores Range) is a listed known finding.')
TECHNIQUE = 'Lean 4 proofs (path containment for all strings; range arithmetic) + differential correspondence vs. real static routes on a scratch tree with open() auditing + statement oracle'

_STATE = {'on': False, 'opened': [], 'installed': False}


def _install_hook():
    import sys
    if _STATE['installed']:
        return

    def hook(ev, args):
        if ev == 'open' and _STATE['on']:
            p = args[0]
            if isinstance(p, bytes):
                p = p.decode('utf-8', 'surrogateescape')
            if isinstance(p, str):
                _STATE['opened'].append(p)
    sys.addaudithook(hook)
    _STATE['installed'] = True


def run(ctx):
    import os
    import shutil
    import tempfile
    root = os.path.realpath(tempfile.mkdtemp(prefix='fv-static-'))
    assert not root.startswith(('/repo', '/verif')), root
    try:
        _run(ctx, root)
    finally:
        _STATE['on'] = False
        shutil.rmtree(root, ignore_errors=True)


FILES = {
    'a.txt': b'0123456789', 'index.html': b'<html>', 'sub/b.bin': b'xyz', 'sub/deep/c': b'', 'e': b'E', '.hidden': b'HIDE!', 'a..b': b'DOTS',
    'sp ace.txt': b'SPACE..', 'ünï.txt': 'ü'.encode(), 'sub/x.json': b'{"a": 1}', 'UPPER.TXT': b'UP', 'pct%41.txt': b'PCT', 'name;param': b'SEMI',
    'plus+sign': b'PLUS1', 'semi,colon': b'CO', 'sub/deep/d.css': b'a{b:c}', 'sub/index.html': b'SUBIDX',
}
SAFE_NAMES = ['a.txt', 'index.html', 'sub/b.bin', 'sub/deep/c', 'e', 'sub/x.json', 'UPPER.TXT', 'sub/deep/d.css', '.hidden', 'plus+sign', 'semi,colon', 'name;param']
# ('a..b' exists in the tree but is not servable: the final check refuses any path containing '..' - a 404, which the statement allows)


def _run(ctx, root):
    import os
    import sys
    import time
    import email.utils
    import re
    import urllib.parse
    from runner import hx
    import falcon
    import falcon.asgi
    from lib_httpdrive import wsgi_call, AsgiDriver, pct_decode, simple_file_wrapper
    rnd = ctx.rng
    _install_hook()

    served = os.path.join(root, 'pub')
    for rel, data in FILES.items():
        p = os.path.join(served, rel)
        os.makedirs(os.path.dirname(p), exist_ok=True)
        with open(p, 'wb') as f:
            f.write(data)
    os.makedirs(os.path.join(served, 'emptydir'))
    secrets = {'secret.txt': b'SECRET-1', 'pub-evil/s': b'SECRET-2', 'pub.bak': b'SECRET-3', 'pub2/a.txt': b'SECRET-4'}
    for rel, data in secrets.items():
        p = os.path.join(root, rel)
        os.makedirs(os.path.dirname(p), exist_ok=True)
        with open(p, 'wb') as f:
            f.write(data)
    os.makedirs(os.path.join(root, 'fallback'))
    fb_out = os.path.join(root, 'fallback', 'fb.html')
    with open(fb_out, 'wb') as f:
        f.write(b'FALLBACK')
    fb_in = os.path.join(served, 'index.html')
    T0 = 1_600_000_000
    for dp, dn, fn in os.walk(root):
        for n in fn:
            os.utime(os.path.join(dp, n), (T0, T0))

    # route table: prefix -> (directory, downloadable, fallback path or None)
    ROUTES = {
        '/s/': (served, False, None),
        '/d/': (served, True, None),
        '/f/': (served, False, fb_in),
        '/g/': (served, True, fb_out),
        '/s/nested/x/': (os.path.join(served, 'sub'), False, None),
    }
    seen_path = {}

    class Cap:
        def process_request(self, req, resp):
            seen_path['p'] = req.path

    class CapA:
        async def process_request(self, req, resp):
            seen_path['p'] = req.path

    def build(cls, mw):
        app = cls(middleware=[mw])
        app.add_static_route('/s', served)
        app.add_static_route('/d', served, downloadable=True)
        app.add_static_route('/f', served, fallback_filename='index.html')
        app.add_static_route('/g', served, downloadable=True, fallback_filename=fb_out)
        app.add_static_route('/s/nested/x', os.path.join(served, 'sub'))
        return app
    wapp = build(falcon.App, Cap())
    aapp = build(falcon.asgi.App, CapA())
    drv = AsgiDriver()
    infra = tuple(p for p in {os.path.realpath(os.environ.get('FALCON_REPO', '/repo')), sys.prefix, sys.base_prefix, '/usr/lib/python', '/usr/local/lib/python'} if p)

    def request(stack, path_bytes, headers=None, method='GET'):
        """-> (status, headers dict lower-case (last wins) , header list, body, opened paths, req.path seen by the app or None, error)"""
        seen_path.clear()
        _STATE['opened'] = []
        _STATE['on'] = True
        try:
            if stack == 'wsgi':
                fw = simple_file_wrapper if rnd.random() < 0.3 else None
                st, hl, body = wsgi_call(wapp, method, path_bytes, headers=headers, file_wrapper=fw)
            else:
                st, hl, body, _ = drv.call(aapp, method, path_bytes, headers=headers)
            err = None
        except Exception as e:  # noqa
            st, hl, body, err = None, [], b'', f'{type(e).__name__}: {e}'
        finally:
            _STATE['on'] = False
        opened = [p for p in _STATE['opened'] if not (p.endswith(('.py', '.pyc')) or p.startswith(infra))]
        return st, {k.lower(): v for k, v in hl}, hl, body, opened, seen_path.get('p'), err

    def inside(p, directory):
        rp = os.path.realpath(p)
        d = os.path.realpath(directory)
        return rp == d or rp.startswith(d + os.sep)

    def route_of(path):
        """LIFO matching as documented: the most recently added matching route wins"""
        for prefix in ['/s/nested/x/', '/g/', '/f/', '/d/', '/s/']:
            d, dl, fb = ROUTES[prefix]
            if path.startswith(prefix) or (fb is not None and path == prefix[:-1]):
                return prefix
        return None

    def H(s):
        return hx(s.encode('utf-8', 'surrogatepass'))

    def unroot(b):
        return b.replace(root.encode(), b'$ROOT').replace(root.encode().replace(b'/', b'%2f'), b'$ROOT(%2f-encoded)')

    sess = ctx.session('static path resolution = St.serve model', 'stdriver')
    ORA_CONT = 'containment: every file opened is inside the served directory or is the configured fallback'
    ORA_404 = 'served or 404: body is exactly the bytes of the file opened inside the directory / fallback, anything else is 404'
    ORA_POS = 'existing files are served byte-exact with matching headers'

    def judge_paths(stack, raw, st, hd, body, opened, prefix, err, case):
        ok = True
        if prefix is None:
            directory, dl, fb = None, False, None
        else:
            directory, dl, fb = ROUTES[prefix]
        bad = [p for p in opened if not ((directory is not None and inside(p, directory)) or (fb is not None and os.path.realpath(p) == os.path.realpath(fb)))]
        ok &= ctx.oracle(ORA_CONT, not bad and b'SECRET' not in body, (f'opened outside the served directory: {bad}' if bad else 'response body discloses a secret file') if (bad or b'SECRET' in body) else None, case)
        what = None
        if err:
            what = f'request raised {err}'
        elif st == 200:
            if not opened:
                what = '200 without opening any file'
            else:
                try:
                    with open(opened[-1], 'rb') as f:
                        want = f.read()
                except OSError:
                    want = None
                if want is None or body != want:
                    what = f'200 body {body!r} is not the content of the file opened last ({opened[-1]})'
                elif hd.get('content-length') != str(len(want)):
                    what = f'Content-Length {hd.get("content-length")!r} for a {len(want)}-byte file'
        elif st != 404:
            what = f'status {st} for a plain GET'
        elif body and b'SECRET' in body:
            what = '404 body discloses a secret'
        ok &= ctx.oracle(ORA_404, what is None, what, case)
        return ok

    # ---------------------------------------------------------------- 1. hostile and mutated paths
    TOK = [b'..', b'.', b'...', b'%2e%2e', b'%2e', b'.%2e', b'%2E%2E', b'/', b'/', b'//', b'%2f', b'%2F', b'%5c', b'\\', b'..%2f', b'..%5c', b'..\\', b'%00', b'%0a', b'%0d%0a', b'%09', b'~', b' ', b'%20', b'+',
           b':', b'*', b'%3f', b'<', b'>', b'|', b'"', b"'", b';', b'..;', b'%252e%252e', b'%25', b'%c0%af', b'%c0%ae%c0%ae', b'%ef%bc%8f', b'%e2%80%a5', b'%ef%bc%8e%ef%bc%8e', b'%e2%88%95',
           b'%80', b'%ff', b'%c2%a0', b'%c2%85', b'%e2%80%8b', b'%ef%bf%bd', b'%7f', b'%1f', b'%9f', b'%c2%9f',
           b'secret.txt', b'pub-evil', b'pub', b'pub2', b'pub.bak', b's', b'fallback', b'fb.html', b'a.txt', b'sub', b'deep', b'c', b'e', b'b.bin', b'index.html', b'emptydir', b'nested', b'x',
           root.encode(), (root + '/secret.txt').encode(), b'etc/passwd', b'/etc/passwd', b'x' * 300, b'y' * 513]
    existing = sorted(FILES) + ['sub', 'sub/deep', 'emptydir']

    def mutate(rel):
        b = urllib.parse.quote(rel, safe='/').encode() if rnd.random() < 0.5 else rel.encode()
        for _ in range(rnd.randint(1, 3)):
            k = rnd.randrange(14)
            pos = rnd.randint(0, len(b))
            if k == 0: b = b'../' * rnd.randint(1, 4) + rnd.choice([b'pub/', b'', b'pub-evil/', b'pub2/']) + b
            elif k == 1: b = b[:pos] + rnd.choice([b'./', b'/./', b'/../', b'/', b'//', b'\\', b'%5c', b'%2f', b'%2f..%2f']) + b[pos:]
            elif k == 2: b = b.replace(b'/', rnd.choice([b'%2f', b'//', b'\\', b'%5c', b'/./', b'%ef%bc%8f']), 1)
            elif k == 3: b = b + rnd.choice([b'/', b'.', b'..', b' ', b'%20', b'/.', b'/..', b'%00', b'%00.txt', b'::$DATA', b'~', b'%0a', b'/../../secret.txt', b'/..%2f..%2fsecret.txt', b'?x', b'%3f', b'#'])
            elif k == 4 and b: i = rnd.randrange(len(b)); b = b[:i] + bytes([b[i] ^ 0x20]) + b[i + 1:] if chr(b[i]).isalpha() else b
            elif k == 5 and b: i = rnd.randrange(len(b)); b = b[:i] + b'%%%02x' % b[i] + b[i + 1:]
            elif k == 6: b = rnd.choice([b' ', b'%20', b'.', b'./', b'/', b'%09', b'%c2%a0']) + b
            elif k == 7: b = b + b'/' + rnd.choice(TOK)
            elif k == 8: b = rnd.choice(TOK) + b'/' + b
            elif k == 9: b = b.replace(b'.', rnd.choice([b'%2e', b'%ef%bc%8e', b'%c0%ae']), 1)
            elif k == 10: b = b'sub/../' + b
            elif k == 11: b = b'emptydir/../' * rnd.randint(1, 3) + b
            elif k == 12: b = b + b'a' * rnd.choice([100, 500, 512, 513])
        return b

    n_paths = ctx.n(40000, 800000)
    for ci in range(n_paths):
        stack = rnd.choice(['wsgi', 'asgi'])
        prefix = rnd.choice(['/s/', '/s/', '/d/', '/f/', '/g/', '/s/nested/x/'])
        r = rnd.random()
        if r < 0.08:
            # absolute / sibling targets: the secrets and the directories whose names merely start with the served directory's name
            tgt = rnd.choice([root + '/secret.txt', root + '/pub-evil/s', root + '/pub2/a.txt', root + '/pub.bak', root + '/fallback/fb.html', served + '/../secret.txt',
                              served + '-evil/s', served + '2/a.txt', served + '/a.txt', '/etc/hostname']).encode()
            form = rnd.randrange(6)
            if form == 0: suffix = tgt
            elif form == 1: suffix = tgt[1:]
            elif form == 2: suffix = tgt.replace(b'/', b'%2f')
            elif form == 3: suffix = b'.' + tgt
            elif form == 4: suffix = b'../' * rnd.randint(1, 8) + tgt[1:]
            else: suffix = os.path.relpath(tgt.decode(), served).encode()
            kind = 'absolute'
        elif r < 0.45:
            suffix = b''.join(rnd.choice(TOK) + rnd.choice([b'', b'/', b'/', b'']) for _ in range(rnd.randint(1, 6)))
            kind = 'grammar'
        elif r < 0.9:
            suffix = mutate(rnd.choice(existing)); kind = 'mutation'
        else:
            suffix = rnd.choice(existing).encode(); kind = 'exact'
            if rnd.random() < 0.3: suffix = urllib.parse.quote(suffix.decode(), safe='').encode()
        pfx = prefix.encode()
        if rnd.random() < 0.05:
            pfx = pfx[:-1] if rnd.random() < 0.5 else pfx.replace(b'/s', b'/S')
            if rnd.random() < 0.5: suffix = b''
        raw = pfx + suffix
        path_bytes = pct_decode(raw)
        st, hd, hl, body, opened, seenp, err = request(stack, path_bytes)
        matched = route_of(seenp) if seenp is not None else None
        case = {'stack': stack, 'request_target': unroot(raw), 'decoded_path': unroot(path_bytes), 'route': matched}   # $ROOT = the scratch directory of this run
        judge_paths(stack, raw, st, hd, body, opened, matched, err, case)
        ctx.count('path_' + kind); ctx.count('path_status_' + str(st))
        if matched is not None and seenp is not None:
            directory, dl, fb = ROUTES[matched]
            sfx = seenp[len(matched):]
            sess.case({'stack': stack, 'route': matched, 'request_target': unroot(raw)})
            sess.op(f'serve {1 if fb else 0} {H(directory)} {H(sfx)}', ('open ' + H(opened[0])) if opened else 'reject')
            if opened and st == 200 and dl:
                # Content-Disposition names the file actually served
                cd = hd.get('content-disposition', '')
                base = os.path.basename(opened[-1])
                m = re.fullmatch(r'attachment; filename="(.*)"', cd) if base.isascii() else re.fullmatch(r"attachment; filename=[A-Za-z0-9._\-]+; filename\*=UTF-8''(.*)", cd)
                got = None if not m else (m.group(1) if base.isascii() else urllib.parse.unquote(m.group(1)))
                ctx.oracle(ORA_POS, got == base, f'downloadable: Content-Disposition {cd!r} does not name {base!r}' if got != base else None, case)
        ctx.seen((stack, raw), bool(opened))

    # ---------------------------------------------------------------- 2. positive control: every plainly named file is served exactly
    for stack in ('wsgi', 'asgi'):
        for prefix in ('/s/', '/d/', '/f/', '/g/'):
            for rel in SAFE_NAMES + ['sp ace.txt', 'ünï.txt', 'pct%41.txt']:
                raw = prefix.encode() + urllib.parse.quote(rel, safe='/').encode()
                st, hd, hl, body, opened, seenp, err = request(stack, pct_decode(raw))
                case = {'stack': stack, 'request_target': raw, 'route': prefix}
                want = FILES[rel]
                what = None
                if err: what = f'raised {err}'
                elif st != 200: what = f'existing file {rel!r} answered {st}'
                elif body != want: what = f'body {body!r} != file content {want!r}'
                elif hd.get('content-length') != str(len(want)): what = f'Content-Length {hd.get("content-length")!r} != {len(want)}'
                elif opened != [os.path.join(served, rel)]: what = f'opened {opened!r} instead of exactly the requested file'
                elif hd.get('last-modified') != email.utils.formatdate(T0, usegmt=True): what = f'Last-Modified {hd.get("last-modified")!r}'
                elif hd.get('accept-ranges') != 'bytes': what = 'Accept-Ranges: bytes missing'
                ctx.oracle(ORA_POS, what is None, what, case)
                sess.case({'stack': stack, 'route': prefix, 'request_target': raw})
                sess.op(f'serve {1 if ROUTES[prefix][2] else 0} {H(served)} {H(rel)}', ('open ' + H(opened[0])) if opened else 'reject')
                ctx.seen((stack, raw, 'pos'), True)
        # fallback: a missing file, a directory and the bare prefix are answered with the fallback file
        for prefix, fbp in (('/f/', fb_in), ('/g/', fb_out)):
            for sfx, expect_fb in ((b'missing.html', True), (b'', True), (b'sub/nope/none', True), (b'sub', True), (b'emptydir', True)):
                for raw in ([prefix.encode() + sfx] + ([prefix.encode()[:-1]] if sfx == b'' else [])):
                    st, hd, hl, body, opened, seenp, err = request(stack, pct_decode(raw))
                    case = {'stack': stack, 'request_target': raw, 'route': prefix}
                    with open(fbp, 'rb') as f:
                        fbdata = f.read()
                    if expect_fb:
                        what = None if (st == 200 and body == fbdata and opened and os.path.realpath(opened[-1]) == os.path.realpath(fbp)) else f'fallback not served: status {st}, body {body!r}, opened {opened}'
                    else:
                        what = None if (st == 404 and not opened) else f'rejected name answered {st}, opened {opened}'
                    ctx.oracle(ORA_POS, what is None, what, case)
                    judge_paths(stack, raw, st, hd, body, opened, prefix, err, case)
                    ctx.seen((stack, raw, 'fb'), True)
    sess.finish()

    # ---------------------------------------------------------------- 3. ranges x sizes, exhaustively
    rsess = ctx.session('range responses = St.setRange model', 'stdriver')
    ORA_RANGE = 'range semantics'
    specs = [None]
    for a in range(0, 12):
        specs.append(('open', a)); specs.append(('suffix', a))
        for b in range(0, 12):
            specs.append(('closed', a, b))
    specs += [('closed', 0, 10 ** 12), ('open', 10 ** 12), ('suffix', 10 ** 12), ('closed', 3, 2 ** 63)]
    ODD = ['items=0-1', 'Bytes=0-1', 'BYTES=1-', 'none=0-0', 'bytes', 'bytes=', 'bytes=-', 'bytes=a-b', 'bytes=0-1,3-4', 'bytes=--1', 'bytes=1-2-3', 'bytes= 0-1', 'bytes=0 - 1', 'bytes=+1-2',
           'bytes=1_0-', 'bytes=0x1-', 'bytes=1e0-', '=0-1', 'bytes=0-1;q=1', 'bytes=1.5-2', 'bytes 0-1', '']
    jobs = []
    for size in range(0, 10):
        for stack in ('wsgi', 'asgi'):
            for sp in specs:
                jobs.append((size, stack, 'std', sp))
            for o in ODD:
                jobs.append((size, stack, 'odd', o))
    i_shard, k_shard = ctx.shard
    sizes_done = set()
    for ji, (size, stack, kind, sp) in enumerate(jobs):
        if ji % k_shard != i_shard:
            continue
        data = bytes(range(65, 65 + size))
        rel = f'r{size}'
        fpath = os.path.join(served, rel)
        if size not in sizes_done:
            with open(fpath, 'wb') as f:
                f.write(data)
            os.utime(fpath, (T0, T0))
            sizes_done.add(size)
        route = rnd.choice(['/s/', '/d/', '/f/'])
        if kind == 'std':
            if sp is None: hv = None
            elif sp[0] == 'open': hv = f'bytes={sp[1]}-'
            elif sp[0] == 'suffix': hv = f'bytes=-{sp[1]}'
            else: hv = f'bytes={sp[1]}-{sp[2]}'
        else:
            hv = sp
        headers = {} if hv is None else {'Range': hv}
        st, hd, hl, body, opened, seenp, err = request(stack, (route + rel).encode(), headers=headers)
        case = {'stack': stack, 'size': size, 'range': hv, 'route': route}
        ctx.count('range_status_' + str(st))
        cr = hd.get('content-range'); cl = hd.get('content-length')
        what = None
        f14 = False

        def full():
            if st != 200: return f'expected 200 with the whole file, got {st}'
            if body != data: return f'200 body {body!r} != file {data!r}'
            if cl != str(size): return f'Content-Length {cl!r} != {size}'
            if cr is not None: return f'200 with Content-Range {cr!r}'
            return None

        def partial(first, last):
            if st != 206: return f'expected 206 for bytes {first}-{last}/{size}, got {st}'
            if cr is None: return '206 without Content-Range'
            if cr != f'bytes {first}-{last}/{size}': return f'Content-Range {cr!r} != "bytes {first}-{last}/{size}"'
            if body != data[first:last + 1]: return f'206 body {body!r} != file[{first}:{last + 1}] = {data[first:last + 1]!r}'
            if cl != str(last - first + 1): return f'Content-Length {cl!r} != {last - first + 1}'
            return None

        def unsat():
            if st != 416: return f'expected 416, got {st}'
            if cr != f'bytes */{size}': return f'416 Content-Range {cr!r} != "bytes */{size}"'
            return None

        def consistent():
            """whatever a lenient parser made of a malformed value, the response must be self-consistent"""
            if st in (400,): return None
            if st == 200: return full()
            if st == 416: return unsat()
            if st == 206:
                m = re.fullmatch(r'bytes (\d+)-(\d+)/(\d+)', cr or '')
                if not m: return f'206 with Content-Range {cr!r}'
                a, b, s = map(int, m.groups())
                if s != size or not (a <= b < size): return f'206 Content-Range {cr!r} outside a {size}-byte file'
                return partial(a, b)
            return f'status {st}'
        if err:
            what = f'raised {err}'
        elif opened != [fpath]:
            what = f'opened {opened!r}'
        elif kind == 'odd':
            unit = hv.partition('=')[0] if '=' in hv else None
            if unit is not None and unit != 'bytes' and unit.strip().lower() != 'bytes':
                what = full()                     # unknown range unit: the header is ignored (RFC 9110 14.2)
            else:
                what = consistent()
        elif sp is None:
            what = full()
        elif sp[0] == 'closed':
            a, b = sp[1], sp[2]
            if b < a:
                what = None if st == 400 else consistent()      # invalid int-range: rejected or ignored
            elif a >= size:
                if size == 0 and st == 200 and body == b'':
                    f14 = True
                else:
                    what = unsat()
            else:
                what = partial(a, min(b, size - 1))
        elif sp[0] == 'open':
            a = sp[1]
            if a >= size:
                if size == 0 and st == 200 and body == b'':
                    f14 = True
                else:
                    what = unsat()
            else:
                what = partial(a, size - 1)
        else:
            n = sp[1]
            if n == 0:
                what = None if st in (400, 416) else f'bytes=-0 answered {st}'
            elif size == 0:
                what = None if ((st == 200 and body == b'' and cl == '0') or st == 416) else f'suffix range on an empty file answered {st} {body!r}'
            else:
                what = partial(size - min(n, size), size - 1)
        if f14:
            ctx.oracle(ORA_RANGE, False, 'size 0: Range ignored (200, empty body)', case)
        else:
            ctx.oracle(ORA_RANGE, what is None, what, case)
        # correspondence with _set_range for the well-formed forms falcon's parser maps to (first, last)
        if kind == 'std' and sp is not None and not err and not (sp[0] == 'closed' and sp[2] < sp[1]) and not (sp[0] == 'suffix' and sp[1] == 0):
            if sp[0] == 'closed': a, b = sp[1], sp[2]
            elif sp[0] == 'open': a, b = sp[1], -1
            else: a, b = -sp[1], -1
            if st == 200: rep = f'whole {cl}'
            elif st == 206:
                m = re.fullmatch(r'bytes (\d+)-(\d+)/(\d+)', cr or '')
                rep = f'partial {m.group(1)} {m.group(2)} {cl}' if m else f'206 {cr}'
            elif st == 416:
                m = re.fullmatch(r'bytes \*/(\d+)', cr or '')
                rep = f'unsat {m.group(1)}' if m else f'416 {cr}'
            else:
                rep = f'status {st}'
            rsess.case(case); rsess.op(f'range {size} {a} {b}', rep)
        ctx.seen((stack, size, hv, 'range'), hv is not None)
    rsess.finish()

    # ---------------------------------------------------------------- 4. If-Modified-Since around the mtime
    ORA_COND = 'conditional: not modified -> 304 without body, modified -> the file'
    for mt in (T0, T0 + 0.5, T0 + 0.999):
        fpath = os.path.join(served, 'a.txt')
        os.utime(fpath, (mt, mt))
        lm = int(mt)
        for stack in ('wsgi', 'asgi'):
            for delta in (-86400, -2, -1, 0, 1, 2, 86400):
                for rng in (None, 'bytes=2-4', 'bytes=50-'):
                    for route in ('/s/', '/d/'):
                        ims = email.utils.formatdate(lm + delta, usegmt=True)
                        headers = {'If-Modified-Since': ims}
                        if rng: headers['Range'] = rng
                        st, hd, hl, body, opened, seenp, err = request(stack, (route + 'a.txt').encode(), headers=headers)
                        case = {'stack': stack, 'mtime': mt, 'if_modified_since': ims, 'range': rng, 'route': route}
                        data = FILES['a.txt']
                        what = None
                        if err: what = f'raised {err}'
                        elif hd.get('last-modified') != email.utils.formatdate(lm, usegmt=True): what = f'Last-Modified {hd.get("last-modified")!r} for mtime {mt}'
                        elif delta >= 0:
                            if st != 304: what = f'not modified since {ims} but status {st}'
                            elif body: what = f'304 with a body {body!r}'
                        elif rng is None:
                            if st != 200 or body != data: what = f'modified: expected 200 + file, got {st} {body!r}'
                        elif rng == 'bytes=2-4':
                            if st != 206 or body != data[2:5] or hd.get('content-range') != f'bytes 2-4/{len(data)}': what = f'modified + range: got {st} {body!r} {hd.get("content-range")!r}'
                        else:
                            if st != 416 or hd.get('content-range') != f'bytes */{len(data)}': what = f'modified + unsatisfiable range: got {st} {hd.get("content-range")!r}'
                        ctx.oracle(ORA_COND, what is None, what, case)
                        ctx.seen((stack, mt, ims, rng, route), True)
            for bad in ('garbage', '', 'Thu, 32 Foo 2020 00:00:00 GMT'):
                st, hd, hl, body, opened, seenp, err = request(stack, b'/s/a.txt', headers={'If-Modified-Since': bad})
                what = None if (not err and (st == 400 or (st == 200 and body == FILES['a.txt']))) else f'invalid If-Modified-Since {bad!r}: {st} {err}'
                ctx.oracle(ORA_COND, what is None, what, {'stack': stack, 'if_modified_since': bad})
    os.utime(os.path.join(served, 'a.txt'), (T0, T0))
    drv.close()

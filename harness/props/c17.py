"""C17 - WebSocket sessions follow the ASGI state machine and report misuse and errors."""
PROP = 'C17'
LEAN_MODULES = ['FalconModel.WsProofs', 'FalconModel.WsPayloadProofs', 'FalconModel.WsAcceptProofs', 'FalconModel.WsArgsProofs']
DRIVERS = ['wsdriver', 'wpdriver', 'wadriver', 'wtdriver']
THEOREMS = [
    # legality of everything the server accepts, for every script / inbox / fault / flag sequence
    'Ws.emitted_trace_legal', 'Ws.emitted_trace_legal_mw',
    # a session that returns normally to the server is closed, denied or known to be lost
    'Ws.closed_unless_escaped', 'Ws.closed_unless_escaped_mw',
    # (state, operation) -> error table, close-code table, error -> close-code mapping
    'Ws.wrong_state_send', 'Ws.wrong_state_recv', 'Ws.wrong_state_accept', 'Ws.send_after_disconnect',
    'Ws.close_after_closed_silent', 'Ws.close_records_disconnect', 'Ws.close_code_validation_exact', 'Ws.close_invalid', 'Ws.close_sends',
    'Ws.http_error_close_code', 'Ws.unexpected_error_close_code', 'Ws.raised_error_closes_open_socket',
    # the invariant and its preservation by every operation, script, handler
    'Ws.run_append', 'Ws.okEvents_snoc', 'Ws.Inv.init', 'Ws.Inv.weaken', 'Ws.Inv.sendOk', 'Ws.Inv.stopPump', 'Ws.send_spec',
    'Ws.accept_inv', 'Ws.closeGo_inv', 'Ws.close_inv', 'Ws.sendMsg_inv', 'Ws.receive_spec', 'Ws.recv_inv', 'Ws.op_inv',
    'Ws.runScript_inv', 'Ws.cleanup_inv', 'Ws.handleException_inv', 'Ws.handle_inv', 'Ws.handleMw_inv',
    'Ws.closeGo_closed', 'Ws.close_closed', 'Ws.cleanup_closed', 'Ws.handleException_closed', 'Ws.validCode_http',
    # a close reason only reaches servers that support it
    'Ws.reason_only_if_supported', 'Ws.rejectFirst_reason',
    'Ws.SaneB.congr', 'Ws.SaneB.snoc', 'Ws.SaneB.frame', 'Ws.send_frame', 'Ws.closeGo_frame', 'Ws.guarded_no_reason', 'Ws.close_sane',
    'Ws.accept_sane', 'Ws.sendMsg_sane', 'Ws.receive_frame', 'Ws.recv_sane', 'Ws.op_sane', 'Ws.runScript_sane', 'Ws.cleanup_sane',
    'Ws.handleException_sane', 'Ws.handle_sane',
    # payload-carrying refinement (WsPayload.lean): "text/binary/media payloads arrive unchanged in order"
    'Wp.sent_payloads_in_order_unchanged', 'Wp.received_payloads_in_order_unchanged', 'Wp.received_payloads_in_order_unchanged_buffered',
    'Wp.wrong_payload_type_errors_exact', 'Wp.media_roundtrip', 'Wp.message_roundtrip', 'Wp.project_to_Ws',
    'Wp.send_ok', 'Wp.msg_op_exact', 'Wp.send_media_serialize_error', 'Wp.send_script_exact', 'Wp.sentBy_of_wire',
    'Wp.recv_msg', 'Wp.recv_disconnect', 'Wp.recv_closed', 'Wp.recv_handshake', 'Wp.payload_type_error_iff', 'Wp.recv_script_exact',
    'Wp.decode_matching', 'Wp.harness_inverse', 'Wp.buffered_handed_prefix',
    # the refinement, operation by operation, and the kind-level theorems transferred through it
    'Wp.proj_asgiSend', 'Wp.proj_send_', 'Wp.proj_requireAccepted', 'Wp.proj_accept', 'Wp.proj_stopPump', 'Wp.proj_closeGo', 'Wp.proj_close',
    'Wp.proj_sendKind', 'Wp.proj_recv', 'Wp.projOut_outOf', 'Wp.proj_op', 'Wp.send__inbox', 'Wp.accept_inbox', 'Wp.stopPump_inbox',
    'Wp.closeGo_inbox', 'Wp.close_inbox', 'Wp.recv_inbox_sub', 'Wp.op_inbox_sub', 'Wp.InboxWf.op', 'Wp.proj_runScript', 'Wp.InboxWf.close',
    'Wp.proj_cleanup', 'Wp.cleanup_wf', 'Wp.proj_handleException', 'Wp.proj_handle', 'Wp.projLog_length', 'Wp.projLog_dropLast',
    'Wp.ScriptOk.append', 'Wp.ScriptOk.raise', 'Wp.proj_rejectFirst', 'Wp.okEvents_proj',
    'Wp.emitted_trace_legal', 'Wp.closed_unless_escaped', 'Wp.reason_only_if_supported',
    # an abandoned (parked, then cancelled) receive_* leaves no trace in the session
    'Ws.recvAbandoned_noop', 'Ws.recvAbandoned_ok', 'Ws.recvAbandoned_wrong_state', 'Ws.abandoned_receive_session_continues', 'Ws.recvAbandoned_inv', 'Ws.recvAbandoned_sane',
    'Wp.recvAbandoned_noop', 'Wp.proj_recvAbandoned',
    # the SERVER's behaviour as an input: a close-code policy (`refused`) and an exception of any class whose message may name the close code (`faultIcc`)
    'Ws.close_refused', 'Ws.refused_error_close_falls_back', 'Ws.refused_error_close_without_hint_escapes',
    'Ws.stopPump_refused', 'Ws.stopPump_fault', 'Ws.stopPump_faultIcc', 'Wp.proj_refuses',
    # the arguments of accept() (WsAccept.lean): the event is legal or the documented error is raised
    'Wa.accept_event_legal', 'Wa.accept_forbidden_header_raises', 'Wa.accept_event_only_if_checked', 'Wa.accept_is_op',
    'Wa.process_ok', 'Wa.forbidden_rejected', 'Wa.forbidden_rejected_valueError', 'Wa.every_spelling_forbidden', 'Wa.every_spelling_rejected',
    'Wa.lowerStr_applyCase', 'Wa.lowerCp_not_upper', 'Wa.encodeAscii_ok', 'Wa.encodeItem_ok', 'Wa.encodeAll_ok', 'Wa.lowerStr_lowerAscii',
    # the send / receive entry points over argument type x connection state (WsArgs.lean, namespace Wt): order of the state test and the isinstance test
    'Wt.state_error_wins', 'Wt.accepted_bad_argument', 'Wt.bad_argument_inert', 'Wt.bad_argument_outcome', 'Wt.good_send_accepted', 'Wt.good_send_flag',
    'Wt.send_returns_iff', 'Wt.sent_exact', 'Wt.recv_wrong_state', 'Wt.recvText_wrong_kind', 'Wt.recvData_wrong_kind', 'Wt.recv_frame', 'Wt.recv_disconnect',
    'Wt.send_after_disconnect', 'Wt.recv_sends_nothing', 'Wt.wsdCode_eq', 'Wt.op_refines_Ws', 'Wt.bad_argument_invisible_to_Ws', 'Wt.run_bad_arguments_invisible',
    'Wt.op_inbox', 'Wt.run_refines_Ws',
]
STATEMENTS = {
    'Ws.emitted_trace_legal': 'for every configuration (spec version, close-reason table, error_close_code, custom error handler script), responder script with per-op catch flags, every sequence of observed disconnect-flag values, inbox, and every position and kind of a failing server send: the events the server accepted form a word of connecting -accept-> open -send*-> open -close-> done (connecting -close-> done is the 403 denial), i.e. <= 1 accept, data only between accept and close, <= 1 close, nothing after close',
    'Ws.emitted_trace_legal_mw': 'the same for _handle_websocket with process_request_ws / process_resource_ws middleware scripts and every routing outcome (responder, unrouted = 404, resource without on_websocket = 405)',
    'Ws.closed_unless_escaped': 'with the default error handlers: if _handle_websocket returns normally to the server (no exception escapes), the socket state is CLOSED: a close/denial was accepted by the server, or the client\'s disconnect was received or observed through the pump\'s flag, or a failing send was translated into a disconnect',
    'Ws.closed_unless_escaped_mw': 'the same with middleware scripts and every routing outcome',
    'Ws.wrong_state_send': 'send_* before accept raises OperationNotAllowed, after close/loss raises WebSocketDisconnected(close code); the socket is unchanged and nothing is sent',
    'Ws.wrong_state_recv': 'receive_* before accept raises OperationNotAllowed, after close/loss raises WebSocketDisconnected(close code); nothing is consumed',
    'Ws.wrong_state_accept': 'accept() on a socket that is not in the handshake state, or whose disconnect flag is set, raises OperationNotAllowed and sends nothing',
    'Ws.send_after_disconnect': 'a send on an accepted socket whose pump has seen the disconnect raises WebSocketDisconnected with the client\'s code and hands nothing to the server',
    'Ws.close_after_closed_silent': 'close() on a closed socket or with the disconnect flag set sends nothing',
    'Ws.close_records_disconnect': 'close() on a not-yet-closed socket whose disconnect flag is set (code c) sends nothing, returns normally and leaves the socket CLOSED with code c, so later send_*/receive_* raise WebSocketDisconnected(c) (the 606f7a8 repair)',
    'Ws.close_code_validation_exact': 'close(code) raises the invalid-close-code ValueError exactly for code < 1000, 1004..1006 and 1015..1999, in every state (given that the server itself does not answer the close event with a ValueError saying so)',
    'Ws.close_sends': 'close() with no code (1000) or a valid code, on a socket not closed and not known lost, with a working send (no faulty call, the code not refused by the server\'s policy): exactly one close event with that code; the reason is attached iff (a reason was given or the code has a default reason) and the server supports reasons (spec >= 2.3); the state becomes CLOSED with that code',
    'Ws.http_error_close_code': 'HTTPError(s)/HTTPStatus(s) (0 <= s <= 999; an unrouted path is HTTPError 404 -> 3404, a missing responder HTTPError 405 -> 3405) reaching the default handlers on an open socket send exactly one close event with code 3000 + s',
    'Ws.unexpected_error_close_code': 'any other exception (no custom handler) closes with ws_options.error_close_code, or with 3011 when that code is not a valid close code',
    'Ws.raised_error_closes_open_socket': 'the class of an exception says nothing about the handled connection: a responder/middleware step that raises ANY exception other than HTTPError/HTTPStatus - in particular WebSocketDisconnected(code) raised by hand or by an operation on another connection\'s socket (relay), OperationNotAllowed, PayloadTypeError, ValueError, OSError - and lets it propagate, on a socket that is not closed and has no observed disconnect, default handlers, working send: exactly one close event with error_close_code (3011 if invalid) is sent (the 403 denial before accept) and nothing escapes',
    'Ws.close_refused': 'close(code) on a socket that is neither closed nor known lost, when the server\'s policy refuses that code: the event is handed to the server once, the server\'s own exception (whatever its class) reaches the caller untranslated, and the socket is NOT marked closed (only the pump is stopped), so a later close with another code is still sent',
    'Ws.refused_error_close_falls_back': 'a close is sent when the responder fails while the client is connected even if the SERVER refuses the configured code: for every exception other than HTTPError/HTTPStatus (default handlers), socket not closed, no observed disconnect, error_close_code a code falcon accepts but the server\'s policy refuses, the server\'s exception of ANY class (OSError, ValueError, plain Exception, TypeError, its own class - w.fault is arbitrary) saying \'invalid close code\', and 3011 not refused: the server is handed the refused close once, then the close 3011, which is delivered; nothing escapes; the socket is CLOSED with 3011',
    'Ws.refused_error_close_without_hint_escapes': 'the same situation with a server exception that does not name the close code: the refused close is the only event, no fallback is tried, and the server\'s own exception is what escapes to the server',
    'Ws.reason_only_if_supported': 'when the server\'s spec version has no close reasons (< 2.3), no close event of the session - issued by the responder, a middleware, an error handler or the framework itself - carries a reason; for every script, inbox, fault, routing outcome and flag sequence',
    'Ws.rejectFirst_reason': 'the close 1011 answering a first event that is not websocket.connect carries a reason iff the server supports it',
    'Wp.sent_payloads_in_order_unchanged': 'for every media-handler pair and every responder script of send_text / send_data / send_media calls (any per-call catch behaviour) on an accepted, connected socket with a working server send, each message listed with its wire form (text verbatim under the text key, bytes verbatim under the bytes key, a document serialized by the handler of its payload_type under that type\'s key): the send calls the script adds are exactly those websocket.send events, in order, each once, each successful; every call returns None, nothing escapes, the socket stays ACCEPTED',
    'Wp.received_payloads_in_order_unchanged': 'for every client script msgs ++ tail of well-formed messages (one payload; the other key absent or None) and every script of receive calls, the i-th matching the i-th message (receive_text/text, receive_data/binary, receive_media/a message its handler deserializes), any catch behaviour, any observed disconnect flags: the values returned are the payloads of msgs - verbatim for text/data, the handler\'s document for media - in order, each once; nothing is sent, exactly tail is left; if tail starts with the disconnect, the next receive (no earlier one) raises WebSocketDisconnected(code or 1000) and the socket is CLOSED with that code (events reach _receive in inbox order: max_receive_queue = 0)',
    'Wp.received_payloads_in_order_unchanged_buffered': 'the same for max_receive_queue > 0, composed with C18 (Wb.fifo_lossless_once): for every capacity > 0 and every pump/application schedule accepted by the C18 model (no stop()), if the server delivered the client script in order and n events were handed out by _BufferedReceiver.receive(), the n matching receive calls return the payloads of the first n client messages, in order, each once',
    'Wp.wrong_payload_type_errors_exact': 'the (message, receive op) table for an event {text: t, bytes: b}, each key absent / None / a value: receive_text returns t verbatim iff t has a value else PayloadTypeError (bytes-only message, text: None, empty event), whatever b holds; receive_data symmetrically; receive_media deserializes t with the TEXT handler whenever t has a value, else b with the BINARY handler, else PayloadTypeError, and the handler\'s own error (invalid JSON) is what the caller sees; in every case the message is consumed, nothing is sent, the state is kept',
    'Wp.media_roundtrip': 'send_media(d, ty) on an accepted connected socket hands exactly one event (the serialized document under ty\'s key) to the server; when that frame is delivered to a peer socket (other key absent or None), the peer\'s receive_media() returns d - given the handlers\' inverse law at d and a serialize that does not raise',
    'Wp.message_roundtrip': 'the same for all three: send_text(p) -> receive_text() = p, send_data(p) -> receive_data() = p, send_media(d) -> receive_media() = d',
    'Wp.harness_inverse': 'the handlers the correspondence runs with (stock JSONHandlerWS as modelled for C12, and the msgpack-like binary stub) satisfy the inverse law at every well-formed JSON document, so media_roundtrip is not vacuous',
    'Wp.project_to_Ws': 'refinement: forgetting the payloads maps the whole payload-carrying session (_handle_websocket with middleware scripts, error handlers, custom handler, every routing outcome) to the session of the kind-level model Ws on the projected inputs - same final state and flags, same sequence of send calls (kinds, codes, which raised), same per-op outcomes, same escaped exception; so the 57 Ws theorems are statements about the payload model (Wp.emitted_trace_legal, Wp.closed_unless_escaped, Wp.reason_only_if_supported are transferred explicitly). Hypotheses: well-formed client events, handlers of the stock shape, scripts serialize only serializable documents',
    'Wp.send_media_serialize_error': 'a serialize that raises: the handler\'s exception reaches the caller, nothing is handed to the server, the socket is unchanged, whatever the disconnect flag says (the event dict is built before _send runs)',
    'Ws.recvAbandoned_noop': 'a receive_* that parked and was cancelled (asyncio.wait_for timeout, task cancellation) leaves the socket object exactly as it was - state, close code, everything sent, the pump, the client events not yet consumed - whatever the state',
    'Ws.abandoned_receive_session_continues': 'for every script around it (any catch behaviour, any observed flags), on an accepted socket with a running pump: the rest of the script runs from the same socket against the same client events as if the abandoned receive had never been issued - the next receive_* gets the next client message, close(code) sends the responder\'s own code; the only difference is its ok entry in the log',
    'Ws.recvAbandoned_wrong_state': 'before accept / after close or loss / with a stopped pump the abandoned receive raises at once what the plain receive raises',
    'Wp.recvAbandoned_noop': 'the same for the payload-carrying model: nothing is consumed, so the payloads still arrive in order',
    'Wa.accept_event_legal': 'for every socket, observed flag, subprotocol argument (None / str / not a str) and headers argument (None, list / tuple / dict / generator of items that are pairs of str / bytes / other objects, or no pairs at all): IF accept() hands an accept event to the server, then it carries a subprotocol iff one was given; its headers key is absent iff the argument was falsy, and otherwise the server supports accept headers and the list is exactly the items in order, each name the lower-cased spelling in ASCII bytes without upper-case letters, each value unchanged ASCII bytes, and NO name is sec-websocket-protocol',
    'Wa.accept_forbidden_header_raises': 'on a socket in the handshake state with a connected client, a str (or no) subprotocol and a server supporting accept headers: a headers argument of well-formed items one of which is named sec-websocket-protocol in ANY letter case (lowerStr name = the forbidden name) raises ValueError; nothing is sent, the socket is unchanged',
    'Wa.every_spelling_forbidden': 'every one of the 2^20 letter-case spellings of sec-websocket-protocol lower-cases to the forbidden name (applyCase with an arbitrary mask)',
    'Wa.every_spelling_rejected': 'a well-formed header list containing any such spelling at any position is refused with ValueError',
    'Wa.accept_event_only_if_checked': 'an accept event reaches the server only from the handshake state, with a str/absent subprotocol, and - for a truthy headers argument - only if the server supports headers and the processing of the argument raised nothing',
    'Wa.accept_is_op': 'accept() with concrete arguments is by definition the operation Wa.toOp of the session model, so every Ws / Wp session theorem covers responders calling accept with arbitrary arguments',
    'Wa.process_ok': 'whenever the processing of a headers argument returns a list: one entry per item, in order, names lower-cased ASCII without upper-case letters, values unchanged, none named sec-websocket-protocol',
    'Wa.forbidden_rejected': 'if any item is named sec-websocket-protocol in some letter case (incl. the KELVIN SIGN spelling str.lower() maps to it) the processing raises',
    'Wt.state_error_wins': 'send_text / send_data / send_media in a state other than ACCEPTED (before accept(), after a close or an observed disconnect): _require_accepted() runs first, so the STATE error (OperationNotAllowed / WebSocketDisconnected(close code)) is raised for every argument type, well typed or not, under every value of the disconnect flag; nothing is sent, nothing changes',
    'Wt.accepted_bad_argument': 'in the ACCEPTED state an argument of a refused type (send_text: not a str; send_data: not bytes / bytearray / memoryview; send_media: the serializer raises) gives TypeError (the serializer\'s error) even when the pump has already seen the disconnect - the flag is consulted in _send only - and the object is unchanged (still ACCEPTED)',
    'Wt.bad_argument_inert': 'a send with a wrongly typed argument never hands an event to the server and leaves state, close code, events sent and pending client events exactly as they were, in every state and under every flag value',
    'Wt.good_send_accepted': 'a well typed send on an accepted connection with the flag clear appends exactly one websocket.send event with exactly one payload key - text for send_text / send_media(TEXT), bytes for send_data / send_media(anything that is not the TEXT member) - and changes nothing else',
    'Wt.send_returns_iff': 'a send entry point returns normally iff the state is ACCEPTED, the disconnect flag is clear and the argument is of an accepted type; the key of the event is then the entry point\'s',
    'Wt.recv_frame': 'on an accepted connection whose next client event is a frame: receive_text returns iff the text key holds a value (missing or None: PayloadTypeError), receive_data likewise for bytes, receive_media prefers text; the frame is consumed in every case (also when the error is raised) and the state stays ACCEPTED',
    'Wt.recv_wrong_state': 'a receive in a state other than ACCEPTED raises the state error and takes nothing from the server',
    'Wt.send_after_disconnect': 'after a receive was handed the disconnect event every send, of any argument type, raises WebSocketDisconnected with the event\'s code (1000 if absent) and nothing is sent',
    'Wt.op_refines_Ws': 'every call with an argument of an accepted type, on well-formed client events, is exactly the step of the session model Ws (sendMsg / recv; server send working, pump running): same state, close code, appended event, error - so the Ws session theorems speak about these entry points',
    'Wt.bad_argument_invisible_to_Ws': 'a call refused for its argument type leaves the Ws object unchanged: the session continues exactly as Ws says it would have without the call',
    'Wt.run_refines_Ws': 'a whole script of calls with arguments of accepted types, each caught, against well-formed client events is the Ws script (runScript, catch all) of the corresponding operations: same final object, same log of errors',
    'Wt.run_bad_arguments_invisible': 'inserting a wrongly typed send anywhere into any script changes neither the final object nor any other call\'s outcome; it only adds one error to the log',
    'Ws.send_spec': '_send either hands exactly the event to the server and keeps the state (which was not CLOSED), or hands nothing that the server accepts, raises, and keeps the state or moves it to CLOSED',
}
TRUSTED = [
    'asyncio.wait_for / Task.cancel deliver CancelledError at the await the operation is parked on; the event loop clock is replaced by a virtual clock for the whole check (loop.time), so timeouts fire exactly when the harness advances it',
    'the scripted ASGI server of the harness (receive/send callables written from the ASGI WebSocket spec, not falcon.testing) and its fault injection: a faulty call index and a close-code policy, '
    'raising one exception kind per session (class: OSError / ValueError / Exception / TypeError / RuntimeError / the server\'s own class; message naming the close code as invalid or not)',
    '"the session did not terminate" is decided by 4000 turns of the event loop without the application task finishing (no wall clock)',
    'C18 (the buffered receiver hands events out FIFO): the model reads the client script in order in both queue modes',
]
ASSUMPTIONS = [
    'a server that refuses a close event saying \'invalid close code\' (Autobahn under Daphne: only 1000 and 3000-4999) is answered with the fallback code 3011 by the framework\'s error close, whatever the class of the server\'s exception; '
    'a refusal that does not name the code, or a refused fallback, is reported to the server (the exception escapes) - the statement\'s "a close is always sent" is read as: every documented attempt is made',
    'a media document arrives unchanged when the peer reads the same members with the same values in the same ORDER (list(d.items()), not dict ==); a dict key that is not a str is written as JSON writes it (int -> its decimal string)',
    'the server\'s receive() never raises when max_receive_queue > 0 (the statement quantifies over failing send only); with queue 0 a receive() that raises when starved is part of the generated space',
    'responder / middleware / error-handler scripts are straight-line op lists with per-op catch-and-continue of the documented errors (OperationNotAllowed, WebSocketDisconnected, PayloadTypeError, ValueError); ops: accept (headers, subprotocol, non-str subprotocol), close (9 code kinds incl. non-int, with/without reason), send text/data/media, receive text/data/media, raise HTTPError/HTTPStatus/RuntimeError/app exception, '
    'raise an exception of one of the framework\'s own classes (WebSocketDisconnected with/without code or a subclass of it, OperationNotAllowed, PayloadTypeError, ValueError incl. the invalid-close-code message, OSError, '
    'AssertionError) by hand or by a failing operation on a SECOND connection\'s WebSocket (relay) while the handled connection is in whatever state the script left it',
    'a custom error handler that returns without closing leaves the socket to the ASGI server (application responsibility); the close-always rule is checked for the default handlers and for custom handlers that close or re-raise HTTPError/HTTPStatus',
    'a custom error handler "declares ws" when its signature has a parameter NAMED ws of a kind that can be passed by keyword (positional-or-keyword or keyword-only, with or without default, whatever surrounds it); such a handler must be handed '
    'the connection\'s WebSocket object (docs of add_error_handler: "the ws keyword argument will receive the WebSocket object"). A handler that only has **kwargs, or no ws at all, declares nothing: what it is handed is recorded, not judged, and its scripts only raise. '
    'A positional-ONLY ws (`ws=None, /`) cannot be passed by keyword and is outside the documented form; sync handlers are rejected at registration (CompatibilityError) unless FALCON_ASGI_WRAP_NON_COROUTINES is set',
    'ARGUMENT TYPES of the send entry points: send_text(payload not an instance of str) / send_data(payload not bytes, bytearray or memoryview) / send_media(an object the handler cannot serialize) '
    'crossed with the session state: the STATE error has precedence (OperationNotAllowed before accept; WebSocketDisconnected(code) once the socket was closed by the application, by a receive that '
    'saw the disconnect, by a close() that recorded it, or by a translated send failure); on an accepted socket the call raises TypeError (send_media: the handler\'s error), hands nothing to the server and '
    'leaves the socket usable; a str subclass is a str (sent as that text), bytearray / memoryview are sent as their bytes. While only the pump has seen the disconnect (the application has not observed it) the statement does not '
    'order the two errors: TypeError (what the code does: _send looks at the flag after the type check) and WebSocketDisconnected are both accepted there',
    'accept() arguments: subprotocol None / str / another object; headers None, a list / tuple / list of lists / dict / generator of items; an item that is not a pair of ASCII str (bytes, None, int, non-ASCII, wrong length) '
    'is outside the documented types: the oracle demands an exception (any class) and nothing sent; the model pins the class CPython raises (ValueError for unpacking / UnicodeEncodeError, else "other"). '
    'A name that only str.lower() turns into sec-websocket-protocol (KELVIN SIGN) is non-ASCII, hence in that class',
    'an abandoned operation: a receive_* (or, at most once per session, a send_text / send_data whose server call is in flight) run under asyncio.wait_for(op, 5.0) or as a task of its own; it counts as waiting when it has not '
    'completed after 30 turns of the event loop (an available event reaches a receive in < 10); then the timeout fires (virtual loop clock, advanced by the harness) resp. the task is cancelled, and the responder goes on. '
    'An idle client (inbox marker w) resumes once a plain receive_* has been waiting for 30 turns. The responder never has two receives in progress at once',
    'payload model: a str payload is a list of Unicode scalar values (no lone surrogates), bytes(payload) of bytes/bytearray/memoryview is the payload; the media handlers are arbitrary functions that may raise (theorems), '
    'instantiated in the driver with the C12 JSON model (no floats) for JSONHandlerWS and a stub "00 4A + UTF-8 JSON" binary handler / MissingDependencyHandler (msgpack is not installed)',
]
RULE = ('random sessions: responder scripts of 0..8 ops x client scripts of 0..6 messages (valid JSON text, non-JSON text, binary) + optional disconnect '
        '(with/without code) x failing send index 0..4 of 5 kinds (OSError, OSError from "received 1001", "code = 1000 (OK)", subprotocol rejection, RuntimeError) '
        'x ASGI spec 2.0-2.4 x max_receive_queue 0/4 x process_request_ws / process_resource_ws middleware scripts x custom error handler scripts '
        'x foreign errors (op E: an exception of a framework class - WebSocketDisconnected(1001/None/0/1000/4000) or a subclass, OperationNotAllowed, PayloadTypeError, ValueError x2, OSError, AssertionError - '
        'raised by hand or produced by a real operation on a second WebSocket whose own client has left / is unaccepted / sent the wrong payload type; in responder, middleware and custom error-handler scripts, '
        '40 % of them uncaught: exception class and state of the handled connection are independent dimensions) '
        'x route (responder / unrouted / no on_websocket) x first event not connect x error_close_code valid/reserved/<1000 x random yields in the server callables; '
        'THE SERVER\'S BEHAVIOUR is an input: its send raises at a call index and / or (30 % of the sessions) for every close event whose code its POLICY refuses (10 policies: 1011 only, the Autobahn set 1001-2999, 1011 + 3011, 3011, 1000, 3403-3405 + 4000, ...), '
        'with one of 17 exception kinds = class (OSError, OSError with a cause, ValueError, plain Exception, TypeError, RuntimeError, the server\'s own class) x message (says \'invalid close code <n> ...\' in some letter case / the two messages _translate_webserver_error looks for / neither); '
        'plus directed: 13 kinds x error_close_code 1011 / 4000 / 999 x 4 policies x 9 endings (unexpected exception before / after accept, in middleware, foreign WebSocketDisconnected, HTTP error, unrouted, plain return, a responder\'s own close that is refused) x queue 0 / 4; '
        'media DOCUMENTS: objects with members not in sorted order and (30 % of the objects) keys of mixed types (int and str); the oracle reads the wire text with object_pairs_hook, i.e. compares member ORDER, not dict equality; '
        'every send carries a random payload (text over an alphabet with quotes, backslash, control characters, NUL, U+2028, BOM, non-BMP; bytes incl. 00/FF/invalid UTF-8; '
        'nested JSON documents without floats, via the JSON TEXT handler or the stub BINARY handler), every client message a random payload (valid JSON with whitespace padding, '
        'non-JSON text, binary) with the other key absent or None; plus payload sessions (accept, then <= 10 send/receive ops, <= 8 client messages) that also contain what only the '
        'payload model covers: client events with no payload (no key / None keys) or two payloads, bytes the stub rejects (bad magic, bad UTF-8, bad JSON), documents the serializer '
        'rejects, send_media(BINARY) without msgpack; '
        'plus every script of length <= 2 (quick) / <= 3 (thorough) over 14 ops (incl. an uncaught foreign WebSocketDisconnected) x 3 client scripts x fault index x queue 0/4; '
        'ARGUMENTS of accept(): op Ag in responder / middleware / handler scripts and 6000 (60000) calls on directly constructed sockets (handshake / accepted / closed, spec 2.0-2.4, failing server send): subprotocol None / str incl. empty / '
        'int / bytes, positional or keyword; headers None / empty list, tuple, dict / empty generator / 1-4 items as list, tuple, list of lists, dict, generator; names: sec-websocket-protocol (22 %) and 15 names one character away from it (20 %) in '
        'lower, UPPER, Canonical-Dash, exactly-one-upper-case-letter and random per-letter case, the KELVIN SIGN spelling, non-ASCII, bytes, None / int, plain names; values str incl. empty, bytes, non-ASCII, None / int; items of length 0, 1, 3, non-iterable; '
        'plus directed: the forbidden name in all-lower, all-upper, canonical and each of its 20 single-upper-case-letter spellings, and the near-miss names, x 5 containers x with/without subprotocol x first/second item x spec 2.0-2.4. '
        'ARGUMENT TYPES x STATE: ops Wt / Wb = send_text(bytes / bytearray / memoryview / int / None / list) / send_data(str / a str subclass / list of ints / None / int), 10 % of the send_text steps hand over a str SUBCLASS, '
        'Sx = send_media(a set); inserted at random positions (1-3 per session, 12 % of the random sessions: responder, middleware and custom-handler scripts, i.e. before accept, accepted, closed, client gone, with faults) and '
        'in the payload sessions; plus directed: every one of 18 (entry point, argument type) pairs - 11 wrong types, str subclass, str, bytes, bytearray, memoryview, unserialisable media TEXT / BINARY - x 5 states '
        '(handshake, accepted, closed by the app, client gone and observed by a receive, disconnect seen by the pump only) x catch documented errors / catch all x queue 0 / 4, each followed by a well-formed send_text. '
        'ABANDONED operations: ops Kt / Kd / Km (receive_text / receive_data / receive_media under asyncio.wait_for with a timeout that fires, or cancelled as a task, while really waiting) and Ks / Kb (send cancelled while the server call is in flight) '
        'followed by further receives, sends, closes, against clients that are idle at marked points (inbox marker w), max_receive_queue 0 / 1 / 4: 3000 (24000) random sessions, every continuation of <= 2 ops over 7 ops after each of 4 abandoned receives x 3 queue sizes x 3 client scripts, '
        'and K ops / idle points sprinkled into the random sessions (with middleware, faults, custom handlers). '
        'ENTRY POINT x ARGUMENT TYPE x STATE (Wt): 27 calls (send_text / send_data x str, str subclass, bytes, bytes subclass, bytearray, memoryview, None, int, list/dict; send_media x payload_type TEXT / BINARY / another object x serializable or not; receive_text / _data / _media) x 14 situations (before accept, accepted, closed by the application with 3 codes, client gone observed by each receive, disconnect seen by the pump only, server receive raising; queue 0 / 8; client frames with each payload key missing / None / a value) each followed by a well-typed send_text, send_data and a receive, plus 1500 (15000) random scripts of 1..6 calls x 0..4 client events x 8 setups, all through falcon.asgi.App; '
        'SIGNATURE SHAPE of the custom error handler (falcon introspects it and passes the socket by keyword): 12 shapes of the parameter list after (req, resp, ex, params) - ws=None (the docs), ws (required), ws=None followed / preceded by another parameter, '
        '*, ws=None / *, ws / *, extra=None, ws=None (keyword-only), *args, ws=None, ws=None next to **kwargs (keyword-only and positional-or-keyword), **kwargs only, no ws at all - x 4 ways of registering it '
        '(coroutine function, bound method of an application object, object with an async __call__, functools.partial - binding another parameter by keyword, which makes ws keyword-only); the body is the documented idiom '
        '`if ws is not None: <steps on ws>`, and the Ws / Wp models are fed the steps the handler performs WHEN HANDED THE SOCKET, so a handler that is silently called without it is a model mismatch and an oracle failure; '
        '75 % of the random sessions with a ws-declaring custom handler draw a shape other than the documented one; plus directed: every shape x every carrier x exception raised before accept / after accept / after accept, a receive and a send / in process_request_ws '
        'x handler closes 4002 / sends then closes / closes 3001 / raises HTTPError x queue 0 / 4 x spec 2.0 / 2.1 / 2.3 / 2.4 (sync handlers are refused by falcon.asgi.App.add_error_handler and are not part of the space); '
        'non-trivial = at least one event was handed to the server\'s send; distinct = distinct driver line (configuration + scripts + observed flags)')
PARTIAL = ('the isinstance checks of send_text / send_data and the order of the state test and the argument test are now the model Wt (WsArgs.lean; state_error_wins, accepted_bad_argument, bad_argument_inert, good_send_accepted, send_returns_iff, recv_frame) with its own correspondence over entry point x argument type x state and the refinement op_refines_Ws / run_refines_Ws to the session model; what Wt leaves out: the server\'s send always returns in Wt (its failures are Ws / Wp), the error of a media serializer is one class (serErr; the harness\' handlers raise TypeError), deserialization in receive_media is not in Wt (Wp has it), a receive event of a type other than websocket.receive / websocket.disconnect (the assert in _receive) is not modelled, and the refinement to Ws is stated for frames with exactly one payload (Ws has no kind for none or two - Wt.recv_frame covers them directly). In the big Ws / Wp session correspondences a wrongly typed send is still represented as sendMedia with a rejected argument (token Smt!). '
           'whether an abandonable receive had to wait (was parked and cancelled) is, like the disconnect flag, an observation of the run fed to the model (the waiter bookkeeping of a cancelled receive is C18\'s Wb / Wu models); the independent oracle decides '
           'from the client script alone whether it must have waited. A send cancelled in flight is not a constructor of the model: the correspondence represents it as a server send raising an untranslated exception which the script catches '
           '(fail=<that call> fault=other) - both leave the socket untouched because _send handles only Exception; at most one per session. Wa pins CPython\'s exception classes for undocumented argument types via a table in the model (str.lower of non-ASCII code points: '
           'U+212A is the only one that becomes ASCII - checked over all code points on every run). '
           'the disconnect flag is an input of the model (observed on the real object and fed to the driver), its timing is C18\'s subject; '
           'received_payloads_in_order_unchanged_buffered composes with C18\'s trace-inclusion model for sessions without stop() (a close() stops the pump: the events it held are dropped by design); '
           'project_to_Ws is stated for well-formed client events and stock-shaped handlers (the kind-level model has no kind for an event with no or two payloads; the payload model covers them directly)')
JOBS = {'quick': 4, 'thorough': 16}

CODES = ['n', 'n', '1000', '3001', '4999', '1011', '999', '1005', '1500', 'x', '3000+', 'n+',
         '1003', '1004', '1006', '1007', '1014', '1015', '1999', '2000', '0', '-1', '1001']   # incl. every boundary of the validation table
# op E<class>: the script fails with an exception of one of the framework's OWN classes that does not stem from the handled connection
# (raised by hand, or by an operation on another connection's WebSocket): the exception class and the state of the handled socket are independent
FOREIGN = ['Ewsd1001', 'Ewsd1001', 'Ewsdn', 'Ewsd4000', 'Ewsd0', 'Ewsd1000', 'Eona', 'Epte', 'Evei', 'Eveo', 'Eose', 'Eae']
OPS = (['A000'] * 4 + ['A100', 'A010', 'A110', 'A001'] + ['Ag'] * 6 + ['C' + c for c in CODES] +
       ['St', 'St', 'St', 'Sb', 'Sb', 'Rt', 'Rt', 'Rd', 'Rm', 'Rm', 'H403', 'H404', 'T204', 'X', 'B', 'B'] + FOREIGN[:8] + ['Kt', 'Kd', 'Km'])
# op Ag: accept() with generated ARGUMENTS (step['acc']); ops Kt / Kd / Km: a receive_* the responder ABANDONS if it has to wait (asyncio.wait_for
# whose timeout fires / task cancellation), Ks / Kb: a send_text / send_data cancelled while the server's send is in flight; inbox token `w`: the client
# is idle (sends nothing) until the responder really waits in a plain receive_*
T_PARK = 30        # loop turns after which an operation that has not completed is parked (an available event arrives within < 10 turns)
G_WAIT = 30        # loop turns a plain receive must have been waiting before the idle client resumes
FORBIDDEN = 'sec-websocket-protocol'
NEAR_MISS = ['sec-websocket-protoco', 'sec-websocket-protocols', 'sec-websocket-protocol2', 'ec-websocket-protocol', 'xsec-websocket-protocol', 'sec_websocket-protocol',
             'sec-websocket_protocol', 'secwebsocket-protocol', 'sec-websocket-protokol', 'sec-websocket-protocal', 'sec-websocket-accept', 'sec-websocket-extensions',
             'sec-websocket-version', 'sec-websocket-protocol-x', 'sec-websocket--protocol']
PLAIN_HDR = ['x-case', 'x-other', 'set-cookie', 'server', 'x-a', 'content-type']


def spell(rnd, name):
    """a header name in one of the letter cases an application would write: lower, UPPER, Canonical-Dash-Case, or per-letter random"""
    k = rnd.randrange(6)
    if k == 0: return name
    if k == 1: return name.upper()
    if k == 2: return {'sec-websocket-protocol': 'Sec-WebSocket-Protocol'}.get(name, '-'.join(w.capitalize() for w in name.split('-')))
    if k == 3:      # exactly one upper-case letter
        idx = [i for i, c in enumerate(name) if c.isalpha()]
        i = rnd.choice(idx) if idx else 0
        return name[:i] + name[i:i + 1].upper() + name[i + 1:]
    return ''.join(c.upper() if rnd.random() < 0.5 else c for c in name)


def gen_accept_args(rnd):
    """the arguments of accept(): subprotocol None / str / not a str; headers None / empty / a list, tuple, list of lists, dict or generator of
    (name, value) items with names in every letter case, incl. the forbidden sec-websocket-protocol, names one character away from it, a name that
    only str.lower() turns into it (KELVIN SIGN), non-ASCII names / values, bytes names / values, items that are no pairs"""
    sub = rnd.choice([None] * 5 + ['chat', 'chat', 'other', '', 7, b'chat'])
    r = rnd.random()
    if r < 0.2: return {'sub': sub, 'container': None, 'items': []}
    if r < 0.25: return {'sub': sub, 'container': rnd.choice(['list', 'tuple', 'dict']), 'items': []}
    if r < 0.3: return {'sub': sub, 'container': 'gen', 'items': []}
    items = []
    for _ in range(rnd.choice([1, 1, 2, 2, 3, 4])):
        x = rnd.random()
        if x < 0.22: name = spell(rnd, FORBIDDEN)
        elif x < 0.42: name = spell(rnd, rnd.choice(NEAR_MISS))
        elif x < 0.45: name = rnd.choice(['Sec-WebSoc\u212aet-Protocol', 'sec-websoc\u212aet-protocol'])      # KELVIN SIGN lower-cases to k
        elif x < 0.48: name = rnd.choice(['x-\xe9', 'sec-websocket-protoc\xf6l', 'X-\u0130', '\u017fec-websocket-protocol'])
        elif x < 0.51: name = spell(rnd, rnd.choice([FORBIDDEN, 'x-bytes'])).encode()
        elif x < 0.52: name = rnd.choice([5, None])
        else: name = spell(rnd, rnd.choice(PLAIN_HDR))
        y = rnd.random()
        value = rnd.choice(['v', 'chat', '', 'a b', 'W']) if y < 0.9 else (b'v' if y < 0.94 else ('caf\xe9' if y < 0.97 else rnd.choice([5, None])))
        z = rnd.random()
        items.append((name, value) if z < 0.95 else rnd.choice([(name,), (name, value, 'x'), 5, ()]))
    container = rnd.choice(['list', 'list', 'tuple', 'lists', 'dict', 'dict', 'gen', 'gen'])
    if container == 'dict':     # a dict cannot hold malformed items or unhashable / duplicate names
        d = {}
        for it in items:
            if isinstance(it, tuple) and len(it) == 2:
                d[it[0]] = it[1]
        items = list(d.items())
    return {'sub': sub, 'container': container, 'items': items}


def build_headers(acc):
    """the Python object handed to accept(headers=...)"""
    c, items = acc['container'], acc['items']
    if c is None: return None
    if c == 'list': return list(items)
    if c == 'tuple': return tuple(items)
    if c == 'lists': return [list(it) if isinstance(it, tuple) else it for it in items]
    if c == 'dict': return dict(items)
    return (it for it in items)


def headers_truthy(acc):
    return acc['container'] == 'gen' or (acc['container'] is not None and bool(acc['items']))


def acc_tok(acc):
    """the accept-argument token of the drivers (lean/FalconModel/FalconModel/WsAcceptIO.lean)"""
    def val(v):
        if isinstance(v, str): return 's' + '.'.join('%x' % ord(c) for c in v)
        if isinstance(v, (bytes, bytearray)): return 'b' + '.'.join('%x' % b for b in v)
        return 'o'

    def item(it):
        if isinstance(it, (tuple, list)):
            return 'p' + val(it[0]) + '/' + val(it[1]) if len(it) == 2 else 'w'
        return 'i'
    sub = 'n' if acc['sub'] is None else ('s' if isinstance(acc['sub'], str) else 'x')
    h = 'N' if acc['container'] is None else ('G' if acc['container'] == 'gen' else 'L') + '_'.join(item(it) for it in acc['items'])
    return 'Ag%s~%s' % (sub, h)


def accept_expectation(acc, ver):
    """What the documentation of accept() and the ASGI spec say about a call with these arguments on a socket in the handshake state whose client is
    connected: ('VEO', None) the documented ValueError (subprotocol not a str; a header named sec-websocket-protocol in whatever letter case);
    ('ONA', None) headers given to a server whose spec version has none; ('RAISES', None) arguments outside the documented types (items that are no
    pairs, names / values that are not ASCII str): any exception, nothing sent; ('ok', event) exactly this accept event."""
    sub = acc['sub']
    if sub is not None and not isinstance(sub, str): return 'VEO', None
    ev = {'type': 'websocket.accept'}
    if sub is not None: ev['subprotocol'] = sub
    if not headers_truthy(acc): return 'ok', ev
    if ver < (2, 1): return 'ONA', None
    for it in acc['items']:
        if not (isinstance(it, (tuple, list)) and len(it) == 2 and all(isinstance(x, str) and x.isascii() for x in it)):
            return 'RAISES', None
    if any(n.lower() == FORBIDDEN for n, _ in acc['items']): return 'VEO', None
    ev['headers'] = [(n.lower().encode('ascii'), v.encode('ascii')) for n, v in acc['items']]
    return 'ok', ev


def accept_event_illegal(m, ver):
    """ASGI spec, websocket.accept: subprotocol a str or None; headers (spec >= 2.1) an iterable of [name, value] two-item iterables of byte strings,
    names lower-cased, and it must not include a header named sec-websocket-protocol"""
    if 'subprotocol' in m and m['subprotocol'] is not None and not isinstance(m['subprotocol'], str): return f"subprotocol {m['subprotocol']!r} is not a str"
    if 'headers' not in m: return None
    if m['headers'] and ver < (2, 1): return 'accept headers sent to a spec-2.0 server'
    for h in m['headers']:
        if not (isinstance(h, (tuple, list)) and len(h) == 2 and isinstance(h[0], bytes) and isinstance(h[1], bytes)): return f'header entry {h!r} is not a pair of byte strings'
        if h[0] != h[0].lower(): return f'header name {h[0]!r} is not lower-case'
        if h[0] == FORBIDDEN.encode(): return f"the accept event carries the header {h[0]!r}: {h[1]!r} (forbidden; 'subprotocol' is the only way to select one)"
    return None
ABANDON_OPS = ['Kt', 'Kt', 'Kt', 'Kd', 'Km', 'Rt', 'Rt', 'Rd', 'Rm', 'St', 'Sb', 'Cn', 'C3001', 'C1001', 'Ks', 'Kb']
SMALL_OPS = ['A000', 'A100', 'Cn', 'C3001', 'C999', 'St', 'Sb', 'Rt', 'Rd', 'Rm', 'H403', 'X', 'B', 'Ewsd1001']
# ops Wt / Wb: send_text / send_data called with a payload of the WRONG TYPE (step['bad']) - the ARGUMENT TYPES of the send entry points are a
# dimension of their own, crossed with the state of the session (handshake / accepted / closed by the app / client gone)
BAD_TEXT = ['bytes', 'bytes', 'bytearray', 'memoryview', 'int', 'none', 'none', 'list']          # what send_text() must refuse
BAD_DATA = ['str', 'str', 'strsub', 'list', 'none', 'none', 'int']                                # what send_data() must refuse
ARG_STATES = ['handshake', 'accepted', 'closed_by_app', 'client_gone', 'pump_saw_disconnect']


class StrSub(str):
    """an application's own str subclass: an instance of str, so send_text() takes it (and send_data() refuses it)"""


def bad_payload(kind, pay):
    """the wrongly typed object handed to send_text / send_data"""
    if kind == 'bytes': return bytes(pay['data'])
    if kind == 'bytearray': return bytearray(pay['data'])
    if kind == 'memoryview': return memoryview(bytes(pay['data']))
    if kind == 'int': return 7
    if kind == 'none': return None
    if kind == 'list': return list(pay['data'])          # bytes(list of ints) would "work" if nobody checked
    if kind == 'str': return pay['text']
    if kind == 'strsub': return StrSub(pay['text'])
    raise AssertionError(kind)


def arg_step(rnd, st):
    """the argument-type variant of a send step: which wrong type (Wt / Wb), or a str SUBCLASS handed to send_text (valid)"""
    if st['tok'] == 'Wt': st['bad'] = rnd.choice(BAD_TEXT)
    elif st['tok'] == 'Wb': st['bad'] = rnd.choice(BAD_DATA)
    elif st['tok'] == 'St' and rnd.random() < 0.1: st['sub'] = True
    return st


def foreign_want(tok):
    """the exception a step E<class> raises, as the harness names it (WebSocketDisconnected(code).code is `code or 1000`)"""
    c = tok[1:]
    if c.startswith('wsd'):
        return 'WSD:%d' % (1000 if c[3:] in ('n', '0') else int(c[3:]))
    return {'ona': 'ONA', 'pte': 'PTE', 'vei': 'VEI', 'veo': 'VEO', 'ose': 'OSE', 'ae': 'AE'}[c]
FAULTS = ['os', 'os', 'os', 'os1001', 'ok1000', 'sub', 'other', 'other',
          # the class of the server's exception and what its message says are independent: ValueError / OSError / plain Exception / TypeError / the server's
          # own class, each with a message that does or does not say 'invalid close code' (Autobahn: Exception('invalid close code 1011 (must be ...)'))
          'val', 'valicc', 'osicc', 'excicc', 'excicc', 'type', 'typeicc', 'custom', 'customicc']
# the SERVER's policy on close codes: a close event with one of these codes is refused (send raises the session's fault), whoever sends it
REFUSE_SETS = [[1011], [1011], [1001, 1003, 1007, 1011, 1014, 2000],        # Autobahn / Daphne: only 1000 and 3000-4999 (restricted to the codes that occur here)
               [1011, 3011], [3011], [1000], [1000, 1011], [4000, 3403, 3404, 3405], [1001, 3001, 4999], [1003, 1007, 1014, 2000, 4000]]


def fault_class(kind):
    """the fault as the model sees it: the exception class (os / val / other, and the two message-triggered translations)"""
    if kind in ('os', 'os1001', 'ok1000', 'sub'): return kind
    if kind == 'osicc': return 'os'
    if kind.startswith('val'): return 'val'
    return 'other'


def fault_icc(kind):
    return kind.endswith('icc')
DISC = ['d1001', 'dn', 'd1000', 'd4000']


# ---------------------------------------------------------------- payloads
TEXT_ALPHABET = ['a', 'Z', '7', ' ', '"', '\\', '/', '\n', '\t', '\r', '\x00', '\x1f', '\x7f', '\x80', '\xe9', '\xdf', '\u20ac', '\u2028', '\ufeff', '\ufffd',
                 '\U0001f600', '\U0010ffff', '{', '}', '[', ']', ':', ',', "'"]


def gen_text(rnd, maxlen=10):
    return ''.join(rnd.choice(TEXT_ALPHABET) for _ in range(rnd.choice([0, 1, 1, 2, 3, 5, maxlen])))


def gen_bytes(rnd):
    return bytes(rnd.choice([0, 0, 0xff, 0x80, 0x4a, 0x7b, 0xc3, 0xa9, 0xed, 0xa0, rnd.randrange(256)]) for _ in range(rnd.choice([0, 1, 2, 3, 5, 9])))


def gen_doc(rnd, depth=0):
    """a JSON document of the C12 type (no floats): None | bool | int | str | list | dict with distinct str keys"""
    k = rnd.randrange(10 if depth < 2 else 6)
    if k == 0: return None
    if k == 1: return rnd.random() < 0.5
    if k in (2, 3): return rnd.choice([0, -1, 7, 2 ** 31, -2 ** 63, 10 ** 20, rnd.randrange(-1000, 1000)])
    if k in (4, 5): return gen_text(rnd, 6)
    if k in (6, 7): return [gen_doc(rnd, depth + 1) for _ in range(rnd.randrange(4))]
    d = {}
    mixed = rnd.random() < 0.3        # positional rows plus named members: int and str keys in one object (JSON writes an int key as its decimal string)
    for _ in range(rnd.randrange(5 if mixed else 4)):
        k = rnd.choice(INT_KEYS) if (mixed and rnd.random() < 0.5) else gen_text(rnd, 3)
        if any(json_key(k) == json_key(k2) for k2 in d): continue          # the members of the document stay distinct on the wire
        d[k] = gen_doc(rnd, depth + 1)
    return d


INT_KEYS = [0, 1, 2, 10, -1, 2023, 2024]


def doc_shape(doc):
    """does the document contain an object whose members are not written in sorted order, or whose keys are of mixed types?"""
    if isinstance(doc, dict):
        ks = list(doc)
        if len({type(k) for k in ks}) > 1 or [json_key(k) for k in ks] != sorted(json_key(k) for k in ks): return True
        return any(doc_shape(v) for v in doc.values())
    if isinstance(doc, list): return any(doc_shape(v) for v in doc)
    return False


def json_key(k):
    """the member name JSON writes for a Python dict key (RFC 8259 objects have string names; json: 'keys are coerced to strings')"""
    if k is True: return 'true'
    if k is False: return 'false'
    if k is None: return 'null'
    return k if isinstance(k, str) else str(k)


def ordered(v):
    """an ORDER-PRESERVING, type-exact reading of a document: objects as the list of their (member name, value) pairs in the order they are
    written (== on dicts cannot see a reordering), arrays as lists, scalars with their type (True is not 1)"""
    if isinstance(v, dict): return ('obj', [(json_key(k), ordered(x)) for k, x in v.items()])
    if isinstance(v, (list, tuple)): return ('arr', [ordered(x) for x in v])
    return (type(v).__name__, v)


def read_ordered(text):
    """the document a peer reads from the wire text, members in wire order"""
    import json

    class Pairs(list):
        pass

    def conv(v):
        if isinstance(v, Pairs): return ('obj', [(k, conv(x)) for k, x in v])
        if isinstance(v, list): return ('arr', [conv(x) for x in v])
        return (type(v).__name__, v)
    return conv(json.loads(text, object_pairs_hook=Pairs))


def dumps(doc):
    import json
    return json.dumps(doc, ensure_ascii=False)


def stub_encode(doc):
    return b'\x00J' + dumps(doc).encode('utf-8')


def gen_invalid_json(rnd):
    """texts that are not JSON (for CPython's decoder and for the C12 model alike)"""
    k = rnd.randrange(8)
    if k == 0: return ''
    if k == 1: return 'x' + gen_text(rnd)
    if k == 2:
        d = gen_doc(rnd, 2)
        return dumps(d if isinstance(d, (list, dict, str)) else [d])[:-1]
    if k == 3: return '{"a": }'
    if k == 4: return '[1,]'
    if k == 5: return 'nul'
    if k == 6: return "{'a': 1}"
    return dumps(gen_doc(rnd, 1)) + ' ' + rnd.choice(['x', ']', '}', ',', '1'])


def pad_ws(rnd, s):
    ws = [' ', '\n', '\t', '\r']
    return ''.join(rnd.choice(ws) for _ in range(rnd.choice([0, 0, 0, 1, 2]))) + s + ''.join(rnd.choice(ws) for _ in range(rnd.choice([0, 0, 1])))


def default_event(tok, k):
    """the fixed payloads of the exhaustive small-script sessions"""
    import json
    if tok == 't1': return {'type': 'websocket.receive', 'text': json.dumps({'i': k})}
    if tok == 't0': return {'type': 'websocket.receive', 'text': f'msg{k}'}
    if tok == 'b': return {'type': 'websocket.receive', 'bytes': b'\x81\xa1i' + bytes([k])}
    if tok == 'dn': return {'type': 'websocket.disconnect'}
    if tok == 'w': return {'type': 'idle'}        # not an event: the client sends nothing until the responder really waits in a plain receive
    return {'type': 'websocket.disconnect', 'code': int(tok[1:])}


def gen_event(rnd, tok, binh):
    """a client event of the kind `tok` with a random payload; the key of the other payload type is absent or None"""
    if tok[0] == 'd' or tok == 'w':
        return default_event(tok, 0)
    ev = {'type': 'websocket.receive'}
    other = rnd.choice(['absent', 'absent', 'none'])
    if tok == 't1':
        ev['text'] = pad_ws(rnd, dumps(gen_doc(rnd)))
    elif tok == 't0':
        ev['text'] = gen_invalid_json(rnd)
    elif tok == 'b':
        # with the stub BINARY handler installed the kind-level model needs a payload the stub can deserialize
        ev['bytes'] = stub_encode(gen_doc(rnd)) if binh else rnd.choice([gen_bytes(rnd), stub_encode(gen_doc(rnd))])
    # ---- kinds only the payload model covers
    elif tok == 'bx':      # arbitrary bytes: the stub handler raises ValueError on a bad magic / bad UTF-8 / bad JSON
        ev['bytes'] = rnd.choice([gen_bytes(rnd), b'\x00J' + gen_bytes(rnd), b'\x00J' + gen_invalid_json(rnd).encode(), stub_encode(gen_doc(rnd))])
    elif tok == 'e':       # no payload at all: no key, a None key, two None keys
        for key in rnd.choice([(), ('text',), ('bytes',), ('text', 'bytes')]):
            ev[key] = None
        return ev
    elif tok == 'tb':      # both payloads
        ev['text'] = rnd.choice([pad_ws(rnd, dumps(gen_doc(rnd))), gen_invalid_json(rnd), gen_text(rnd)])
        ev['bytes'] = rnd.choice([gen_bytes(rnd), stub_encode(gen_doc(rnd))])
        return ev
    else:
        raise AssertionError(tok)
    if other == 'none':
        ev['bytes' if 'text' in ev else 'text'] = None
    return ev


def gen_pay(rnd):
    """the payloads a send step submits (which one is used depends on the op and its variant)"""
    return {'text': gen_text(rnd), 'data': gen_bytes(rnd), 'doc': gen_doc(rnd)}


def default_pay(j):
    return {'text': f'out{j}', 'data': bytes([j % 256, 0xff, 0]), 'doc': {'j': j}}


# SIGNATURE SHAPE of a custom error handler: falcon passes the WebSocket BY KEYWORD (`ws=...`) to a handler that is able to take a parameter named
# `ws` (docs of add_error_handler: "the `ws` keyword argument will receive the WebSocket object") - HOW the handler declares that parameter is a
# dimension of its own, independent of what the handler does with the socket.  shape -> (parameter list after `req, resp, ex, params`, expression
# that yields the socket inside the body, does the signature DECLARE a parameter named ws?)
HANDLER_SHAPES = {
    'pk_default': ('ws=None', 'ws', True),                                # the spelling of the docs
    'pk_required': ('ws', 'ws', True),                                    # a WebSocket-only handler
    'pk_default_then_extra': ('ws=None, extra=None', 'ws', True),
    'extra_then_pk_default': ('extra=None, ws=None', 'ws', True),         # functools.partial(h, extra=1) turns ws into a keyword-only parameter
    'kwonly_default': ('*, ws=None', 'ws', True),
    'kwonly_required': ('*, ws', 'ws', True),
    'kwonly_after_extra': ('*, extra=None, ws=None', 'ws', True),
    'varargs_kwonly_default': ('*args, ws=None', 'ws', True),
    'kwonly_default_varkw': ('*, ws=None, **kwargs', 'ws', True),
    'pk_default_varkw': ('ws=None, **kwargs', 'ws', True),
    'varkw_only': ('**kwargs', "kwargs.get('ws')", False),                # no parameter NAMED ws: the statement / docs do not say it gets the socket
    'absent': ('', 'None', False),
}
DECLARING_SHAPES = [k for k, v in HANDLER_SHAPES.items() if v[2]]
HANDLER_CARRIERS = ['function', 'function', 'bound_method', 'callable_object', 'partial']


def handler_source(shape, carrier):
    """the `async def` an application would write (shown in the failing case)"""
    extra = HANDLER_SHAPES[shape][0]
    params = 'req, resp, ex, params' + (', ' + extra if extra else '')
    if carrier in ('bound_method', 'callable_object'): params = 'self, ' + params
    name = {'function': 'handle', 'partial': 'handle', 'bound_method': 'handle', 'callable_object': '__call__'}[carrier]
    return 'async def %s(%s):\n    await body(%s)\n' % (name, params, HANDLER_SHAPES[shape][1])


def build_handler(shape, carrier, body):
    """the object handed to add_error_handler: a coroutine function / a bound method of an application object / an object with an async __call__ /
    a functools.partial of a coroutine function (binding `extra` by keyword where the signature has it, which makes every later parameter keyword-only)"""
    import functools
    ns = {'body': body}
    exec(handler_source(shape, carrier), ns)       # noqa: S102 - the source is the fixed template above
    if carrier == 'function': return ns['handle']
    if carrier == 'partial':
        return functools.partial(ns['handle'], extra=1) if 'extra' in HANDLER_SHAPES[shape][0] else functools.partial(ns['handle'])
    if carrier == 'bound_method': return type('Handlers', (), {'handle': ns['handle']})().handle
    return type('Handler', (), {'__call__': ns['__call__']})()


def gen_handler_shape(rnd, declares):
    if not declares: return rnd.choice(['absent', 'absent', 'varkw_only']), rnd.choice(HANDLER_CARRIERS)
    return (rnd.choice(DECLARING_SHAPES) if rnd.random() < 0.75 else 'pk_default'), rnd.choice(HANDLER_CARRIERS)


def gen_handler_directed():
    """every signature shape that declares `ws` x every carrier x where the application exception is raised (before accept / after accept / after accept and a
    message / in process_request_ws) x what the handler does with the socket (close 4002 / send + close / close after the client's message) x queue 0 / 4 x spec version"""
    endings = [([], [('X', 0)]), ([], [('A000', 1), ('X', 0)]), ([], [('A000', 1), ('Rt', 1), ('St', 1), ('X', 0)]), ([('X', 0)], [])]
    hkinds = [[('C4002', 0)], [('St', 1), ('Cn', 0)], [('C3001', 0)], [('H409', 0)]]
    j = 0
    for shape in list(HANDLER_SHAPES):
        for carrier in ('function', 'bound_method', 'callable_object', 'partial'):
            for mwreq, script in endings:
                for hs in hkinds:
                    declares = HANDLER_SHAPES[shape][2]
                    if not declares and hs[0][0][0] != 'H': continue       # a handler without the socket can only raise
                    j += 1
                    mk = lambda toks, who: [{'tok': t, 'catch': c, 'var': 0, 'pay': default_pay(i)} for i, (t, c) in enumerate(toks)]
                    inbox = ['t0', 'b', 'd1001'] if j % 2 else ['t1', 't1', 'dn']
                    yield {'ver': ('2.0', '2.1', '2.3', '2.4')[j % 4], 'q': (0, 4)[(j // 2) % 2], 'first': 1, 'route': 'r', 'mwreq': mk(mwreq, 'm'), 'mwres': [], 'mw_present': bool(mwreq),
                           'script': mk(script, 's'), 'custom': {'ws': declares, 'sig': shape, 'carrier': carrier, 'steps': mk(hs, 'h')},
                           'inbox': inbox, 'events': [default_event(t, k) for k, t in enumerate(inbox)], 'wp_only': False,
                           'starve': 'late', 'fail': None, 'fault': 'os', 'refuse': [], 'err': (1011, 4000)[j % 2], 'binh': False, 'yields': 777 + j}


WP_OPS = ['St', 'St', 'Sb', 'Sb', 'Sx', 'Sn', 'Rt', 'Rt', 'Rd', 'Rd', 'Rm', 'Rm', 'Rm', 'A000', 'Cn', 'C1001', 'B', 'Ewsd4000', 'Wt', 'Wb']


def gen_random(rnd):
    def steps(n, pool=OPS, catch_p=0.7):
        def lvl():
            x = rnd.random()
            return 1 if x < catch_p - 0.1 else (2 if x < catch_p + 0.03 else 0)
        out = [{'tok': rnd.choice(pool), 'catch': lvl(), 'var': rnd.randrange(4), 'pay': gen_pay(rnd)} for _ in range(n)]
        for st in out:
            if st['tok'] == 'Ag': st['acc'] = gen_accept_args(rnd)
            arg_step(rnd, st)
            if st['tok'][0] == 'E':
                if rnd.random() < 0.25: st['tok'] = rnd.choice(FOREIGN)
                if rnd.random() < 0.4: st['catch'] = 0        # nobody expects a "disconnected" error on a connected socket
        return out
    q = rnd.choice([0, 4])
    script = steps(rnd.randint(0, 8))
    if script and rnd.random() < 0.6:
        script[0] = {'tok': 'A000', 'catch': 1, 'var': 0, 'pay': gen_pay(rnd)}
        if rnd.random() < 0.5:
            script[0] = {'tok': 'Ag', 'catch': rnd.choice([1, 1, 2]), 'var': 0, 'pay': gen_pay(rnd), 'acc': gen_accept_args(rnd)}
            if rnd.random() < 0.7: script.insert(1, {'tok': 'A000', 'catch': 1, 'var': 0, 'pay': gen_pay(rnd)})      # the responder accepts properly after a refused call
    inbox = [rnd.choice(['t1', 't0', 'b', 't1', 'b']) for _ in range(rnd.choice([0, 1, 2, 3, 4, 6]))]
    if any(st['tok'][0] == 'K' for st in script):
        for _ in range(rnd.choice([1, 1, 2])):
            inbox.insert(rnd.randrange(len(inbox) + 1), 'w')
    starve = 'late'
    if q and rnd.random() < 0.4:
        inbox = inbox[:rnd.choice([0, 0, 1, 2])] + [rnd.choice(DISC)]     # an early disconnect: the pump sets the flag while the script runs
    elif rnd.random() < 0.5:
        inbox.append(rnd.choice(DISC))
    elif q == 0 and rnd.random() < 0.6:
        starve = 'raise'
    else:
        inbox.append('d1001')          # the client goes away eventually
    mw = rnd.random() < 0.35
    custom = None
    if rnd.random() < 0.35:
        kind = rnd.choice(['close', 'sendclose', 'swallow', 'http', 'status', 'raise', 'nows', 'nows_http', 'foreign'])
        hs = {'close': [('C4002', 0)], 'sendclose': [('St', 1), ('Cn', 0)], 'swallow': [], 'http': [('H409', 0)],
              'status': [('T204', 0)], 'raise': [('X', 0)], 'nows': [], 'nows_http': [('H410', 0)], 'foreign': [(rnd.choice(FOREIGN), 0)]}[kind]
        sig, carrier = gen_handler_shape(rnd, not kind.startswith('nows'))
        custom = {'ws': not kind.startswith('nows'), 'sig': sig, 'carrier': carrier, 'steps': [{'tok': t, 'catch': c, 'var': 0, 'pay': gen_pay(rnd)} for t, c in hs]}
    binh = rnd.random() < 0.5
    mwreq = steps(rnd.randint(0, 2), OPS, 0.8) if mw and rnd.random() < 0.6 else []
    mwres = steps(rnd.randint(0, 2), OPS, 0.8) if mw and rnd.random() < 0.6 else []
    argtypes = rnd.random() < 0.12
    if argtypes:
        # wrongly typed sends (and unserialisable media) at random positions of the responder / middleware / handler scripts: whatever state the
        # session is in by then (before accept, accepted, closed, client gone); the kind-level model has no such op, so only Wp sees these sessions
        for _ in range(rnd.choice([1, 1, 2, 3])):
            target = rnd.choice([script, script, script, mwreq if mwreq else script, mwres if mwres else script] + ([custom['steps']] if custom and custom['ws'] and custom['steps'] else []))
            target.insert(rnd.randrange(len(target) + 1), arg_step(rnd, {'tok': rnd.choice(['Wt', 'Wt', 'Wb', 'Wb', 'Sx']), 'catch': rnd.choice([1, 1, 2, 2, 0]),
                                                                        'var': rnd.randrange(4), 'pay': gen_pay(rnd)}))
    return {
        'ver': rnd.choice(['2.0', '2.1', '2.2', '2.3', '2.4']), 'q': q, 'first': 0 if rnd.random() < 0.03 else 1,
        'route': rnd.choice(['r'] * 8 + ['u', 'n']),
        'mwreq': mwreq,
        'mwres': mwres,
        'mw_present': mw, 'script': script, 'custom': custom, 'inbox': inbox, 'starve': starve,
        'events': [gen_event(rnd, t, binh) for t in inbox], 'wp_only': argtypes,
        'fail': rnd.choice([None, None, None, 0, 1, 2, 3, 4]), 'fault': rnd.choice(FAULTS),
        'refuse': rnd.choice(REFUSE_SETS) if rnd.random() < 0.3 else [],
        'err': rnd.choice([1011, 1011, 1011, 4000, 999, 1005, 1006, 1007, 1014, 1015, 1999, 2000, 1004, 1003]), 'binh': binh,
        'yields': rnd.randrange(1 << 30),
    }


def gen_server_directed():
    """the SERVER's behaviour as the input: every fault kind (class x message) x error_close_code valid / reserved x close-code policy x how the
    responder / middleware ends (unexpected exception before / after accept, foreign WebSocketDisconnected, HTTP error, plain return, own close that is refused) x queue 0 / 4"""
    kinds = ['os', 'osicc', 'val', 'valicc', 'other', 'excicc', 'type', 'typeicc', 'custom', 'customicc', 'ok1000', 'sub', 'os1001']
    endings = [('r', [], [('X', 0)]), ('r', [], [('A000', 1), ('X', 0)]), ('r', [], [('A000', 1), ('St', 1), ('Ewsd1001', 0)]), ('r', [('B', 0)], []),
               ('r', [], [('A000', 1)]), ('r', [], [('A000', 1), ('H403', 0)]), ('u', [], []), ('r', [], [('A000', 1), ('C1011', 2), ('B', 0)]),
               ('r', [], [('A000', 1), ('C1011', 1), ('St', 1)])]
    j = 0
    for kind in kinds:
        for err in (1011, 4000, 999):
            for refuse in ([1011], [1001, 1003, 1007, 1011, 1014, 2000], [1011, 3011], [1000, 4000, 3403, 3404]):
                for route, mwreq, script in endings:
                    j += 1
                    q = (0, 4)[j % 2]
                    mk = lambda toks: [{'tok': t, 'catch': c, 'var': (j + i) % 4, 'pay': default_pay(i)} for i, (t, c) in enumerate(toks)]
                    inbox = ['t0', 'd1001'] if j % 3 else ['t1', 'b', 't1', 't1', 'dn']
                    yield {'ver': ('2.0', '2.1', '2.3', '2.4')[j % 4], 'q': q, 'first': 1, 'route': route, 'mwreq': mk(mwreq), 'mwres': [], 'mw_present': bool(mwreq),
                           'script': mk(script), 'custom': None, 'inbox': inbox, 'events': [default_event(t, k) for k, t in enumerate(inbox)], 'wp_only': False,
                           'starve': 'late', 'fail': None, 'fault': kind, 'refuse': list(refuse), 'err': err, 'binh': False, 'yields': 4242 + j}


def gen_payload_session(rnd):
    """sessions aimed at the payload plumbing, incl. what only the payload model covers (`wp_only`): client events with no or two
    payloads, bytes the stub BINARY handler rejects, documents the serializer rejects, send_media(BINARY) without msgpack"""
    q = rnd.choice([0, 0, 4])
    binh = rnd.random() < 0.6
    n_in = rnd.choice([1, 2, 3, 4, 6, 8])
    inbox = [rnd.choice(['t1', 't1', 't0', 'b', 'b', 'bx', 'bx', 'e', 'tb']) for _ in range(n_in)]
    inbox.append(rnd.choice(DISC))
    script = [{'tok': 'A000', 'catch': 1, 'var': 0, 'pay': gen_pay(rnd)}]
    for _ in range(rnd.randint(1, 10)):
        script.append(arg_step(rnd, {'tok': rnd.choice(WP_OPS), 'catch': rnd.choice([1, 1, 1, 2, 2, 0]), 'var': rnd.randrange(4), 'pay': gen_pay(rnd)}))
        if script[-1]['tok'][0] == 'E':
            script[-1]['catch'] = rnd.choice([0, 0, 1, 2])
    return {
        'ver': rnd.choice(['2.1', '2.3', '2.4']), 'q': q, 'first': 1, 'route': 'r', 'mwreq': [], 'mwres': [], 'mw_present': False,
        'script': script, 'custom': None, 'inbox': inbox, 'starve': 'late',
        'events': [gen_event(rnd, t, binh) for t in inbox], 'wp_only': True,
        'fail': rnd.choice([None, None, None, None, 1, 2, 3]), 'fault': rnd.choice(FAULTS), 'err': 1011, 'binh': binh,
        'yields': rnd.randrange(1 << 30),
    }


def gen_abandon_session(rnd):
    """responders that ABANDON operations: accept, then <= 9 ops over abandoned receives (Kt / Kd / Km), plain receives, sends, closes and at most one
    send cancelled in flight (Ks / Kb), against a client that is idle at the marked points (`w`) - so the abandoned receive really waits - in
    unbuffered (0) and buffered (1, 4) mode"""
    q = rnd.choice([0, 1, 4, 4])
    binh = rnd.random() < 0.5
    inbox = []
    for _ in range(rnd.choice([1, 2, 3, 4, 6])):
        inbox.append(rnd.choice(['t1', 't1', 't0', 'b', 'w', 'w', 'w']))
    if 'w' not in inbox: inbox.insert(rnd.randrange(len(inbox) + 1), 'w')
    inbox.append(rnd.choice(DISC))
    first = {'tok': 'A000', 'catch': 1, 'var': 0, 'pay': gen_pay(rnd)}
    if rnd.random() < 0.3:
        first = {'tok': 'Ag', 'catch': 1, 'var': 0, 'pay': gen_pay(rnd), 'acc': {'sub': rnd.choice([None, 'chat']), 'container': rnd.choice([None, 'list', 'dict', 'gen']),
                                                                                  'items': [(spell(rnd, 'x-case'), 'v')]}}
    script = [first]; cancelled_send = False
    for _ in range(rnd.randint(1, 9)):
        tok = rnd.choice(ABANDON_OPS)
        if tok in ('Ks', 'Kb'):
            if cancelled_send: tok = 'Kt'
            cancelled_send = True
        script.append({'tok': tok, 'catch': rnd.choice([1, 1, 1, 2, 0]), 'var': rnd.randrange(4), 'pay': gen_pay(rnd)})
    return {
        'ver': rnd.choice(['2.0', '2.1', '2.3', '2.4']), 'q': q, 'first': 1, 'route': 'r', 'mwreq': [], 'mwres': [], 'mw_present': False,
        'script': script, 'custom': None, 'inbox': inbox, 'starve': 'late',
        'events': [gen_event(rnd, t, binh) for t in inbox], 'wp_only': False,
        'fail': None, 'fault': 'other', 'err': rnd.choice([1011, 1011, 4000]), 'binh': binh, 'yields': rnd.randrange(1 << 30),
    }


def gen_abandon_directed():
    """accept, one abandoned receive (text / data / media x wait_for timeout / task cancellation), then every continuation of <= 2 ops over 7 ops,
    x queue 0 / 1 / 4 x 3 client scripts with idle points"""
    import itertools
    conts = ['Rt', 'Rd', 'Kt', 'St', 'Ks', 'Cn', 'C3001']
    for (ktok, var) in (('Kt', 0), ('Kt', 1), ('Kd', 1), ('Km', 0)):
        for l in range(0, 3):
            for toks in itertools.product(conts, repeat=l):
                if toks.count('Ks') > 1: continue
                for inbox in (['w', 't0', 't1', 'dn'], ['t0', 'w', 't1', 'w', 'b', 'd1001'], ['w', 'd4000']):
                    for q in (0, 1, 4):
                        script = [('A000', 0)] + [(ktok, var)] + [(t, (var + j) % 2) for j, t in enumerate(toks)]
                        yield {'ver': '2.3' if q else '2.1', 'q': q, 'first': 1, 'route': 'r', 'mwreq': [], 'mwres': [], 'mw_present': False,
                               'script': [{'tok': t, 'catch': 1, 'var': v, 'pay': default_pay(j)} for j, (t, v) in enumerate(script)],
                               'custom': None, 'inbox': list(inbox), 'events': [default_event(t, k) for k, t in enumerate(inbox)], 'wp_only': False,
                               'starve': 'late', 'fail': None, 'fault': 'other', 'err': 1011, 'binh': False, 'yields': 777 + l + q}


def gen_argtype_directed():
    """every ARGUMENT TYPE of the send entry points x every STATE of the session: send_text(bytes / bytearray / memoryview / int / None / list / a str
    subclass), send_data(str / a str subclass / list / None / int / bytearray / memoryview), send_media(an object the serializer rejects, TEXT and
    BINARY) on a socket that is in the handshake, accepted, closed by the application, left by the client (observed by a receive), or accepted with the
    disconnect seen by the pump only; the step catches the documented errors (1: a TypeError escapes to the framework) or everything (2), and a
    well-formed send_text follows, which shows that the refused call left the socket as it was; x queue 0 / 4"""
    ops = ([('Wt', 0, {'bad': b}) for b in ('bytes', 'bytearray', 'memoryview', 'int', 'none', 'list')] + [('St', 0, {'sub': True}), ('St', 0, {})] +
           [('Wb', 0, {'bad': b}) for b in ('str', 'strsub', 'list', 'none', 'int')] + [('Sb', 0, {}), ('Sb', 2, {}), ('Sb', 3, {})] +
           [('Sx', 0, {}), ('Sx', 1, {})])
    j = 0
    for state in ARG_STATES:
        for q in (0, 4):
            if state == 'pump_saw_disconnect' and q == 0: continue
            for tok, var, extra in ops:
                for catch in (1, 2):
                    j += 1
                    op = dict({'tok': tok, 'catch': catch, 'var': var, 'pay': default_pay(j)}, **extra)
                    mk = lambda t, c=1, v=0: {'tok': t, 'catch': c, 'var': v, 'pay': default_pay(j + 1)}
                    inbox = ['w', 't0', 'd1001']          # the client is there and stays idle: no disconnect is ever delivered
                    if state == 'handshake': script = [op, mk('A000'), mk('St')]
                    elif state == 'accepted': script = [mk('A000'), op, mk('St')]
                    elif state == 'closed_by_app': script = [mk('A000'), mk('C3001' if j % 2 else 'Cn'), op, mk('St')]
                    elif state == 'client_gone':
                        inbox = ['d4000'] if j % 2 else ['dn']
                        script = [mk('A000'), mk('Rt'), op, mk('St')]
                    else:
                        inbox = ['d1001']
                        script = [mk('A000'), op, mk('St')]
                    yield {'ver': '2.3' if j % 2 else '2.1', 'q': q, 'first': 1, 'route': 'r', 'mwreq': [], 'mwres': [], 'mw_present': False,
                           'script': script, 'custom': None, 'inbox': inbox, 'events': [default_event(t, k) for k, t in enumerate(inbox)], 'wp_only': True,
                           'starve': 'late', 'fail': None, 'fault': 'other', 'err': 1011, 'binh': bool(j % 3 == 0), 'yields': 9000 + j}


def gen_exhaustive(maxlen):
    """every script of length <= maxlen over SMALL_OPS (all steps catch, except the foreign error E, which propagates) x 3 client scripts x fault index x queue 0/4."""
    import itertools
    for l in range(0, maxlen + 1):
        for toks in itertools.product(SMALL_OPS, repeat=l):
            for inbox in (['t1', 'b', 'd1001'], ['d4000'], ['t0', 't1', 'b', 't1', 't1', 't1', 'dn']):
                for fail in (None, 0, 1, 2):
                    for q in (0, 4):
                        yield {'ver': '2.3' if (l + len(inbox)) % 2 else '2.1', 'q': q, 'first': 1, 'route': 'r', 'mwreq': [], 'mwres': [],
                               'mw_present': False,
                               'script': [{'tok': t, 'catch': 0 if t[0] == 'E' else 2 if q else 1, 'var': (l + j + (1 if q else 0)) % 4 if t[0] == 'E' else 0,
                                           'pay': default_pay(j)} for j, t in enumerate(toks)],
                               'custom': None, 'inbox': list(inbox), 'events': [default_event(t, k) for k, t in enumerate(inbox)], 'wp_only': False,
                               'starve': 'late', 'fail': fail, 'fault': 'os' if q == 0 else 'other', 'err': 1011,
                               'binh': False, 'yields': 12345 + l}


def run(ctx):
    import asyncio
    import json
    import random
    import falcon
    import falcon.asgi
    import falcon.asgi.app as appmod
    import falcon.asgi.ws as wsmod
    from falcon import errors, media
    from falcon.constants import WebSocketPayloadType
    from runner import hx

    class Boom(Exception):
        pass

    class Abandoned(Exception):
        """harness: the operation was parked and the responder gave it up (timeout / cancellation); the responder goes on"""

    vclock = [1000.0]        # the event loop's clock: virtual, advanced only by the harness (asyncio.wait_for timeouts fire when the harness says so)

    class BinHandler(media.BinaryBaseHandlerWS):
        """msgpack-like stub (msgpack is not installed): magic 00 4A + the UTF-8 JSON text; deserialize is its inverse"""
        def serialize(self, m):
            return b'\x00J' + json.dumps(m, ensure_ascii=False).encode('utf-8')

        def deserialize(self, payload):
            payload = bytes(payload)
            if payload[:2] != b'\x00J':
                raise ValueError('bad magic')
            return json.loads(payload[2:].decode('utf-8'))

    def exname(e):
        if isinstance(e, errors.OperationNotAllowed): return 'ONA'
        if isinstance(e, errors.WebSocketDisconnected): return f'WSD:{"none" if e.code is None else e.code}'
        if isinstance(e, errors.PayloadTypeError): return 'PTE'
        if isinstance(e, falcon.HTTPError): return f'HE:{e.status_code}'
        if isinstance(e, falcon.HTTPStatus): return f'HS:{e.status_code}'
        if isinstance(e, ValueError): return 'VEI' if 'invalid close code' in str(e).lower() else 'VEO'
        if isinstance(e, OSError): return 'OSE'
        if isinstance(e, AssertionError): return 'AE'
        if isinstance(e, Boom): return 'BOOM'
        if isinstance(e, Abandoned): return 'CAN'
        if isinstance(e, asyncio.TimeoutError): return 'TIMEOUT'
        return 'PY'
    CATCH = (errors.OperationNotAllowed, errors.WebSocketDisconnected, errors.PayloadTypeError, ValueError)

    class ServerRefusal(Exception):
        """the server's own exception class"""

    def mkfault(kind, m=None):
        """what the server's send raises: class x message are independent (the `icc` kinds say 'invalid close code', as Autobahn does for a
        close code it does not let applications use)"""
        code = (m or {}).get('code', 1011)
        icc = 'invalid close code %s (must be 1000 or from [3000, 4999])' % code
        if kind == 'os': return OSError('send failed')
        if kind == 'os1001':
            e = OSError('connection lost'); e.__cause__ = Exception('received 1001 (going away); then sent 1001 (going away)'); return e
        if kind == 'ok1000': return Exception('sent 1000 (OK); then received: code = 1000 (OK), no reason')
        if kind == 'sub': return Exception('protocol accepted must be from the list of client protocols')
        if kind == 'osicc': return OSError('Invalid Close Code: %s' % code)
        if kind == 'val': return ValueError('the server does not take this event')
        if kind == 'valicc': return ValueError(icc.capitalize())
        if kind == 'excicc': return Exception(icc)
        if kind == 'type': return TypeError('unexpected event')
        if kind == 'typeicc': return TypeError('INVALID CLOSE CODE %s' % code)
        if kind == 'custom': return ServerRefusal('event refused')
        if kind == 'customicc': return ServerRefusal(icc)
        return RuntimeError('server send exploded')

    def render(m):
        ty = m.get('type')
        if ty == 'websocket.accept':
            return 'acc%d%d' % (1 if 'headers' in m else 0, 1 if m.get('subprotocol') is not None else 0)
        if ty == 'websocket.send':
            return 'snd:t' if m.get('text') is not None else 'snd:b'
        if ty == 'websocket.close':
            return f"cls:{m.get('code')}:{1 if 'reason' in m else 0}"
        return 'unknown:' + str(ty)

    def render_wp(m):
        """a send event with its payload: which key carries it, and the payload itself (hex; text as UTF-8)"""
        if m.get('type') != 'websocket.send':
            return render(m)
        keys = sorted(k for k in m if k != 'type')
        if keys == ['text'] and isinstance(m['text'], str):      # a str subclass is a str: the event carries the same text
            return 'snd:t:' + hx(m['text'].encode('utf-8'))
        if keys == ['bytes'] and type(m['bytes']) is bytes:
            return 'snd:b:' + hx(m['bytes'])
        return 'snd:?' + repr(m).replace(' ', '_')

    def render_value(tok, v):
        try:
            if tok == 'Rt' and type(v) is str: return 'ok=t:' + hx(v.encode('utf-8'))
            if tok == 'Rd' and type(v) is bytes: return 'ok=b:' + hx(v)
            if tok == 'Rm': return 'ok=m:' + hx(json.dumps(v, ensure_ascii=False).encode('utf-8'))
        except Exception as e:  # noqa
            return 'ok=?' + type(e).__name__
        return 'ok=?' + type(v).__name__

    # ---------------------------------------------------------------- one real session
    async def session(spec):
        yr = random.Random(spec['yields'])
        o = {'calls': [], 'trace': [], 'steps': [], 'handed': None, 'out_n': 0, 'ws': None, 'cur': None, 'turn': 0, 'park_send': None, 'hcalls': []}
        events = [dict(e) for e in spec['events']]
        ev = [{'type': 'websocket.connect'} if spec['first'] else {'type': 'websocket.disconnect', 'code': 1001}] + list(events)
        never = asyncio.get_running_loop().create_future()

        def gate_open():
            cur = o['cur']
            return cur is not None and cur['tok'] in ('Rt', 'Rd', 'Rm') and o['turn'] - cur['t0'] >= G_WAIT and not cur.get('resumed')

        async def receive():
            for _ in range(yr.choice([0, 1, 1, 2, 3])):
                await asyncio.sleep(0)
            while ev and ev[0]['type'] == 'idle':
                # the client is idle: nothing arrives until the responder has really been waiting in a plain receive_* (a cancelled pull takes nothing)
                if gate_open():
                    o['cur']['resumed'] = True       # one waiting receive wakes the client once: a later idle point needs a new wait
                    while ev and ev[0]['type'] == 'idle':
                        ev.pop(0)
                    o['trace'].append(('client-resumes',))
                else:
                    await asyncio.sleep(0)
            if ev:
                e = ev.pop(0)
                if e['type'] == 'websocket.disconnect' and spec['first']:
                    o['handed'] = e.get('code', 1000); o['trace'].append(('handed-disconnect',))
                return e
            if spec['starve'] == 'raise':
                raise RuntimeError('starved')
            o['trace'].append(('receive-after-disconnect',))
            await never

        async def send(m):
            i = len(o['calls'])
            call = {'i': i, 'm': dict(m), 'r': render(m), 'ok': None, 'after_handed': o['handed'] is not None}
            o['calls'].append(call)
            for _ in range(yr.choice([0, 0, 1, 2])):
                await asyncio.sleep(0)
            if o['park_send'] is not None and m.get('type') == 'websocket.send':
                # the server has not taken the event yet (back-pressure): the call stays in flight until the responder cancels it
                call['ok'] = False; call['cancelled'] = True; o['park_send']['in_flight'] = True
                await asyncio.get_running_loop().create_future()
            if spec['fail'] is not None and i == spec['fail']:
                call['ok'] = False
                raise mkfault(spec['fault'], m)
            if m.get('type') == 'websocket.close' and m.get('code') in spec.get('refuse', ()):
                call['ok'] = False; call['refused'] = True       # the server's policy: it does not let applications use this close code
                raise mkfault(spec['fault'], m)
            call['ok'] = True

        def flag(ws):
            br = ws._buffered_receiver
            return br.client_disconnected_code if br.client_disconnected else None

        async def do(ws, st, rec):
            tok = st['tok']; k = tok[0]; var = st['var']
            if tok == 'Ag':
                acc = st['acc']; kw = {}
                if acc['sub'] is not None: kw['subprotocol'] = acc['sub']
                if acc['container'] is not None: kw['headers'] = build_headers(acc)
                if kw and var % 2 == 0 and 'headers' not in kw: await ws.accept(kw['subprotocol'])      # positional
                else: await ws.accept(**kw)
            elif k == 'K':
                kind = tok[1]
                if kind in 'tdm':
                    rec['value'] = await abandon({'t': ws.receive_text, 'd': ws.receive_data, 'm': ws.receive_media}[kind], var, rec)
                else:
                    pay = st['pay']; o['park_send'] = rec
                    try:
                        if kind == 's':
                            rec['submitted'] = ('text', pay['text']); await abandon(lambda: ws.send_text(pay['text']), var, rec)
                        else:
                            rec['submitted'] = ('bytes', pay['data']); await abandon(lambda: ws.send_data(pay['data']), var, rec)
                    finally:
                        o['park_send'] = None
            elif k == 'A':
                kw = {}
                if tok[1] == '1': kw['headers'] = {'X-Case': 'v'} if var % 2 else [('X-Case', 'v'), ('x-other', 'w')]
                if tok[3] == '1': kw['subprotocol'] = 7
                elif tok[2] == '1': kw['subprotocol'] = 'chat'
                await ws.accept(**kw)
            elif k == 'C':
                a = tok[1:]; reason = None
                if a.endswith('+'): a = a[:-1]; reason = 'because'
                code = None if a == 'n' else ('x' if a == 'x' else int(a))
                if reason: await ws.close(code, reason)
                elif code is None and var % 2: await ws.close()
                else: await ws.close(code)
            elif tok == 'St':
                pay = st['pay']
                if var % 2:
                    rec['submitted'] = ('media', pay['doc']); await ws.send_media(pay['doc'])
                else:
                    rec['submitted'] = ('text', pay['text']); await ws.send_text(StrSub(pay['text']) if st.get('sub') else pay['text'])
            elif tok in ('Wt', 'Wb'):      # a payload of the wrong type
                p = bad_payload(st['bad'], st['pay']); rec['submitted'] = ('badtype', st['bad'])
                if tok == 'Wt': await ws.send_text(p)
                else: await ws.send_data(p)
            elif tok == 'Sb':
                pay = st['pay']
                if var % 2 and spec['binh']:
                    rec['submitted'] = ('binmedia', pay['doc']); await ws.send_media(pay['doc'], WebSocketPayloadType.BINARY)
                else:
                    p = pay['data']; rec['submitted'] = ('bytes', p)
                    await ws.send_data(p if var < 2 else (bytearray(p) if var == 2 else memoryview(p)))
            elif tok == 'Sx':      # a document the serializer rejects (TypeError), TEXT or BINARY
                rec['submitted'] = ('badmedia', None)
                await ws.send_media({1, 2}, WebSocketPayloadType.TEXT if var % 2 else WebSocketPayloadType.BINARY)
            elif tok == 'Sn':      # send_media(BINARY) whatever handler is installed (MissingDependencyHandler raises RuntimeError)
                rec['submitted'] = ('binmedia', st['pay']['doc']) if spec['binh'] else ('badmedia', None)
                await ws.send_media(st['pay']['doc'], WebSocketPayloadType.BINARY)
            elif tok == 'Rt': rec['value'] = await ws.receive_text()
            elif tok == 'Rd': rec['value'] = await ws.receive_data()
            elif tok == 'Rm': rec['value'] = await ws.receive_media()
            elif k == 'H': raise falcon.HTTPError(int(tok[1:]))
            elif k == 'T': raise falcon.HTTPStatus(int(tok[1:]))
            elif k == 'X': raise RuntimeError('boom')
            elif k == 'B': raise Boom('app error')
            elif k == 'E':
                rec['via'] = 'peer' if (var % 2 and tok != 'Eae') else 'hand'
                if rec['via'] == 'peer': await peer_fails(tok[1:])
                else: raise_by_hand(tok[1:], var)
                raise RuntimeError('harness: the foreign operation did not raise')

        async def abandon(call, var, rec):
            """run the operation the way a responder that may give it up does: under asyncio.wait_for(op, 5.0) (even var) or as a task of its own (odd var).
            If it has not completed after T_PARK loop turns it is parked - an available event reaches a receive within < 10 turns -: the timeout fires
            (the harness advances the loop's virtual clock) resp. the task is cancelled, and the responder goes on (Abandoned).  Otherwise the operation's
            own result / exception is the step's."""
            ws_ = o['ws']

            async def started():
                # the operation begins one loop turn after the step: what it can observe is sampled now
                rec['disc'] = flag(ws_); rec['handed'] = o['handed']; rec['c0'] = len(o['calls'])
                return await call()
            if var % 2 == 0:
                rec['how'] = 'wait_for'; t = asyncio.ensure_future(asyncio.wait_for(started(), 5.0))
            else:
                rec['how'] = 'cancel'; t = asyncio.ensure_future(started())
            for _ in range(T_PARK):
                if t.done(): break
                await asyncio.sleep(0)
            if not t.done():
                rec['parked'] = True
                if var % 2 == 0: vclock[0] += 10.0
                else: t.cancel()
                for _ in range(20):
                    if t.done(): break
                    await asyncio.sleep(0)
            if not t.done():
                t.cancel()
                raise RuntimeError('harness: the abandoned operation did not finish after its cancellation')
            if t.cancelled():
                raise Abandoned()
            exc = t.exception()
            if exc is None:
                return t.result()
            if rec.get('parked') and isinstance(exc, asyncio.TimeoutError):
                raise Abandoned()
            raise exc

        class LeftWSD(errors.WebSocketDisconnected):
            """an application's own subclass"""

        def raise_by_hand(c, var):
            if c.startswith('wsd'):
                a = c[3:]; cls = LeftWSD if var == 2 else errors.WebSocketDisconnected
                raise (cls() if a == 'n' else cls(int(a)))
            if c == 'ona': raise errors.OperationNotAllowed('not now')
            if c == 'pte': raise errors.PayloadTypeError('wrong payload')
            if c == 'vei': raise ValueError('Invalid close code 12 (rejected by something else)')
            if c == 'veo': raise ValueError('some other value')
            if c == 'ose': raise OSError('some other socket')
            if c == 'ae': raise AssertionError('application assertion')
            raise RuntimeError('harness: unknown class ' + c)

        async def peer_fails(c):
            """a relay: the step operates on ANOTHER connection's WebSocket (a real falcon object on its own scripted server), and that
            operation fails with an error of the wanted class; the handled connection is not involved at all"""
            pev = []; pfail = [False]

            async def precv():
                if pev: return pev.pop(0)
                raise RuntimeError('harness: peer starved')

            async def psend(m):
                if pfail[0]: raise OSError('peer server send failed')
            peer = wsmod.WebSocket(spec['ver'], {'subprotocols': []}, precv, psend, app.ws_options.media_handlers, 0, {})
            if c.startswith('wsd'):
                a = c[3:]
                pev.append({'type': 'websocket.disconnect'} if a == 'n' else {'type': 'websocket.disconnect', 'code': int(a)})
                await peer.accept()
                try:
                    await peer.receive_data()          # B's own handler noticed that B's client has left
                except errors.WebSocketDisconnected:
                    pass
                await peer.send_text('relayed')        # A's responder forwards to B: raises WebSocketDisconnected(B's code) inside A's responder
            elif c == 'ona': await peer.send_text('too early')
            elif c == 'pte':
                pev.append({'type': 'websocket.receive', 'bytes': b'bin'})
                await peer.accept(); await peer.receive_text()
            elif c == 'vei': await peer.close(999)
            elif c == 'veo': await peer.accept(subprotocol=7)
            elif c == 'ose':
                pfail[0] = True; await peer.close()
            else:
                raise RuntimeError('harness: unknown class ' + c)

        async def run_steps(ws, who, steps):
            for st in steps:
                for _ in range(yr.choice([0, 0, 0, 1, 2, 5])):      # the application does other work: the pump may run
                    await asyncio.sleep(0)
                rec = {'who': who, 'tok': st['tok'], 'catch': st['catch'], 'disc': flag(ws), 'handed': o['handed'], 'c0': len(o['calls']),
                       'outcome': None, 'acc': st.get('acc'), 't0': o['turn']}
                o['steps'].append(rec)
                o['cur'] = rec
                try:
                    await do(ws, st, rec)
                    rec['outcome'] = 'ok'; rec['c1'] = len(o['calls'])
                except Exception as e:  # noqa
                    rec['outcome'] = exname(e); rec['c1'] = len(o['calls']); rec['exc'] = type(e).__name__
                    if isinstance(e, Abandoned):
                        continue            # the responder gave the operation up and goes on
                    if not (st['catch'] == 2 or (st['catch'] == 1 and isinstance(e, CATCH))):
                        raise
                finally:
                    o['cur'] = None

        class Res:
            async def on_websocket(self, req, ws):
                await run_steps(ws, 'responder', spec['script'])

        class NoWs:
            async def on_get(self, req, resp):
                pass

        ns = {}
        if spec['mwreq']:
            async def process_request_ws(self, req, ws):
                await run_steps(ws, 'mwreq', spec['mwreq'])
            ns['process_request_ws'] = process_request_ws
        if spec['mwres']:
            async def process_resource_ws(self, req, ws, resource, params):
                await run_steps(ws, 'mwres', spec['mwres'])
            ns['process_resource_ws'] = process_resource_ws
        if spec['mw_present'] and not ns:
            async def process_request(self, req, resp):
                pass
            ns['process_request'] = process_request      # an HTTP-only middleware component
        mw = type('Mw', (), ns)()
        app = falcon.asgi.App(middleware=[mw] if spec['mw_present'] else None)
        app.ws_options.max_receive_queue = spec['q']
        app.ws_options.error_close_code = spec['err']
        if spec['binh']:
            app.ws_options.media_handlers[WebSocketPayloadType.BINARY] = BinHandler()
        if spec['route'] == 'r': app.add_route('/ws', Res())
        elif spec['route'] == 'n': app.add_route('/ws', NoWs())
        cu = spec['custom']
        if cu is not None:
            async def body(got):
                # what the handler was handed in the place of `ws`: the connection's own socket / nothing / something else
                o['hcalls'].append('live' if (got is not None and got is o['ws']) else ('none' if got is None else 'other:' + type(got).__name__))
                if cu['ws']:
                    # the documented idiom `if ws is not None: ...`: without a socket this is the HTTP branch, and on a WebSocket connection
                    # (resp is None) there is nothing for it to do
                    if got is None: return
                    await run_steps(got, 'handler', cu['steps'])
                else:
                    await run_steps(o['ws'], 'handler', cu['steps'])     # raise-only scripts: never touches the socket
            app.add_error_handler(Boom, build_handler(cu.get('sig', 'pk_default' if cu['ws'] else 'absent'), cu.get('carrier', 'function'), body))
        o['reasons'] = sorted(app.ws_options.default_close_reasons.keys())

        class Rec(wsmod.WebSocket):
            __slots__ = ()

            def __init__(self, *a, **k):
                super().__init__(*a, **k)
                o['ws'] = self
        scope = {'type': 'websocket', 'asgi': {'version': '3.0', 'spec_version': spec['ver']}, 'path': '/ws', 'query_string': b'',
                 'headers': [], 'subprotocols': ['chat', 'other'], 'http_version': '1.1', 'scheme': 'ws',
                 'server': ('127.0.0.1', 8000), 'client': ('127.0.0.1', 50000), 'root_path': ''}
        saved = appmod.WebSocket
        appmod.WebSocket = Rec
        esc = '-'
        try:
            # no wall clock: the session is purely loop-driven, so "did not terminate" = still pending after 4000 loop turns
            task = asyncio.ensure_future(app(scope, receive, send))
            for _ in range(4000):
                if task.done():
                    break
                await asyncio.sleep(0)
                o['turn'] += 1
            if not task.done():
                esc = 'TIMEOUT'
                task.cancel()
                await asyncio.gather(task, return_exceptions=True)
            elif task.exception() is not None:
                esc = exname(task.exception())
        finally:
            appmod.WebSocket = saved
        o['esc'] = esc
        ws = o['ws']
        if ws is not None:
            o['fd'] = flag(ws)
            o['pub'] = ''.join('1' if b else '0' for b in (ws.unaccepted, ws.closed, ws.ready))
        else:
            o['fd'] = None; o['pub'] = '-'
        for _ in range(3):
            await asyncio.sleep(0)
        left = [t for t in asyncio.all_tasks() if t is not asyncio.current_task() and not t.done()]
        o['left'] = len(left)
        for t in left:
            t.cancel()
        if left:
            await asyncio.gather(*left, return_exceptions=True)
        if not never.done():
            never.cancel()
        return o

    # ---------------------------------------------------------------- driver line + expected reply
    def drv_tok(st, rec):
        """the step as the kind-level model sees it.  accept with generated arguments: the arguments themselves.  A receive the responder abandons
        if it has to wait: the run decides (like the disconnect flag, an observation) whether it was parked and cancelled (K?: a no-op of the model)
        or found an event (a plain receive).  A send cancelled in flight: a send whose server call raises an untranslated exception that the script
        catches (`fail=<index of the call> fault=other`, catch-all) - _send only handles Exception, so both leave the socket as it was."""
        tok = st['tok']
        if tok == 'Ag': return acc_tok(st['acc'])
        if tok[0] == 'K':
            if tok[1] in 'tdm': return tok if (rec is not None and rec['outcome'] == 'CAN') else 'R' + tok[1]
            return 'St' if tok[1] == 's' else 'Sb'
        return tok

    def drv_catch(st, rec):
        return 2 if (st['tok'] in ('Ks', 'Kb') and rec is not None and rec['outcome'] == 'CAN') else st['catch']

    def model_outcome(r):
        if r['outcome'] == 'CAN': return 'PY' if r['tok'] in ('Ks', 'Kb') else 'ok'
        return r['outcome']

    def fail_fault(spec, o):
        """the failing server send of the model: the injected fault, or the send the responder cancelled in flight"""
        can = [c['i'] for c in o['calls'] if c.get('cancelled')]
        if can and spec['fail'] is None and len(can) == 1 and not spec.get('refuse'): return str(can[0]), 'other'
        if can: return 'unmodelled', 'other'
        return ('-' if spec['fail'] is None else str(spec['fail'])), fault_class(spec['fault'])

    def server_words(spec):
        """the server's behaviour beyond the faulty call: does its exception say 'invalid close code', which close codes does its policy refuse"""
        return f"icc={1 if fault_icc(spec['fault']) else 0} refuse={','.join(map(str, spec.get('refuse', [])))}"

    def tokens(steps, recs):
        out = []
        for i, st in enumerate(steps):
            rec = recs[i] if i < len(recs) else None
            d = rec['disc'] if rec is not None else None
            out.append(f"{drv_tok(st, rec)}:{drv_catch(st, rec)}:{'-' if d is None else d}")
        return ';'.join(out)

    def line_and_reply(spec, o):
        by = {w: [r for r in o['steps'] if r['who'] == w] for w in ('mwreq', 'mwres', 'responder', 'handler')}
        ver = tuple(map(int, spec['ver'].split('.')))
        inbox = [t for t in spec['inbox'] if t != 'w']       # an idle client is no event: the model reads the messages in order
        cu = spec['custom']
        fail, fault = fail_fault(spec, o)
        line = (f"case supH={0 if spec['ver'] == '2.0' else 1} supR={1 if ver >= (2, 3) else 0} err={spec['err']} bin={1 if spec['binh'] else 0} "
                f"fail={fail} fault={fault} {server_words(spec)} q={1 if spec['q'] else 0} first={spec['first']} "
                f"route={spec['route']} inbox={','.join(inbox)} reasons={','.join(map(str, o['reasons']))} "
                f"mwreq={tokens(spec['mwreq'], by['mwreq'])} mwres={tokens(spec['mwres'], by['mwres'])} "
                f"script={tokens(spec['script'], by['responder'])} custom={'none' if cu is None else 'h:' + tokens(cu['steps'], by['handler'])} "
                f"fd={'-' if o['fd'] is None else o['fd']}")
        sent = ','.join(c['r'] + ('' if c['ok'] else '!') for c in o['calls'])
        if not spec['first']:
            return line, f"sent={sent} log= hlog= esc={o['esc']} pub=-"
        log = ','.join(model_outcome(r) for r in o['steps'] if r['who'] != 'handler')
        hlog = ','.join(model_outcome(r) for r in by['handler'])
        return line, f"sent={sent} log={log} hlog={hlog} esc={o['esc']} pub={o['pub']}"

    def key_tok(ev, k, text):
        if k not in ev: return 'a'
        if ev[k] is None: return 'n'
        return 'v' + hx(ev[k].encode('utf-8') if text else ev[k])

    def in_tok(ev):
        if ev['type'] == 'websocket.disconnect':
            return 'd' + str(ev['code']) if 'code' in ev else 'dn'
        return 'r' + key_tok(ev, 'text', True) + '/' + key_tok(ev, 'bytes', False)

    def doc_tok(doc):
        return hx(json.dumps(doc, ensure_ascii=False).encode('utf-8'))

    def op_tok(spec, st):
        """the operation with the payload it submits (decided by the step, not by the run)"""
        tok, var, pay = st['tok'], st['var'], st['pay']
        if tok == 'St': return 'Smt' + doc_tok(pay['doc']) if var % 2 else 'St' + hx(pay['text'].encode('utf-8'))
        if tok == 'Sb': return 'Smb' + doc_tok(pay['doc']) if var % 2 and spec['binh'] else 'Sb' + hx(pay['data'])
        if tok == 'Sx': return 'Smt!' if var % 2 else 'Smb!'
        # a wrongly typed send_text / send_data is, for the model, the send whose ARGUMENT is refused after the state check and before _send
        # (`_require_accepted(); raise`): the operation sendMedia with an argument its serializer rejects
        if tok in ('Wt', 'Wb'): return 'Smt!'
        if tok == 'Sn': return 'Smb' + doc_tok(pay['doc'])
        if tok == 'Ks': return 'St' + hx(pay['text'].encode('utf-8'))
        if tok == 'Kb': return 'Sb' + hx(pay['data'])
        return tok

    def tokens_wp(spec, steps, recs):
        out = []
        for i, st in enumerate(steps):
            rec = recs[i] if i < len(recs) else None
            d = rec['disc'] if rec is not None else None
            t = drv_tok(st, rec) if (st['tok'] == 'Ag' or st['tok'] in ('Kt', 'Kd', 'Km')) else op_tok(spec, st)
            out.append(f"{t}:{drv_catch(st, rec)}:{'-' if d is None else d}")
        return ';'.join(out)

    def outcome_wp(r):
        if r['outcome'] == 'ok' and r['tok'] in ('Rt', 'Rd', 'Rm', 'Kt', 'Kd', 'Km'):
            return render_value('R' + r['tok'][1], r.get('value'))
        return model_outcome(r)

    def line_and_reply_wp(spec, o):
        """the same session for the payload-carrying model: payloads in the line, payloads in the reply"""
        by = {w: [r for r in o['steps'] if r['who'] == w] for w in ('mwreq', 'mwres', 'responder', 'handler')}
        ver = tuple(map(int, spec['ver'].split('.')))
        cu = spec['custom']
        fail, fault = fail_fault(spec, o)
        line = (f"case supH={0 if spec['ver'] == '2.0' else 1} supR={1 if ver >= (2, 3) else 0} err={spec['err']} bin={1 if spec['binh'] else 0} "
                f"fail={fail} fault={fault} {server_words(spec)} q={1 if spec['q'] else 0} first={spec['first']} "
                f"route={spec['route']} inbox={','.join(in_tok(e) for e in spec['events'] if e['type'] != 'idle')} reasons={','.join(map(str, o['reasons']))} "
                f"mwreq={tokens_wp(spec, spec['mwreq'], by['mwreq'])} mwres={tokens_wp(spec, spec['mwres'], by['mwres'])} "
                f"script={tokens_wp(spec, spec['script'], by['responder'])} custom={'none' if cu is None else 'h:' + tokens_wp(spec, cu['steps'], by['handler'])} "
                f"fd={'-' if o['fd'] is None else o['fd']}")
        sent = ','.join(render_wp(c['m']) + ('' if c['ok'] else '!') for c in o['calls'])
        if not spec['first']:
            return line, f"sent={sent} log= hlog= esc={o['esc']} pub=-"
        log = ','.join(outcome_wp(r) for r in o['steps'] if r['who'] != 'handler')
        hlog = ','.join(outcome_wp(r) for r in by['handler'])
        return line, f"sent={sent} log={log} hlog={hlog} esc={o['esc']} pub={o['pub']}"

    # ---------------------------------------------------------------- the statement oracles
    def valid_code(c):
        return isinstance(c, int) and not (c < 1000 or 1015 <= c <= 1999 or 1004 <= c <= 1006)

    def oracle_monitor(spec, o):
        """the server's view: legal ASGI session, nothing after close or loss, features only when the spec version has them."""
        ver = tuple(map(int, spec['ver'].split('.')))
        st = 'connecting'
        for c in o['calls']:
            ty = c['m'].get('type')
            if c['after_handed']:
                return f"send call #{c['i']} ({c['r']}) begun after the disconnect event had been delivered to the framework"
            if st == 'done':
                return f"send call #{c['i']} ({c['r']}) after a close event had been accepted by the server"
            if ty == 'websocket.accept':
                ill = accept_event_illegal(c['m'], ver)
                if ill: return f"accept event {c['m']!r} is not legal per the ASGI spec: {ill}"
                if st != 'connecting': return f'second accept (state {st})'
                if c['ok']: st = 'open'
            elif ty == 'websocket.send':
                if st != 'open': return f'data event in state {st}'
                if ('text' in c['m']) == ('bytes' in c['m']) and not (c['m'].get('text') is None) != (c['m'].get('bytes') is None):
                    return 'data event without exactly one payload'
            elif ty == 'websocket.close':
                if 'reason' in c['m'] and ver < (2, 3): return f"close reason sent to a spec-{spec['ver']} server"
                if 'reason' in c['m'] and not isinstance(c['m']['reason'], str): return 'close reason is not a str'
                if not valid_code(c['m'].get('code')): return f"close event with invalid code {c['m'].get('code')!r}"
                if c['ok']: st = 'done'
            else:
                return f'unknown event type {ty!r}'
        if ('receive-after-disconnect',) in o['trace']: return 'receive() awaited again after the disconnect event had been delivered'
        if o['esc'] == 'TIMEOUT': return 'the session did not terminate'
        custom_took_over = spec['custom'] is not None and any(r['outcome'] == 'BOOM' and r['catch'] != 2 for r in o['steps'])
        if o['left'] and not custom_took_over: return f"{o['left']} task(s) still running after the application returned"
        return None

    def fault_outcome(spec, on_close):
        """documented translation of a failing server send: (exception seen by the caller, socket becomes closed?, WSD code)"""
        k = spec['fault']
        # the server's exception as the caller sees it when nothing translates it: by its class (and, for a ValueError, what its message says)
        raw = 'OSE' if k.startswith('os') else ('VEI' if k == 'valicc' else 'VEO' if k == 'val' else 'PY')
        if on_close:
            return (raw, False, None)       # close() does not translate
        if k in ('os', 'osicc'): return ('WSD:1000', True, 1000)      # an OSError is a lost connection, whatever it says
        if k == 'os1001': return ('WSD:1001', True, 1001)
        if k == 'ok1000': return ('WSD:1000', True, 1000)
        if k == 'sub': return ('VEO', True, None)
        return (raw, False, None)

    def oracle_table(spec, o):
        """(state, operation) -> documented outcome; payloads received unchanged, in order; exactly the expected server events."""
        ver = tuple(map(int, spec['ver'].split('.')))
        st = 'handshake'; code = None; pump_stopped = False; pump_stopped_send = False; finding3 = None
        nxt = 0            # index of the next client event the application will see
        inbox = spec['events']
        finding = None
        for r in o['steps']:
            tok = r['tok']; k = tok[0]; out = r['outcome']
            calls = o['calls'][r['c0']:r['c1']]
            lostq = spec['q'] > 0 and r['handed'] is not None
            where = f"{r['who']} op {tok} in state {st}{' (disconnect delivered to the pump)' if lostq else ''}"
            r['ost'] = 'accepted_pump_saw_disconnect' if (lostq and st == 'accepted') else st

            def one_call(kind, on_close=False):
                """exactly one send call of the given type was made; returns (error text | None, succeeded?)"""
                if len(calls) != 1 or calls[0]['m'].get('type') != kind:
                    return f"{where}: expected exactly one {kind} event, the server saw {[c['r'] for c in calls]}", False
                return None, calls[0]['ok']
            abandon = False
            if k == 'K':
                # an operation the responder gives up if it has to wait: judged as the operation it is, plus the abandoned outcome
                abandon = True; tok = ('R' + tok[1]) if tok[1] in 'tdm' else ('St' if tok[1] == 's' else 'Sb'); k = tok[0]
                if out == 'CAN' and not r.get('parked'): return f'{where}: harness error (abandoned without having been parked)'
            if k in 'HTXBE':
                want = foreign_want(tok) if k == 'E' else {'H': 'HE:' + tok[1:], 'T': 'HS:' + tok[1:], 'X': 'PY', 'B': 'BOOM'}[k]
                if out != want or calls: return f'{where}: harness error (the scripted raise gave {out}, wanted {want}; events {[c["r"] for c in calls]})'
                continue
            if tok == 'Ag':
                acc = r['acc']; shown = dict(acc, headers=('(generator)' if acc['container'] == 'gen' else build_headers(acc)))
                where += f' accept(subprotocol={acc["sub"]!r}, headers={shown["headers"]!r}) [{acc["container"]}]'
                if st == 'closed' or lostq or st == 'accepted': want, exp_ev = 'ONA', None
                else: want, exp_ev = accept_expectation(acc, ver)
                if want == 'ok':
                    err, ok = one_call('websocket.accept')
                    if err: return err
                    m = calls[0]['m']
                    got_ev = dict(m)
                    if 'headers' in got_ev:
                        try: got_ev['headers'] = [tuple(h) for h in got_ev['headers']]
                        except TypeError: pass
                    if got_ev != exp_ev: return f'{where}: the accept event is {m!r}, the arguments ask for {exp_ev!r}'
                    if ok: want = 'ok'; st = 'accepted'
                    else:
                        want, closed, c = fault_outcome(spec, False)
                        if closed: st = 'closed'; code = c
                    if out != want: return f'{where}: got {out}, the documented outcome is {want}'
                    continue
                if calls: return f'{where}: the call must raise ({want}) and send nothing, yet the server saw {[c["m"] for c in calls]}'
                if want == 'RAISES':
                    if out == 'ok': return f'{where}: arguments outside the documented types were accepted silently (nothing sent, no exception)'
                elif out != want:
                    return f'{where}: got {out}, the documented outcome is {want} and nothing sent'
                continue
            if k == 'A':
                if st == 'closed' or lostq or st == 'accepted': want = 'ONA'
                elif tok[3] == '1': want = 'VEO'
                elif tok[1] == '1' and ver < (2, 1): want = 'ONA'
                else:
                    err, ok = one_call('websocket.accept')
                    if err: return err
                    m = calls[0]['m']
                    if bool(m.get('headers')) != (tok[1] == '1') or (m.get('subprotocol') == 'chat') != (tok[2] == '1'):
                        return f'{where}: accept event {m!r} does not carry the requested headers/subprotocol'
                    if tok[1] == '1' and sorted(m['headers'])[0] != (b'x-case', b'v'):
                        return f'{where}: accept headers {m["headers"]!r} are not the lower-cased byte pairs'
                    if ok:
                        want = 'ok'; st = 'accepted'
                    else:
                        want, closed, c = fault_outcome(spec, False)
                        if closed: st = 'closed'; code = c
                    if out != want: return f'{where}: got {out}, the documented outcome is {want}'
                    continue
                if out != want or calls: return f'{where}: got {out} with events {[c["r"] for c in calls]}, the documented outcome is {want} and nothing sent'
            elif k == 'W':
                # send_text / send_data with a payload of the wrong type.  "Operations in the wrong state raise the documented errors": the STATE of the
                # connection comes first (OperationNotAllowed before accept, WebSocketDisconnected once closed or lost - what ends a responder's send loop);
                # on an accepted socket the wrong payload type is reported (TypeError); in no case does an event reach the server
                bad_t = r.get('submitted', ('', '?'))[1]
                where += f" {'send_text' if tok == 'Wt' else 'send_data'}(<{bad_t}>)"
                got = 'TypeError' if (out == 'PY' and r.get('exc') == 'TypeError') else (out if out != 'PY' else 'PY(' + str(r.get('exc')) + ')')
                if calls: return f'{where}: a payload of the wrong type must not reach the server, which saw {[c["m"] for c in calls]} (outcome {got})'
                if st == 'handshake': want = 'ONA'
                elif st == 'closed': want = f'WSD:{code or 1000}'
                elif lostq and out == f"WSD:{r['handed'] or 1000}":
                    # the pump has seen the disconnect, the application has not: the statement does not order the two errors here; either is accepted
                    st = 'closed'; code = r['handed']; continue
                else: want = 'TypeError'
                if got != want: return f'{where}: got {got}, the documented outcome is {want} and nothing sent'
                continue
            elif k == 'S':
                if st == 'handshake': want = 'ONA'
                elif st == 'closed': want = f'WSD:{code or 1000}'
                elif r['submitted'][0] == 'badmedia': want = 'PY'       # the media handler's serialize raised: an argument error, nothing is sent
                elif lostq:
                    want = f"WSD:{r['handed'] or 1000}"; st = 'closed'; code = r['handed']
                else:
                    err, ok = one_call('websocket.send')
                    if err: return err
                    m = calls[0]['m']; kind, val = r['submitted']
                    good = ((kind == 'text' and m.get('text') == val and m.get('bytes') is None) or
                            # a document arrives unchanged: the peer reads the same members with the same values IN THE SAME ORDER (dict == is blind to a reordering)
                            (kind == 'media' and m.get('bytes') is None and isinstance(m.get('text'), str) and read_ordered(m['text']) == ordered(val)) or
                            (kind == 'bytes' and m.get('bytes') == val and type(m['bytes']) is bytes and m.get('text') is None) or
                            (kind == 'binmedia' and type(m.get('bytes')) is bytes and m['bytes'][:2] == b'\x00J' and read_ordered(m['bytes'][2:].decode('utf-8')) == ordered(val)
                             and m.get('text') is None))
                    if not good:
                        how = ''
                        if kind in ('media', 'binmedia'):
                            try:
                                txt = m['text'] if kind == 'media' else m['bytes'][2:].decode('utf-8')
                                if json.loads(txt) == json.loads(dumps(val)): how = ' (same members, written in another ORDER)'
                            except Exception: pass  # noqa
                        return f'{where}: payload {val!r} ({kind}) reached the server as {m!r}{how}'
                    if abandon:
                        # the server had not taken the event when the responder cancelled the call: nothing was delivered, the socket is as it was
                        if not calls[0].get('cancelled'): return f'{where}: harness error (the send to be cancelled was not held by the server)'
                        want = 'CAN'
                    elif ok: want = 'ok'
                    else:
                        want, closed, c = fault_outcome(spec, False)
                        if closed: st = 'closed'; code = c
                    if out != want: return f'{where}: got {out}, the documented outcome is {want}'
                    continue
                if out != want or calls: return f'{where}: got {out} with events {[c["r"] for c in calls]}, the documented outcome is {want} and nothing sent'
            elif k == 'R':
                if calls: return f'{where}: a receive handed events {[c["r"] for c in calls]} to the server'
                if st == 'handshake': want = 'ONA'
                elif st == 'closed': want = f'WSD:{code or 1000}'
                elif pump_stopped:
                    if out == 'AE':
                        finding = f'{where}'
                        continue
                    return f'{where}: pump stopped by a rejected close, got {out}'
                elif pump_stopped_send and out == 'AE':
                    finding3 = f'{where}'
                    continue
                elif abandon and nxt < len(inbox) and inbox[nxt]['type'] == 'idle':
                    # nothing to receive and the client stays idle: the receive waits, the responder gives it up; nothing is consumed, nothing changes
                    want = 'CAN'
                else:
                    while nxt < len(inbox) and inbox[nxt]['type'] == 'idle':
                        nxt += 1           # a plain receive waits; the idle client resumes
                    if nxt >= len(inbox):
                        want = 'PY'      # the server's receive raised (queue 0 only)
                        if out != want: return f'{where}: got {out}, the documented outcome is {want}'
                        continue
                    ev = inbox[nxt]; nxt += 1
                    if ev['type'] == 'websocket.disconnect':
                        c = ev.get('code', 1000); want = f'WSD:{c}'; st = 'closed'; code = c
                    else:
                        # the statement: receive_text needs a text payload, receive_data a binary one (else PayloadTypeError); receive_media
                        # hands the payload to the handler of its type; the value is the client's payload, unchanged
                        exp = None; text = ev.get('text'); data = ev.get('bytes')

                        def via_text():
                            try: return 'ok', json.loads(text)
                            except ValueError: return 'VEO', None

                        def via_bytes():
                            if not spec['binh']: return 'PY', None            # no msgpack: MissingDependencyHandler
                            try:
                                if data[:2] != b'\x00J': raise ValueError
                                return 'ok', json.loads(data[2:].decode('utf-8'))
                            except ValueError: return 'VEO', None
                        if tok == 'Rt': want = 'ok' if text is not None else 'PTE'; exp = text
                        elif tok == 'Rd': want = 'ok' if data is not None else 'PTE'; exp = data
                        elif text is not None and data is not None:
                            # outside the ASGI spec (two payloads): the statement does not say which handler is used; either is accepted
                            want, exp = via_text()
                            alt = via_bytes()
                            if out == alt[0] and (out != 'ok' or (r.get('value') == alt[1] and type(r.get('value')) is type(alt[1]) and ordered(r.get('value')) == ordered(alt[1]))):
                                want, exp = alt
                        elif text is not None: want, exp = via_text()
                        elif data is not None: want, exp = via_bytes()
                        else: want = 'PTE'
                        if out == 'ok' and want == 'ok' and (r.get('value') != exp or type(r.get('value')) is not type(exp)
                                                              or (tok == 'Rm' and ordered(r.get('value')) != ordered(exp))):
                            return f'{where}: client message #{nxt - 1} {ev!r} arrived as {r.get("value")!r}'
                if out != want: return f'{where}: got {out}, the documented outcome is {want}'
            elif k == 'C':
                a = tok[1:]; reason = a.endswith('+'); a = a.rstrip('+')
                cd = 1000 if a == 'n' else (None if a == 'x' else int(a))
                if spec['q'] > 0 and st == 'accepted': stops = True
                else: stops = False
                if cd is None: want = 'VEO'
                elif not valid_code(cd): want = 'VEI'
                elif st == 'closed' or lostq:
                    want = 'ok'
                    if st != 'closed' and out == 'ok':      # the disconnect the pump saw is recorded: later ops raise WebSocketDisconnected(code)
                        st = 'closed'; code = r['handed']
                else:
                    err, ok = one_call('websocket.close', True)
                    if err: return err
                    m = calls[0]['m']
                    if m.get('code') != cd: return f'{where}: close event carries code {m.get("code")!r}, requested {cd}'
                    has_reason = (reason or cd in o['reasons']) and ver >= (2, 3)
                    if ('reason' in m) != has_reason: return f'{where}: close event {m!r}: reason present = {"reason" in m}, expected {has_reason} on spec {spec["ver"]}'
                    if reason and has_reason and m['reason'] != 'because': return f'{where}: close reason {m["reason"]!r} is not the one given'
                    if ok: want = 'ok'; st = 'closed'; code = cd
                    else:
                        want = fault_outcome(spec, True)[0]
                        if stops: pump_stopped_send = True
                    if out != want: return f'{where}: got {out}, the documented outcome is {want}'
                    continue
                if out != want or calls: return f'{where}: got {out} with events {[c["r"] for c in calls]}, the documented outcome is {want} and nothing sent'
                if stops and want in ('VEO', 'VEI'): pump_stopped = True
        o['o_state'] = (st, code)
        return ('FINDING', finding, finding3) if (finding or finding3) else None

    def oracle_tail(spec, o):
        """what the framework itself does after the scripts: the close that is always sent, its code, what may escape."""
        if not spec['first']:
            c = o['calls']
            if len(c) != 1 or c[0]['m'].get('type') != 'websocket.close' or c[0]['m'].get('code') != 1011:
                return f"first event was not connect: expected a single close 1011, the server saw {[x['r'] for x in c]}"
            if o['esc'] != '-' and c[0]['ok']: return f"exception {o['esc']} escaped although the close was delivered"
            return None
        steps = o['steps']
        scripted = [r for r in steps if r['who'] != 'handler']
        hsteps = [r for r in steps if r['who'] == 'handler']
        n_script_calls = max([r['c1'] for r in steps], default=0)
        tail = o['calls'][n_script_calls:]
        if any(c['m'].get('type') != 'websocket.close' for c in tail):
            return f"the framework sent {[c['r'] for c in tail]} after the scripts ended"
        # how did the scripted part end?
        last = scripted[-1]['outcome'] if scripted else 'ok'
        planned = len(spec['mwreq']) + (len(spec['mwres']) + len(spec['script']) if spec['route'] == 'r' else len(spec['mwres']) if spec['route'] == 'n' else 0)
        raised = None

        def caught(r):
            if r['outcome'] == 'CAN': return True      # the responder gave the operation up and went on
            return r['catch'] == 2 or (r['catch'] == 1 and r['outcome'].split(':')[0] in ('ONA', 'WSD', 'PTE', 'VEI', 'VEO'))
        if scripted and last != 'ok' and not caught(scripted[-1]):
            raised = last
        elif len(scripted) == planned and spec['route'] == 'u': raised = 'HE:404'
        elif len(scripted) == planned and spec['route'] == 'n': raised = 'HE:405'
        elif len(scripted) != planned: return f'{len(scripted)} middleware/responder steps ran, the routing outcome {spec["route"]!r} allows {planned} (process_resource_ws without a routed resource, or steps skipped)'
        errcode = spec['err'] if valid_code(spec['err']) else 3011
        handled_by_custom = False
        if raised is None: expect = 1000; ending = 'return'
        elif raised.startswith('HE:') or raised.startswith('HS:'): expect = 3000 + int(raised[3:]); ending = 'http'
        elif raised == 'BOOM' and spec['custom'] is not None:
            handled_by_custom = True
            hl = hsteps[-1]['outcome'] if hsteps else 'ok'
            hraised = None
            if hsteps and hl != 'ok' and not caught(hsteps[-1]): hraised = hl
            if hraised is None: expect = None; ending = 'custom-returned'
            elif hraised.startswith('HE:') or hraised.startswith('HS:'): expect = 3000 + int(hraised[3:]); ending = 'http'
            else: expect = None; ending = 'custom-raised:' + hraised
        else: expect = errcode; ending = 'error'
        if not handled_by_custom and hsteps: return 'custom error handler ran although the application exception was not raised'
        # the socket as the statement sees it after the scripts
        st, _ = o.get('o_state', ('handshake', None))
        lost = o['handed'] is not None
        open_ = st != 'closed' and not lost
        if ending.startswith('custom-raised'):
            if tail: return f"custom handler raised {ending[14:]}; the framework still sent {[c['r'] for c in tail]}"
            if o['esc'] != ending[14:]: return f"custom handler raised {ending[14:]} but {o['esc']} reached the server"
            return None
        if ending == 'custom-returned':
            if tail: return f"custom handler returned; the framework still sent {[c['r'] for c in tail]}"
            if o['esc'] != '-': return f"custom handler returned but {o['esc']} escaped"
            return None
        if not open_:
            if tail: return f"socket already closed/lost, yet the framework sent {[c['r'] for c in tail]}"
            if o['esc'] != '-': return f"{o['esc']} escaped to the server although no server send failed in the framework's own close"
            return None
        # still connected: a close (or 403 denial) must be attempted with the documented code - and the SERVER may refuse it (any exception class):
        # a refusal that names the close code as the reason ('invalid close code', as Autobahn/Daphne do for 1011) makes the framework's error
        # close fall back to 3011; whenever a close is delivered nothing escapes; if none can be delivered the failure is reported to the server
        icc = fault_icc(spec['fault'])
        pos = [0]

        def attempt(code, why):
            """the next event of the tail must be a close with `code`; -> (delivered?, error text)"""
            if pos[0] >= len(tail):
                return None, (f"responder ended ({ending}: {raised}) without closing while the client is still connected, but no close event was sent" if pos[0] == 0 else
                              f"{why}, but the framework did not try close code {code}: the server saw only {[c['r'] + ('' if c['ok'] else '!') for c in tail]}"
                              + (f" and {o['esc']} escaped" if o['esc'] != '-' else ''))
            c = tail[pos[0]]
            if c['m'].get('code') != code:
                return None, (f"ending {ending} ({raised}): close code {c['m'].get('code')} sent, documented code is {code}" if pos[0] == 0 else
                              f"{why}: close code {c['m'].get('code')} sent, expected {code}")
            pos[0] += 1
            return c['ok'], None

        def error_close():
            """the close of an unexpected error: error_close_code (3011 when falcon itself rejects that code); -> (delivered?, error text)"""
            if valid_code(spec['err']):
                ok, bad = attempt(spec['err'], 'an unexpected error closes the socket with error_close_code')
                if bad or ok: return ok, bad
                if not icc: return False, None       # the server failed without naming the code: nothing more is demanded
                return attempt(3011, f"the server refused close code {spec['err']} saying 'invalid close code' ({type(mkfault(spec['fault'])).__name__})")
            return attempt(3011, 'error_close_code is not a valid close code')
        if ending == 'return':
            delivered, bad = attempt(1000, 'the responder returned')
            if not bad and not delivered:
                delivered, bad = error_close()          # the failed close is an unexpected error like any other
        elif ending == 'http':
            delivered, bad = attempt(expect, 'HTTP error / status')
        else:
            delivered, bad = error_close()
        if bad: return bad
        if pos[0] != len(tail): return f"unexpected further events after the close attempts: {[c['r'] + ('' if c['ok'] else '!') for c in tail]}"
        if delivered:
            if o['esc'] != '-': return f"{o['esc']} escaped to the server although the close {tail[-1]['r']} was delivered"
            return None
        if o['esc'] == '-': return 'no close could be delivered (every attempt failed at the server) but nothing was reported to the server'
        return None

    ORA_HANDLER = ('a custom error handler that declares a parameter named ws - in whatever signature shape: positional-or-keyword, keyword-only, with or without default, '
                   'next to *args / **kwargs / other parameters; function, bound method, callable object, functools.partial - receives the connection\'s WebSocket, and when '
                   'it is the one responsible for closing, a close / denial is delivered while the client is still connected')

    def oracle_handler(spec, o):
        """the custom error handler as the statement sees it: it is handed the live socket whenever it declares `ws`; a handler whose whole job is to
        close the socket (close / send + close, working server, client still there) leaves a session in which a close or denial was delivered."""
        cu = spec['custom']
        if cu is None or not spec['first'] or not o['hcalls']: return None
        sig, carrier = cu.get('sig', 'pk_default' if cu['ws'] else 'absent'), cu.get('carrier', 'function')
        shown = handler_source(sig, carrier).split('\n')[0]
        saw = [c['r'] + ('' if c['ok'] else '!') for c in o['calls']]
        if HANDLER_SHAPES[sig][2]:
            for got in o['hcalls']:
                if got != 'live':
                    return (f"the custom error handler `{shown}` ({carrier}) declares a parameter named ws, but on this WebSocket connection it was called with ws = {got} "
                            f"(documented: the ws keyword argument receives the WebSocket object); the server saw {saw}, the client "
                            f"{'is still connected' if o['handed'] is None else 'has left'}")
        closing = [s for s in cu['steps'] if s['tok'][0] == 'C']
        simple = all((s['tok'] in ('C4002', 'Cn', 'C3001', 'C1000', 'C4999') and s['catch'] == 0) or (s['tok'] == 'St' and s['catch'] >= 1) for s in cu['steps'])
        if cu['ws'] and closing and simple and spec['fail'] is None and not spec.get('refuse') and o['handed'] is None and o['esc'] == '-':
            if not any(c['m'].get('type') == 'websocket.close' and c['ok'] for c in o['calls']):
                return (f"the application exception was handled by the custom error handler `{shown}` whose script {[s['tok'] for s in cu['steps']]} closes the socket; the application returned "
                        f"to the server, the client is still connected, and no close / denial was ever delivered: the server saw {saw}")
        return None

    sess = ctx.session('falcon.asgi.App websocket session = Ws model (handleMw)', 'wsdriver')
    sess_wp = ctx.session('falcon.asgi.App websocket session with payloads (hex of every payload sent / value received) = Wp model (handleMw)', 'wpdriver')
    F_NAME = 'receive in accepted state delivers the next message'
    known_recorded = [0]
    F_WHAT = 'receive_*() raised AssertionError after a rejected close(): the failed close stopped the pump (max_receive_queue > 0)'
    F3_WHAT = 'receive_*() raised AssertionError after a close() whose server send raised: the failed close stopped the pump (max_receive_queue > 0)'

    async def one(spec, origin):
        o = await session(spec)
        wline, wreply = line_and_reply_wp(spec, o)
        sess_wp.case({'spec': {k: v for k, v in spec.items() if k != 'yields'}, 'origin': origin})
        sess_wp.op(wline, wreply)
        if spec['wp_only']:
            line = wline        # client events / documents the kind-level model has no kind for
        else:
            line, reply = line_and_reply(spec, o)
            sess.case({'spec': {k: v for k, v in spec.items() if k != 'yields'}, 'origin': origin})
            sess.op(line, reply)
        case = {k: spec[k] for k in ('ver', 'q', 'first', 'route', 'inbox', 'events', 'starve', 'fail', 'fault', 'err', 'binh', 'mw_present', 'yields')}
        case['server'] = {'close_codes_refused': spec.get('refuse', []), 'send_raises': repr(mkfault(spec['fault'], {'code': spec['err']})), 'at_call': spec['fail']}
        def shown(s):
            base = (s['tok'], s['catch'], s['var'], s['pay'])
            if s['tok'] in ('Wt', 'Wb'): return base + ({'wrong_type_payload': s['bad'], 'call': ('send_text' if s['tok'] == 'Wt' else 'send_data') + '(%s)' % ('memoryview(%r)' % bytes(s['pay']['data']) if s['bad'] == 'memoryview' else repr(bad_payload(s['bad'], s['pay'])))},)
            if s.get('sub'): return base + ({'payload_is_a_str_subclass': True},)
            if s['tok'] == 'Ag': return ('Ag', s['catch'], s['var'], {'subprotocol': s['acc']['sub'], 'headers_container': s['acc']['container'], 'header_items': s['acc']['items']})
            return base
        case['script'] = [shown(s) for s in spec['script']]
        case['mwreq'] = [shown(s) for s in spec['mwreq']]
        case['mwres'] = [shown(s) for s in spec['mwres']]
        cu_ = spec['custom']
        case['custom'] = None if cu_ is None else {'ws': cu_['ws'], 'registered_as': cu_.get('carrier', 'function'),
                                                   'signature': handler_source(cu_.get('sig', 'pk_default' if cu_['ws'] else 'absent'), cu_.get('carrier', 'function')).split('\n')[0],
                                                   'body': 'if ws is not None: run the steps on ws' if cu_['ws'] else 'run the (raise-only) steps',
                                                   'steps': [shown(x) for x in cu_['steps']]}
        seen = {'server_saw': [render_wp(c['m']) + ('' if c['ok'] else '!') for c in o['calls']],
                'ops': [(r['who'], r['tok'], (r['outcome'] + (' (parked, then %s)' % ('asyncio.wait_for timeout' if r.get('how') == 'wait_for' else 'task.cancel()'))) if r['outcome'] == 'CAN' else outcome_wp(r))
                        for r in o['steps']], 'escaped': o['esc']}
        bad = oracle_monitor(spec, o)
        ctx.oracle('events sent to the server form a legal ASGI session (<=1 accept, data only while open, <=1 close, nothing after close/loss, reason/headers only if supported)',
                   bad is None, bad, dict(case, observed=seen))
        bad = oracle_table(spec, o) if spec['first'] else None
        f1 = f3 = None
        if isinstance(bad, tuple):
            f1, f3 = bad[1], bad[2]; bad = None
        # the known class (F25) is recorded for the first 20 sessions of a shard and counted afterwards, so that it can never
        # crowd genuine failures out of the runner's bounded failure list
        if f1 is None and f3 is None:
            ctx.oracle(F_NAME, True)
        elif known_recorded[0] < 20:
            known_recorded[0] += 1
            if f1: ctx.oracle(F_NAME, False, F_WHAT, dict(case, observed=seen, where=f1))
            if f3: ctx.oracle(F_NAME, False, F3_WHAT, dict(case, observed=seen, where=f3))
        if f3: ctx.count('finding_receive_after_close_whose_send_failed')
        if f1: ctx.count('finding_receive_after_rejected_close')
        ctx.oracle('every operation has its documented outcome for the state it is called in; payloads unchanged and in order',
                   bad is None, bad, dict(case, observed=seen))
        tail_bad = oracle_tail(spec, o) if bad is None else None
        ctx.oracle('a close with the documented code (1000 / 3404 / 3405 / 3000+status / error_close_code / 3011) is always sent while the client is connected; nothing escapes without a failing send',
                   tail_bad is None, tail_bad, dict(case, observed=seen))
        hbad = oracle_handler(spec, o)
        ctx.oracle(ORA_HANDLER, hbad is None, hbad, dict(case, observed=dict(seen, handler_was_handed=o['hcalls'])))
        if cu_ is not None and o['hcalls']:
            ctx.count('error_handler_signature_' + cu_.get('sig', '?')); ctx.count('error_handler_registered_as_' + cu_.get('carrier', '?'))
            if cu_['ws'] and o['hcalls'][0] == 'live':
                ctx.count('error_handler_declaring_ws_was_handed_the_live_socket')
                if any(c['m'].get('type') == 'websocket.close' and c['ok'] and c['i'] >= min([r['c0'] for r in o['steps'] if r['who'] == 'handler'], default=1 << 30) for c in o['calls']):
                    ctx.count('error_handler_closed_the_socket_' + ('keyword_only_ws' if 'kwonly' in cu_.get('sig', '') or (cu_.get('carrier') == 'partial' and cu_.get('sig') == 'extra_then_pk_default') else 'positional_or_keyword_ws'))
            if not cu_['ws']: ctx.count('error_handler_without_ws_parameter_was_handed_' + o['hcalls'][0].split(':')[0])
        ctx.seen(line, bool(o['calls']))
        ctx.count('q_%d' % spec['q']); ctx.count('ver_' + spec['ver']); ctx.count('origin_' + origin)
        ctx.count('route_' + spec['route'])
        if spec['fail'] is not None and any(c['ok'] is False and not c.get('refused') for c in o['calls']): ctx.count('send_fault_hit_' + spec['fault'])
        refused = [c for c in o['calls'] if c.get('refused')]
        if refused:
            ctx.count('server_refused_a_close_code_raising_' + spec['fault'])
            n_script_calls = max([r['c1'] for r in o['steps']], default=0)
            if any(c['i'] >= n_script_calls for c in refused):
                ctx.count('server_refused_the_framework_own_close_' + ('naming_the_code_' if fault_icc(spec['fault']) else 'without_naming_the_code_') + type(mkfault(spec['fault'])).__name__)
                if o['calls'][-1]['ok'] and o['calls'][-1]['m'].get('code') == 3011: ctx.count('fallback_3011_delivered_after_a_refused_close')
        if any(r['tok'] in ('St', 'Sb') and r.get('submitted', ('',))[0] in ('media', 'binmedia') and r['outcome'] == 'ok' and isinstance(r['submitted'][1], (dict, list))
               and doc_shape(r['submitted'][1]) for r in o['steps']):
            ctx.count('media_document_sent_with_unsorted_or_mixed_type_keys')
        if spec['custom'] is not None and any(r['who'] == 'handler' for r in o['steps']) or (spec['custom'] is not None and spec['custom']['steps'] == [] and 'BOOM' in [r['outcome'] for r in o['steps']]):
            ctx.count('custom_handler_ran')
        if spec['mwreq'] or spec['mwres']: ctx.count('with_ws_middleware')
        if any(r['disc'] is not None for r in o['steps']): ctx.count('op_observed_disconnect_flag')
        if o['fd'] is not None: ctx.count('final_flag_set')
        if o['left']: ctx.count('pump_left_running_by_custom_error_handler_without_close')
        for r in o['steps']:
            ctx.count('outcome_' + r['outcome'].split(':')[0])
            if r['outcome'] == 'CAN':
                ctx.count('abandoned_%s_%s_q%d' % ('receive' if r['tok'][1] in 'tdm' else 'send_in_flight', r.get('how'), spec['q']))
            elif r['tok'][0] == 'K' and r['tok'][1] in 'tdm' and r['outcome'].startswith('ok'):
                ctx.count('abandonable_receive_found_a_message')
            if r['tok'] in ('Wt', 'Wb') and 'ost' in r:
                entry = 'send_text' if r['tok'] == 'Wt' else 'send_data'
                ctx.count('wrong_type_%s_in_%s' % (entry, r['ost'])); ctx.count('wrong_type_%s_%s' % (entry, r['submitted'][1]))
            elif r['tok'] == 'Sx' and 'ost' in r: ctx.count('unserialisable_send_media_in_' + r['ost'])
            elif r['tok'] == 'St' and r.get('submitted', ('',))[0] == 'text' and 'ost' in r and any(s_.get('sub') for s_ in spec['script'] + spec['mwreq'] + spec['mwres']):
                ctx.count('session_with_str_subclass_send_text')
            if r['tok'] == 'Ag':
                a = r['acc']
                ctx.count('accept_args_headers_' + str(a['container']))
                if any(isinstance(it, tuple) and len(it) == 2 and isinstance(it[0], str) and it[0].lower() == FORBIDDEN and it[0] != FORBIDDEN for it in a['items']):
                    ctx.count('accept_args_forbidden_header_in_mixed_case')
                elif any(isinstance(it, tuple) and len(it) == 2 and it[0] == FORBIDDEN for it in a['items']):
                    ctx.count('accept_args_forbidden_header_lower_case')
            if r['tok'][0] == 'E':
                ctx.count('foreign_error_' + r['tok'][1:4] + '_' + r.get('via', '?') + ('_in_' + r['who'] if r['who'] != 'responder' else ''))
        fe = [r for r in o['steps'] if r['tok'][0] == 'E' and r['who'] != 'handler' and r['catch'] == 0]
        if fe and o.get('o_state', ('closed',))[0] != 'closed' and o['handed'] is None:
            ctx.count('foreign_error_escaped_while_client_connected_' + o['o_state'][0])
        ctx.count('esc_' + o['esc'].split(':')[0])

    # ---------------------------------------------------------------- accept() arguments on directly constructed sockets = Wa model
    sess_wa = ctx.session('WebSocket.accept(subprotocol, headers): outcome and the exact accept event = Wa model (accept)', 'wadriver')
    ORA_ACC = ('accept() arguments: the accept event is legal per the ASGI spec (lower-case byte header names, never sec-websocket-protocol, headers only from spec 2.1) '
               'and carries exactly the given headers / subprotocol, or the documented error is raised and nothing is sent')

    async def accept_call(ver, state, fail, acc, origin):
        sent = []

        async def rcv():
            raise RuntimeError('harness: accept() must not receive')

        armed = [None]

        async def snd(m):
            sent.append(dict(m))
            if fail and armed[0] is not None and len(sent) == armed[0] + 1: raise RuntimeError('server send exploded')
        ws = wsmod.WebSocket(ver, {'subprotocols': ['chat', 'other']}, rcv, snd, wsmod.WebSocketOptions().media_handlers, 0, {})
        if state == 'a': await ws.accept()
        elif state == 'c': await ws.close()
        n0 = armed[0] = len(sent)
        kw = {}
        if acc['sub'] is not None: kw['subprotocol'] = acc['sub']
        if acc['container'] is not None: kw['headers'] = build_headers(acc)
        try:
            await ws.accept(**kw); out = 'ok'
        except Exception as e:  # noqa
            out = exname(e)
        new = sent[n0:]
        v = tuple(map(int, ver.split('.')))

        def hb(b):
            return '-' if not b else '.'.join('%x' % x for x in b)
        if not new: evs = '-'
        else:
            m = new[0]; hs = m.get('headers')
            try:
                htxt = '-' if 'headers' not in m else ('=' if not hs else '_'.join(hb(a) + '/' + hb(b) for a, b in hs))
            except Exception:  # noqa
                htxt = '?' + repr(hs).replace(' ', '')
            evs = 'acc:%d:%s' % (1 if m.get('subprotocol') is not None else 0, htxt) + ('' if len(new) == 1 and m.get('type') == 'websocket.accept' else '?%d' % len(new))
        sess_wa.case({'spec_version': ver, 'state': state, 'server_send_fails': fail, 'subprotocol': acc['sub'], 'headers_container': acc['container'], 'header_items': acc['items']})
        sess_wa.op(f"acc supH={0 if ver == '2.0' else 1} st={state} disc=- fail={1 if fail else 0} tok={acc_tok(acc)[1:]}", f'{out} {evs}')
        # the statement, independently
        bad = None
        for m in new:
            ill = accept_event_illegal(m, v) if m.get('type') == 'websocket.accept' else f'event {m!r} sent by accept()'
            if ill: bad = bad or f'the server was handed {m!r}: {ill}'
        if not bad:
            if state != 'h': want, exp_ev = 'ONA', None
            else: want, exp_ev = accept_expectation(acc, v)
            if want == 'ok':
                got = [dict(m, headers=[tuple(h) for h in m['headers']]) if 'headers' in m else m for m in new]
                if got != [exp_ev]: bad = f'the server was handed {new!r}, the arguments ask for exactly {exp_ev!r}'
                elif out != ('PY' if fail else 'ok'): bad = f'got {out}, expected {"the server error" if fail else "a normal return"}'
                elif not fail and not ws.ready: bad = 'accept() returned but the socket is not ready'
            else:
                if new: bad = f'the call must raise ({want}) and send nothing, yet the server was handed {new!r}'
                elif want == 'RAISES':
                    if out == 'ok': bad = 'arguments outside the documented types were accepted silently'
                elif out != want: bad = f'got {out}, the documented outcome is {want}'
                if not bad and state == 'h' and not ws.unaccepted: bad = 'the refused accept() changed the state of the socket'
        shown = {'spec_version': ver, 'state': {'h': 'handshake', 'a': 'accepted', 'c': 'closed'}[state], 'server_send_fails': fail,
                 'accept': {'subprotocol': acc['sub'], 'headers_container': acc['container'], 'header_items': acc['items']}, 'outcome': out, 'server_saw': new}
        ctx.oracle(ORA_ACC, bad is None, bad, shown)
        ctx.seen(('acc', ver, state, fail, acc_tok(acc), acc['container']), bool(new))
        ctx.count('accept_call_' + origin); ctx.count('accept_call_outcome_' + out.split(':')[0])

    async def accept_calls():
        rnd = ctx.rng
        i, k = ctx.shard
        if i == 0:
            # the table fact the Wa model rests on: U+212A is the only non-ASCII code point whose str.lower() is pure ASCII
            odd = [c for c in range(0x80, 0x110000) if c != 0x212A and chr(c).lower().isascii()]
            sess_wa.case({'table': 'non-ASCII code points whose str.lower() is ASCII, other than U+212A'})
            sess_wa.op('acc supH=1 st=h disc=- fail=0 tok=gn~Lps212a/s', 'ok acc:0:6b/-' if not odd else 'str.lower table differs: %r' % odd[:5])
        # directed: the forbidden name in every single-letter spelling, lower, UPPER, Canonical x container x subprotocol x spec version
        base = FORBIDDEN
        spellings = [base, base.upper(), 'Sec-WebSocket-Protocol', 'Sec-Websocket-Protocol'] + [base[:j] + base[j].upper() + base[j + 1:] for j in range(len(base)) if base[j].isalpha()]
        spellings += [n for n in NEAR_MISS] + [n.upper() for n in NEAR_MISS[:6]]
        j = 0
        for name in spellings:
            for container in ('list', 'tuple', 'lists', 'dict', 'gen'):
                for sub in (None, 'chat'):
                    for ver in ('2.0', '2.1', '2.2', '2.3', '2.4'):
                        for pos in (0, 1):
                            j += 1
                            if j % k != i: continue
                            items = [(name, 'chat')] if pos == 0 else [('X-First', '1'), (name, 'chat')]
                            await accept_call(ver, 'h', False, {'sub': sub, 'container': container, 'items': items}, 'directed')
        for _ in range(ctx.n(6000, 60000)):
            await accept_call(rnd.choice(['2.0', '2.1', '2.1', '2.2', '2.3', '2.4']), rnd.choice(['h'] * 8 + ['a', 'c']), rnd.random() < 0.08, gen_accept_args(rnd), 'random')

    # ---------------------------------------------------------------- entry point x argument type x connection state = Wt model
    sess_wt = ctx.session('send_text / send_data / send_media / receive_text / receive_data / receive_media x argument type x connection state, through falcon.asgi.App: '
                          'outcome class, events handed to the server, public properties after every call = Wt model (run)', 'wtdriver')
    ORA_WT = ('entry points x argument types x states: a call whose argument is not of the documented type raises and hands nothing to the server; a call made before accept() raises '
              'OperationNotAllowed, after a close / disconnect WebSocketDisconnected, whatever the argument; every websocket.send event carries exactly one of text (a str) / bytes (a bytes); '
              'receive_text returns a str, receive_data a bytes, or raises')

    class BytesSub(bytes):
        """an application's own bytes subclass"""

    def wt_arg(kind, j):
        text = 'p%d€' % j; data = bytes([j % 256, 0, 255])
        return {'str': text, 'strsub': StrSub(text), 'bytes': data, 'bytessub': BytesSub(data), 'bytearray': bytearray(data), 'memoryview': memoryview(data),
                'none': None, 'int': j, 'other': [1, 2] if j % 2 else {'k': 1}}[kind]

    def wt_event(tok, k):
        if tok[0] == 'd':
            return {'type': 'websocket.disconnect'} if tok[1:] == '-' else {'type': 'websocket.disconnect', 'code': int(tok[1:])}
        e = {'type': 'websocket.receive'}
        if tok[1] != 'm': e['text'] = None if tok[1] == 'n' else json.dumps({'t': k})
        if tok[2] != 'm': e['bytes'] = None if tok[2] == 'n' else b'\x00J' + json.dumps({'b': k}).encode()
        return e

    async def wt_case(spec, origin):
        """spec: setup h | a | c<code>, q, inbox (event tokens), ops (op tokens)"""
        inbox = list(spec['inbox']); q = spec['q']
        evq = [{'type': 'websocket.connect'}] + [wt_event(t, k) for k, t in enumerate(inbox)]
        taken = [0]; sent = []
        never = asyncio.get_running_loop().create_future()

        async def receive():
            if evq:
                taken[0] += 1
                return evq.pop(0)
            if q:
                await never            # the pump waits for the next event of an idle client
            raise RuntimeError('server receive exploded')

        async def send(m):
            sent.append(dict(m))
        rec = {'outs': [], 'discs': [], 'script_sent': [], 'cc': '-', 'bad': None, 'ran': False}

        def flag(ws):
            br = ws._buffered_receiver
            return br.client_disconnected_code if br.client_disconnected else None

        async def settle():
            for _ in range(len(inbox) + 4):
                await asyncio.sleep(0)

        class Res:
            async def on_websocket(self, req, ws):
                setup = spec['setup']
                if setup != 'h':
                    await ws.accept(); await settle()
                if setup[0] == 'c':
                    d0 = flag(ws)
                    await ws.close(int(setup[1:]))
                    rec['cc'] = str(int(setup[1:]) if d0 is None else d0)      # a close() that finds the flag set records the client's code instead
                for j, tok in enumerate(spec['ops']):
                    await settle()
                    d = flag(ws); n0 = len(sent); val = None; kind = tok[0]
                    try:
                        if kind == 'T': await ws.send_text(wt_arg(tok[1:], j))
                        elif kind == 'D': await ws.send_data(wt_arg(tok[1:], j))
                        elif kind == 'M':
                            pt = {'t': WebSocketPayloadType.TEXT, 'b': WebSocketPayloadType.BINARY, 'o': [None, 1, 'text'][j % 3]}[tok[1]]
                            media_obj = {'a': j} if tok[2] == '1' else {1, 2}
                            if tok[1] == 't' and j % 2: await ws.send_media(media_obj)          # the default payload type
                            else: await ws.send_media(media_obj, pt)
                        elif tok == 'rt': val = await ws.receive_text()
                        elif tok == 'rd': val = await ws.receive_data()
                        else: val = await ws.receive_media()
                        out = 'ok'
                    except Exception as e:  # noqa
                        out = exname(e)
                        if out == 'PY' and type(e) is TypeError: out = 'SER' if kind == 'M' else 'TE'
                        elif out == 'PY' and isinstance(e, RuntimeError) and 'server receive exploded' in str(e): out = 'SRV'
                    new = sent[n0:]
                    problems = []
                    if out == 'ok':
                        if kind in 'TDM':
                            keys = [k for k in ('text', 'bytes') if new and new[0].get(k) is not None]
                            out = 'sent:' + '+'.join(keys) if len(new) == 1 and new[0].get('type') == 'websocket.send' else 'sent?%d' % len(new)
                            for m in new:
                                okev = (m.get('type') == 'websocket.send' and len(keys) == 1 and
                                        (isinstance(m.get('text'), str) if keys == ['text'] else type(m.get('bytes')) is bytes))
                                if not okev: problems.append(f'the server was handed {m!r}: not a websocket.send event with exactly one of text (str) / bytes (bytes)')
                                else: rec['script_sent'].append(keys[0][0])
                        elif tok == 'rt':
                            out = 'got:text' if isinstance(val, str) else 'got?'
                            if not isinstance(val, str): problems.append(f'receive_text() returned {val!r}')
                        elif tok == 'rd':
                            out = 'got:bytes' if isinstance(val, bytes) else 'got?'
                            if not isinstance(val, bytes): problems.append(f'receive_data() returned {val!r}')
                        else:
                            out = 'got:text' if isinstance(val, dict) and 't' in val else 'got:bytes' if isinstance(val, dict) and 'b' in val else 'got?'
                        if kind in 'TDM' and (setup == 'h' or ws.unaccepted): problems.append('a send returned normally before accept()')
                    else:
                        if new:
                            out += '!sent%d' % len(new)
                            problems.append(f'the call raised {out} yet the server was handed {new!r}')
                    wrong = (kind == 'T' and tok[1:] not in ('str', 'strsub')) or (kind == 'D' and tok[1:] not in ('bytes', 'bytessub', 'bytearray', 'memoryview'))
                    if wrong and not out.startswith(('TE', 'ONA', 'WSD')): problems.append(f'{tok} (an argument of the wrong type) gave {out}')
                    if setup == 'h' and out != 'ONA': problems.append(f'{tok} before accept() gave {out}, documented: OperationNotAllowed')
                    if setup[0] == 'c' and not out.startswith('WSD'): problems.append(f'{tok} after close() gave {out}, documented: WebSocketDisconnected')
                    if problems and rec['bad'] is None: rec['bad'] = f'op {j} ({tok}): ' + '; '.join(problems)
                    rec['outs'].append(out + ':' + ''.join('1' if b else '0' for b in (ws.unaccepted, ws.closed, ws.ready)))
                    rec['discs'].append('-' if d is None else str(d))
                rec['ran'] = True
                rec['left'] = len(evq)
        app = falcon.asgi.App()
        app.ws_options.max_receive_queue = q
        app.ws_options.media_handlers[WebSocketPayloadType.BINARY] = BinHandler()
        app.add_route('/ws', Res())
        scope = {'type': 'websocket', 'asgi': {'version': '3.0', 'spec_version': '2.3'}, 'path': '/ws', 'query_string': b'',
                 'headers': [], 'subprotocols': [], 'http_version': '1.1', 'scheme': 'ws',
                 'server': ('127.0.0.1', 8000), 'client': ('127.0.0.1', 50000), 'root_path': ''}
        task = asyncio.ensure_future(app(scope, receive, send))
        for _ in range(2000):
            if task.done(): break
            await asyncio.sleep(0)
        esc = '-'
        if not task.done():
            esc = 'TIMEOUT'; task.cancel()
            await asyncio.gather(task, return_exceptions=True)
        elif task.exception() is not None:
            esc = exname(task.exception())
        for _ in range(3):
            await asyncio.sleep(0)
        left = [t for t in asyncio.all_tasks() if t is not asyncio.current_task() and not t.done()]
        for t in left: t.cancel()
        if left: await asyncio.gather(*left, return_exceptions=True)
        if not never.done(): never.cancel()
        setup = spec['setup']
        line = 'wt st=%s cc=%s showleft=%d inbox=%s ops=%s' % (setup[0], rec['cc'], 0 if q else 1, ','.join(inbox) or '-',
                                                               ','.join(t + '/' + d for t, d in zip(spec['ops'], rec['discs'])))
        if not rec['ran'] or esc != '-':
            reply = f'script did not run to its end (escaped: {esc}; outcomes so far: {rec["outs"]})'
        else:
            reply = ' '.join(rec['outs']) + ' | sent=%s left=%s' % (''.join(rec['script_sent']) or '-', '-' if q else rec['left'])
        sess_wt.case({'setup': setup, 'max_receive_queue': q, 'inbox': inbox, 'ops': spec['ops'], 'origin': origin})
        sess_wt.op(line, reply)
        shown = {'setup': setup, 'max_receive_queue': q, 'client_events': inbox, 'calls': spec['ops'], 'outcomes': rec['outs'], 'server_saw': sent}
        ctx.oracle(ORA_WT, rec['bad'] is None, rec['bad'], shown)
        ctx.seen(('wt', setup, q, tuple(inbox), tuple(spec['ops'])), bool(rec['script_sent']))
        ctx.count('argstate_' + origin)
        for t in rec['outs']: ctx.count('argstate_outcome_' + t.split(':')[0] + ('_' + t.split(':')[1] if t.startswith(('sent', 'got')) else ''))

    WT_ARGS = ['str', 'strsub', 'bytes', 'bytessub', 'bytearray', 'memoryview', 'none', 'int', 'other']
    WT_OPS = (['T' + a for a in WT_ARGS] + ['D' + a for a in WT_ARGS] + ['M' + p + k for p in 'tbo' for k in '10'] + ['rt', 'rd', 'rm'])
    WT_EVENTS = ['fvm', 'fvm', 'fmv', 'fmv', 'fvn', 'fnv', 'fvv', 'fmm', 'fnn', 'fnm', 'fmn', 'd-', 'd1001', 'd4000']

    def wt_directed():
        """every entry point x argument kind x state: before accept, accepted, closed by the application, client gone (observed by a receive), disconnect
        seen by the pump only (queue 8), each x queue 0 / 8, followed by a well-typed send_text, send_data and a receive"""
        for op in WT_OPS:
            for setup, q, pre, inbox in (('h', 0, [], ['fvm']), ('h', 8, [], ['fvm']), ('a', 0, [], ['fmv', 'fvm', 'fvv']), ('a', 8, [], ['fvm', 'fmv', 'fnn']),
                                         ('a', 0, [], ['fvn', 'fnv', 'fmm']), ('c1000', 0, [], ['fvm']), ('c4000', 8, [], ['fvm']), ('c3001', 8, [], ['d1001']),
                                         ('a', 0, ['rt'], ['d4000', 'fvm']), ('a', 0, ['rd'], ['d-']), ('a', 8, ['rm'], ['d1001']),
                                         ('a', 8, [], ['fvm', 'd1001']), ('a', 8, [], ['d-']), ('a', 0, [], [])):
                tail = ['Tstr', 'Dbytes', 'rt']
                if q and not any(t[0] == 'd' for t in inbox):
                    nrecv = sum(1 for t in pre + [op] + tail if t[0] == 'r')
                    if nrecv > len(inbox): tail = tail[:2]
                    if sum(1 for t in pre + [op] + tail if t[0] == 'r') > len(inbox): continue
                yield {'setup': setup, 'q': q, 'inbox': inbox, 'ops': pre + [op] + tail}

    def wt_random(rnd):
        q = rnd.choice([0, 0, 8])
        inbox = [rnd.choice(WT_EVENTS) for _ in range(rnd.randint(0, 4))]
        if 'd' in ''.join(t[0] for t in inbox):       # nothing follows the disconnect
            inbox = inbox[:[t[0] for t in inbox].index('d') + 1]
        ops = [rnd.choice(WT_OPS) if rnd.random() < 0.6 else rnd.choice(['rt', 'rd', 'rm', 'Tstr', 'Dbytes']) for _ in range(rnd.randint(1, 6))]
        if q and not any(t[0] == 'd' for t in inbox):
            keep = []; nr = 0
            for t in ops:                            # an idle client: a receive beyond its events would wait for ever
                if t[0] == 'r':
                    nr += 1
                    if nr > len(inbox): continue
                keep.append(t)
            ops = keep or ['Tstr']
        return {'setup': rnd.choice(['h', 'a', 'a', 'a', 'a', 'c1000', 'c4000', 'c3000']), 'q': q, 'inbox': inbox, 'ops': ops}

    async def wt_calls():
        i, k = ctx.shard
        for j, spec in enumerate(wt_directed()):
            if j % k == i: await wt_case(spec, 'directed')
        for _ in range(ctx.n(1500, 15000)):
            await wt_case(wt_random(ctx.rng), 'random')

    async def main():
        loop = asyncio.get_running_loop()
        loop.time = lambda: vclock[0]          # virtual time: nothing in this check may depend on the wall clock
        rnd = ctx.rng
        await accept_calls()
        await wt_calls()
        for _ in range(ctx.n(8000, 60000)):
            await one(gen_random(rnd), 'random')
        for _ in range(ctx.n(3000, 24000)):
            await one(gen_payload_session(rnd), 'payload')
        for _ in range(ctx.n(3000, 24000)):
            await one(gen_abandon_session(rnd), 'abandon')
        i, k = ctx.shard
        for j, spec in enumerate(gen_abandon_directed()):
            if j % k == i:
                await one(spec, 'abandon_directed')
        for j, spec in enumerate(gen_server_directed()):
            if j % k == i:
                await one(spec, 'server_directed')
        for j, spec in enumerate(gen_argtype_directed()):
            if j % k == i:
                await one(spec, 'argtype_directed')
        for j, spec in enumerate(gen_handler_directed()):
            if j % k == i:
                await one(spec, 'handler_signature_directed')
        maxlen = 2 if ctx.quick else 3
        for j, spec in enumerate(gen_exhaustive(maxlen)):
            if j % k == i:
                await one(spec, 'exhaustive')
    asyncio.run(main())
    sess.finish()
    sess_wp.finish()
    sess_wa.finish()
    sess_wt.finish()


LEVEL_TEXT = ('Machine-checked proofs (Lean 4) over an executable model that transcribes falcon/asgi/ws.py (accept/close/send_*/receive_*, _send with the server-error '
              'translation, _require_accepted, close-code validation, reason/header support by spec version) and App._handle_websocket with WebSocket middleware, '
              'the default error handlers, _ws_cleanup_on_error (incl. its fallback to 3011 when the exception of close() - falcon\'s own or the SERVER\'s, of any class - says \'invalid close code\': '
              'the server is modelled with a faulty call index, a close-code policy and an exception class + message flag; refused_error_close_falls_back) and a custom handler: for every script, client script, fault position/kind, configuration and '
              'every sequence of observed disconnect-flag values the events accepted by the server are a word of the ASGI send-side automaton '
              '(emitted_trace_legal[_mw]); a session that returns normally is closed, denied or known lost (closed_unless_escaped[_mw]); no close reason reaches a server '
              'that does not support it (reason_only_if_supported); the wrong-state error table, the close-code table and the error -> close-code mapping are theorems (incl. raised_error_closes_open_socket: an exception of a framework class - a WebSocketDisconnected '
              'from another connection - raised on a still connected socket closes it with error_close_code). The model is tied to the real falcon.asgi.App (source mode) on every '
              'run by a differential correspondence on the exact sequence of send calls (incl. which one raised), per-op outcomes, escaped exception and the public '
              'state flags, in both queue modes; an independent protocol monitor and (state, op) oracle written from the statement decide failing inputs. '
              'The last clause (payloads arrive unchanged in order) is proved over the payload-carrying refinement Wp (WsPayload.lean: events carry the text/bytes under the key '
              'ws.py uses, client events have each key absent / None / a value, media handlers are arbitrary functions that may raise): sent_payloads_in_order_unchanged, '
              'received_payloads_in_order_unchanged (and its composition with C18 for the buffered receiver), wrong_payload_type_errors_exact, media_roundtrip (instantiated with the '
              'C12 JSON model), and project_to_Ws, the refinement that maps every Wp session to the Ws session of its kinds, so the 57 kind-level theorems describe the same sessions. '
              'Wp is tied to the real App by a second correspondence on the same sessions comparing the hex of every payload handed to the server (with its key) and of every value '
              'returned by receive_* (media: the JSON text of the document). '
              'The ARGUMENTS of accept() are modelled in Wa (WsAccept.lean: the headers argument as None / a list-like / a generator of items that are pairs of str, bytes or other objects or no pairs, str.lower() incl. the KELVIN SIGN, '
              '.encode(\'ascii\'), the comprehension-then-check order): accept_event_legal proves that whatever is handed to the server has lower-case ASCII byte names, never sec-websocket-protocol, exactly the given items in order, and only for a '
              'server with accept headers; every_spelling_rejected / accept_forbidden_header_raises prove the documented ValueError for every one of the 2^20 letter-case spellings of the forbidden name; Wa.accept is by definition an operation of Ws '
              '(the result of the argument processing is the hdrExc input of Ws.W.accept), and a third correspondence compares outcome and the exact accept event of calls on directly constructed sockets. '
              'A receive_* that the responder abandons while it waits (asyncio.wait_for timeout, task cancellation) is the operation recvAbandoned of Ws / Wp: recvAbandoned_noop and abandoned_receive_session_continues prove that the session goes on '
              'as if it had never been issued; the correspondence runs such responders (virtual loop clock, clients idle at marked points, queue 0 / 1 / 4) against the model, the oracle decides from the client script alone which receives must have waited.'
              ' The ORDER of the state test and the argument-type test of the send / receive entry points is the model Wt (WsArgs.lean): state_error_wins, accepted_bad_argument, bad_argument_inert, send_returns_iff, recv_frame, and op_refines_Ws / run_refines_Ws link it to Ws; tied to the real App by its own correspondence over entry point x argument type x state.')
LEVEL_NOTE = ('Trusted: Lean kernel + standard axioms; the scripted ASGI server, correspondence harness and oracles. The disconnect flag is a model input fed from the '
              'real object (its timing is C18). The media handlers are abstract in the theorems; the driver instantiates them with the C12 JSON model and the harness\' stub binary handler.')
TECHNIQUE = 'Lean 4 invariant proof over an executable session model + differential correspondence model vs. real falcon.asgi.App + independent ASGI protocol monitor'

"""C18 - WebSocket receive buffering is FIFO, bounded and lossless under every schedule."""
PROP = 'C18'
LEAN_MODULES = ['FalconModel.WsBufProofs', 'FalconModel.WsUnbufProofs', 'FalconModel.WsBufRefine', 'FalconModel.WsModeProofs']
DRIVERS = ['wbdriver', 'wudriver']
THEOREMS = [
    'Wb.inv_init', 'Wb.pumpEnqueue_inv', 'Wb.segments_preserve',
    'Wb.returned_append', 'Wb.delivered_append', 'Wb.pumpEnqueue_conserve', 'Wb.pumpEnqueue_held', 'Wb.popSeg_conserve', 'Wb.popSeg_held',
    'Wb.segments_conserve', 'Wb.isPrefix_eq', 'Wb.fifo_lossless_once',
    'Wb.held_le_capacity_succ', 'Wb.held_succ_only_when_full', 'Wb.f13_witness',
    'Wb.no_lost_wakeup', 'Wb.resolved_receive_enabled', 'Wb.disc_monotone', 'Wb.disc_set_by_pump', 'Wb.send_reports_flag',
    'Wb.stop_leaves_no_task',
    # buffered path refines the plain FIFO queue (WsBufRefine)
    'Fq.run_append', 'Fq.run_sound', 'Fq.run_deq_prefix', 'Wb.ops_append', 'Wb.ops_enqs', 'Wb.ops_deqs', 'Wb.pumpEnqueue_refines', 'Wb.popSeg_refines',
    'Wb.segment_refines', 'Wb.buffered_refines_fifo', 'Wb.returned_prefix_delivered',
    # unbuffered mode (max_receive_queue = 0): WsUnbuf / WsUnbufProofs
    'Wu.observed_emit', 'Wu.inv_init', 'Wu.payloadObs_id', 'Wu.inv_of_frame', 'Wu.step_preserves', 'Wu.run_inv',
    'Wu.fifo_lossless_once', 'Wu.nothing_buffered', 'Wu.mem_last_of_not_dropLast', 'Wu.disconnect_after_preceding',
    'Wu.closed_monotone', 'Wu.dead_step', 'Wu.dead_run', 'Wu.disconnect_sticky',
    'Wu.recv_enabled', 'Wu.deliver_enabled_iff', 'Wu.parked_receive_completes',
    'Wu.unbuffered_refines_fifo', 'Wu.buffered_unbuffered_agree',
    # configuration -> receive path (WebSocket.__init__): WsMode / WsModeProofs
    'Wm.path_ignores_version', 'Wm.buffered_iff', 'Wm.direct_iff', 'Wm.configured_capacity_bound', 'Wm.flags_table',
    # histories of connections on one falcon.asgi.App object (ws_options changed between connections): WsMode / WsModeProofs
    'Wm.serve_append', 'Wm.inForce_append', 'Wm.inForce_connects', 'Wm.connection_wiring', 'Wm.reconfigured_capacity_honoured', 'Wm.reconfigured_path',
    'Wm.fresh_app_default', 'Wm.serve_length',
]
STATEMENTS = {
    'Wm.path_ignores_version': 'WebSocket.__init__: the ASGI spec version announced by the server has no influence on which receive path the socket is wired to',
    'Wm.buffered_iff': 'the socket uses a buffered receiver of capacity cap iff max_receive_queue = cap > 0 (every configured capacity is honoured exactly, under every spec version)',
    'Wm.direct_iff': 'the unbuffered (direct) path is used iff max_receive_queue = 0',
    'Wm.configured_capacity_bound': 'for every spec version and every max_receive_queue = q wired to a buffered receiver, every invariant state of that receiver holds at most q + 1 events',
    'Wm.connection_wiring': 'falcon.asgi.App: after any history of option changes and connections, the next connection is wired from the max_receive_queue in force at that moment (nothing of an earlier connection survives in the App object)',
    'Wm.inForce_connects': 'serving connections does not change the options',
    'Wm.reconfigured_capacity_honoured': 'whatever one App object served before, after ws_options.max_receive_queue = q every later connection (any number of other connections in between, any announced spec version) is wired exactly as a WebSocket constructed with q',
    'Wm.reconfigured_path': 'such a connection runs the buffered receiver of capacity q if q > 0 and the direct (unbuffered) path, without a pump task, if q = 0',
    'Wm.fresh_app_default': 'an App object whose ws_options were never touched serves every connection with a receive queue of 4',
    'Wm.serve_length': 'one WebSocket per connection of the history',
    'Wb.segments_preserve': 'every atomic segment (what one task does between two awaits) of the pump task, of receive(), of a cancelled receive(), of _send and of stop() preserves the invariant: queue <= capacity; a pending pop-waiter implies an empty queue (no lost wake-up); a pump parked for room implies a full queue; waiter cells and attributes agree; app parked <=> pop-waiter exists; pump holding <=> put-waiter exists. Any enabled segment may fire, so the invariant holds under every schedule',
    'Wb.segments_conserve': 'every segment except stop() keeps  returned-to-the-application ++ held-by-the-framework = held-before ++ delivered-by-the-server  (as lists: order, no loss, no duplication)',
    'Wb.fifo_lossless_once': 'for every event log the trace-inclusion checker accepts (any interleaving of segments, no stop in it), from a state satisfying the invariant: what receive() returned followed by what is still held equals what was held before followed by what the server delivered, in order; and the invariant holds at the end',
    'Wb.held_le_capacity_succ': 'in every invariant state the framework holds at most capacity + 1 events (queue + the one the pump has pulled)',
    'Wb.held_succ_only_when_full': 'capacity + 1 is reached only with the queue full and exactly one event in flight in the pump',
    'Wb.f13_witness': 'the literal bound "held <= capacity" is false in the model as well: capacity 1, log pull, deliver 0, append 0, pull, deliver 1 is accepted and leaves 2 events held (known finding F13)',
    'Wb.no_lost_wakeup': 'a parked receive() with a non-empty queue has had its waiter resolved',
    'Wb.resolved_receive_enabled': 'a receive() whose waiter was resolved always has an enabled resume segment, which returns a message or parks again on a fresh waiter',
    'Wb.disc_monotone': 'once set, client_disconnected stays set through every segment',
    'Wb.disc_set_by_pump': 'the pump segment that processes the disconnect event sets the flag in that very segment, before the event is queued and even when the queue is full',
    'Wb.send_reports_flag': '_send takes the WebSocketDisconnected branch iff the flag is set, and changes nothing',
    'Wb.stop_leaves_no_task': 'after stop() the pump has no enabled segment: no further pull, nothing left running',
    'Fq.run_sound': 'the specification (plain FIFO queue: enq appends at the back, deq m is possible only with m at the front) is itself FIFO: dequeued ++ left = initial ++ enqueued',
    'Wb.segment_refines': 'every atomic segment of the buffered receiver except stop(), read as FIFO operations (deliver m = enq m, recvRet m = deq m, everything else a stutter), is a run of the plain FIFO queue from held-before to held-after',
    'Wb.buffered_refines_fifo': 'every log the trace-inclusion checker accepts (any interleaving, no stop) is a run of the plain FIFO queue under the abstraction held = queue ++ event in the pump\'s hand: each message receive() returns was at that moment the oldest event the framework held',
    'Wb.returned_prefix_delivered': 'from a fresh receiver of any capacity: what receive() returned followed by what is held is exactly what the server delivered',
    'Wu.step_preserves': 'every step of the unbuffered WebSocket (accept, receive_text/receive_data call, server hands over the next event and the parked call resumes, cancellation of the parked call, send with any server behaviour, close with any code) preserves: handed-over ++ still-at-the-server = arrived; the application observed every handed-over event in the step that handed it over; one pull outstanding exactly while a receive is parked; a handed-over disconnect event is the last one, the socket is then CLOSED with the client\'s code and nobody is parked',
    'Wu.run_inv': 'the invariant holds after every schedule (induction over the label list)',
    'Wu.fifo_lossless_once': 'unbuffered mode, every schedule: what the receives consumed followed by what is still at the server is exactly the arrival sequence (order, no loss, no duplication)',
    'Wu.nothing_buffered': 'unbuffered mode, every schedule: the framework holds 0 events, at most one pull of the server is outstanding, and one is outstanding iff a receive is parked (nothing pulled ahead)',
    'Wu.disconnect_after_preceding': 'unbuffered mode, every schedule: if a disconnect event was handed over it is the last event handed over, every event that arrived before it was consumed by receives before it in order, and the last consuming observation is the WebSocketDisconnected for it',
    'Wu.closed_monotone': 'state CLOSED is kept by every step, also while a receive is still parked',
    'Wu.dead_step': 'with state CLOSED and no parked receive every step keeps that, changes neither _close_code nor the server boundary nor what was sent, consumes nothing, and a receive call raises WebSocketDisconnected(_close_code) without pulling',
    'Wu.disconnect_sticky': 'once a receive took the client\'s disconnect event, after every further schedule nothing more is consumed or pulled and every receive call raises WebSocketDisconnected with the client\'s code (event code, 1000 if missing or 0)',
    'Wu.recv_enabled': 'a receive call is enabled whenever no receive is in progress',
    'Wu.deliver_enabled_iff': 'the hand-over step is enabled iff a receive is parked and an event is available at the server',
    'Wu.parked_receive_completes': 'a parked receive with an event available has an enabled step which completes that receive with exactly that event (fairness-free liveness: nothing inside the framework stands between the server\'s event and the parked call)',
    'Wu.unbuffered_refines_fifo': 'after every schedule the consuming observations, read as dequeues, are a run of the plain FIFO queue from the arrival sequence to what is still at the server',
    'Wu.buffered_unbuffered_agree': 'same arrival sequence fed to a buffered receiver (any capacity, any accepted log without stop) and to an unbuffered WebSocket (any schedule): whenever both have consumed the same number of events they have consumed the same events in the same order',
}
TRUSTED = [
    'asyncio\'s implementation of futures, tasks, cancellation and asyncio.wait; one `await asyncio.sleep(0)` = one turn of the ready queue',
    'the instrumentation (logging deque assigned into the _messages slot, logging future factory behind _loop) records the atomic steps faithfully',
    'the harness-side server receive() (a future per pull, resolved by the schedule; in the eager variant returned at once while events are at hand) as the meaning of "the server delivers"',
    'unbuffered mode: the harness-side server keeps an event whose pull was cancelled before the receive resumed (as asyncio.Queue.get does); the hand-over and the resumption of the parked '
    'receive are one model step (nothing in the resumed code reads state another task could have changed in between); the server\'s send() failures are represented by one exception per class '
    'that _translate_webserver_error distinguishes',
]
ASSUMPTIONS = [
    'configurations: ASGI spec versions 2.0, 2.1, 2.2, 2.3, 2.4, 2.5, 2.10 (canonical "2.<minor>" strings, the versions falcon.asgi.App accepts), default_close_reasons empty or the stock table, '
    'the WebSocket constructed directly or by falcon.asgi.App from ws_options.max_receive_queue and the scope; the scripted server\'s send() never raises in the buffered session (a server that does '
    'not report the lost connection itself: the framework\'s own read-ahead is then the only way a sender learns of it)',
    'histories on one falcon.asgi.App object: 1..3 routed connections (sometimes preceded by one to an unknown route), served one after the other (not concurrently); ws_options.max_receive_queue, '
    'media_handlers, default_close_reasons and error_close_code are changed between connections and between construction and the first connection, never during a connection; the Lean model Wm.serve '
    'covers max_receive_queue only (the other three options are judged by the oracle on what reaches the server)',
    'send entry points: send_text, send_data (bytes/bytearray/memoryview), send_media with the default, an explicit TEXT and an explicit BINARY payload type (trivial tagged media handlers; the stock BINARY '
    'handler needs msgpack) and close(); the Wb and Wu models have one send step - the entry point is a label of the harness, all entry points must behave as that step',
    'one receiver at a time (the framework asserts it); send/close may be issued from another task, which the schedule does',
    'unbuffered mode (max_receive_queue = 0): receive_text/receive_data, send_text, accept, close are modelled; receive_media (media handlers) and close reasons are not; a send that fails at the server, or close(), '
    'closes the socket and later receives raise without pulling - events still at the server are then not delivered, by design (same in buffered mode)',
    'promptness of the disconnect report to a sender is stated per loop turn: after the disconnect event was handed to the pump and the ready queue has turned once, every send raises; before it was handed over, none does',
]
RULE_HISTORY = (' Connection histories: every WebSocket of the entry point "app" is made by a falcon.asgi.App object that serves a history of 1..3 connections (plus, for every fifth, one to an unknown '
                'route first) with max_receive_queue, media_handlers, default_close_reasons (alternately assigned / changed in place) and error_close_code changed before each, a new App sometimes left at the stock queue '
                'of 4; directed: every pair and every triple of capacities 0..4 in turn on one App object, each connection in a scenario where its own capacity matters (capacity + 3 events handed over while nobody '
                'receives / a sending-only application around the disconnect / one message then close). The ending "close" of an App connection is performed by the responder (ws.close()), by the App after the responder '
                'returned, or by the App\'s error handler after the responder raised (error_close_code in force), rotating. Send entry points: the i-th S step of a run uses sends[i % len] out of send_text, send_data, '
                'send_media(obj), send_media(obj, TEXT), send_media(obj, BINARY) - one entry point per enumerated run (rotating), random patterns of 1..4 in the random runs; a sender that was told about the disconnect '
                'keeps trying; directed: a sending-only application, capacity 0..4 x 0..capacity unread messages in front of the disconnect x 5 single entry points + 2 mixed patterns x 7 continuations after the hand-over '
                'x direct/app x close/drain, and in the unbuffered session each entry point before accept / open / with a failing server send / after a receive took the disconnect / after close().')
RULE_CONFIG = (' Configuration dimension: every run carries an announced ASGI spec version out of 2.0/2.1/2.2/2.3/2.4/2.5/2.10, an entry point (WebSocket constructed directly, or by a real falcon.asgi.App '
               'from ws_options.max_receive_queue + scope[asgi][spec_version], the responder accepting and parking) and default_close_reasons empty/stock - rotated over the enumerated schedules, random in the '
               'random ones, and the full cross product versions x entries x capacities 0..4 x disconnect x ending for every schedule of length <= 2. The oracle also demands read-ahead (one pull outstanding '
               'whenever fewer than the configured number of events are held, the client has not disconnected and two loop turns have passed) and the public closed/ready properties.')
RULE_UNBUFFERED = (' Unbuffered session (Wu model): the same enumerated {D,R,Y,C,S} schedules x k x {no disconnect, code 1001, code missing} x drain/close with accept first, plus random schedules of 3..30 steps over '
                   '{D,R,Y,C,S,X close(code),F send failing at the server,A accept} with 0..6 text/bytes messages, receive_text/receive_data patterns, disconnect codes incl. missing and 0, an event offered after the '
                   'disconnect, valid and invalid close codes, 9 server send-failure shapes, accept first or not; every executed atomic step (label, observation, closed/ready/unaccepted) and the final server-side counts are compared.')
RULE_BURST = (' Back-to-back reading: the step B starts ONE application task that performs a pattern of operations (r = receive_text(), s = send through the current entry point) without yielding to the loop on its own - '
              'a receive that finds a message and a send to a server whose send() does not suspend return without a loop turn, so the pump does not run in between - and the server is either scripted (an event is handed '
              'over at each D) or EAGER (its receive() returns an event it has without suspending, like a non-empty asyncio.Queue). Directed: for every capacity 0..4, a backlog of capacity + j events (j = 0..3, the last one '
              'the disconnect or not) that reached the server before the first receive (handed over one per loop turn while nobody receives, so that the pump fills the queue and parks holding one more / all at hand at an '
              'eager server), then m = 1 .. backlog + 1 consecutive receives (with or without a send after each), every tail of <= 1 step out of {Y, D, R, B}, drain / close; half of the random schedules draw from '
              '{D,R,Y,C,S,B} with 1..3 PRNG patterns of 2..7 operations, a quarter of them start with a backlog of capacity + 0..2 hand-overs, a quarter of all random runs use the eager server. The read-ahead oracle '
              'counts the loop as quiescent only when, besides two Y steps in a row, the last turn logged no step of any task.')
RULE = ('every schedule over {D deliver, R start receive, Y run ready queue, C cancel pending receive, S send} of length <= 4 (quick) / <= 6 (thorough), every schedule over '
        '{D,R,Y} of length 5..6 (quick) / 7..8 (thorough), each followed by a deterministic drain (deliver all, receive all) or by close(); x capacities 0..4 x k = 1..2 (quick) / 1..3 (thorough) '
        'messages x with/without a trailing disconnect; plus, for capacities 1..4, "fill the queue and park the pump" followed by every tail of <= 2 steps and drain/close; plus random schedules of 5..40 steps with k <= 8. The real falcon.asgi.ws.WebSocket (source mode) is driven; '
        'non-trivial = at least one message was delivered and received; distinct = distinct (capacity, k, disconnect, schedule, ending, spec version, entry point, close reasons, send entry points, media handler, who closes, '
        'history of the App object, burst patterns, server kind)' + RULE_CONFIG + RULE_HISTORY + RULE_BURST + RULE_UNBUFFERED)
PARTIAL = ('the theorems are about the atomic-segment model; that asyncio runs the real coroutines segment by segment as modelled is established by trace inclusion on every generated '
           'schedule (exhaustive to the stated bounds), not by proof; liveness is stated fairness-free (buffered: no_lost_wakeup + resolved_receive_enabled; unbuffered: deliver_enabled_iff + '
           'parked_receive_completes). Unbuffered mode is proved over the Wu small-step model (one receiver at a time; receive_media and two concurrent receives are not modelled), which is tied to the real '
           'WebSocket by per-step comparison on generated schedules, not by proof. stop()/close() of the buffered receiver drops what the cancelled pump holds and is excluded from the conservation/refinement theorems')
JOBS = {'quick': 4, 'thorough': 16}
EXHAUSTIVE = {'quick': False, 'thorough': False}

VERSIONS = ['2.0', '2.1', '2.2', '2.3', '2.4', '2.5', '2.10']      # around every version test in ws.py (!= '2.0', >= (2, 3)) and the newest spec (2.4: send() should raise), 2.10 > 2.3 as integer pairs
ENTRIES = ['direct', 'direct', 'app']


SEND_KINDS = 'tdmTB'
SEND_NAMES = {'t': 'send_text', 'd': 'send_data', 'm': 'send_media(obj)', 'T': 'send_media(obj, payload_type=TEXT)', 'B': 'send_media(obj, payload_type=BINARY)'}
SEND_LEGEND = 'the i-th S step uses the send entry point sends[i % len]: ' + ', '.join('%s = %s' % kv for kv in SEND_NAMES.items())
FINISHES = ['harness', 'return', 'raise']      # who calls close() in the ending "close" of an App connection: the responder itself, the App after the responder returned, the App's error handler
LIMITS = (3, 2, 3, 1)                          # an App object serves that many connections (histories of 1..3), then the next App object is constructed
ERR_CODES = (1011, 3011, 4000, 4999)           # ws_options.error_close_code, changed from connection to connection


def cfg_at(j):
    """the configuration of the j-th enumerated run: versions, entry points, close-reason tables, send entry points, media handlers and who closes rotate with
    (mostly) co-prime periods"""
    return {'ver': VERSIONS[j % 7], 'entry': ENTRIES[j % 3], 'reasons': j % 2 == 1, 'sends': SEND_KINDS[j % 5], 'tagged': j % 4 < 2, 'finish': FINISHES[(j // 3) % 3]}


def cfg_random(rnd):
    return {'ver': rnd.choice(VERSIONS), 'entry': rnd.choice(ENTRIES), 'reasons': rnd.random() < 0.5,
            'sends': ''.join(rnd.choice(SEND_KINDS) for _ in range(rnd.randint(1, 4))), 'tagged': rnd.random() < 0.5, 'finish': rnd.choice(FINISHES),
            'bursts': [''.join(rnd.choice('rrrs') for _ in range(rnd.randint(2, 7))) for _ in range(rnd.randint(1, 3))], 'eager': rnd.random() < 0.25}


def send_points():
    """every send entry point of falcon.asgi.WebSocket with the event the server must get from it, and trivial media handlers whose output names the handler
    (the stock BINARY handler needs msgpack, which may be missing)"""
    import json
    import falcon
    import falcon.media
    PT = falcon.WebSocketPayloadType

    class TagText(falcon.media.TextBaseHandlerWS):
        def __init__(s, tag): s.tag = tag

        def serialize(s, media): return s.tag + '|' + json.dumps(media)

        def deserialize(s, payload): return json.loads(payload.partition('|')[2])

    class TagBin(falcon.media.BinaryBaseHandlerWS):
        def __init__(s, tag): s.tag = tag

        def serialize(s, media): return s.tag.encode() + b'|' + json.dumps(media).encode()

        def deserialize(s, payload): return json.loads(bytes(payload).partition(b'|')[2].decode())

    def handlers(tag, tagged, stock):
        """the media_handlers of one connection: TEXT stock JSON or tagged, BINARY always tagged"""
        return {PT.TEXT: TagText(tag) if tagged else stock[PT.TEXT], PT.BINARY: TagBin(tag)}

    async def do_send(ws, kind, n):
        if kind == 't':
            await ws.send_text('x%d' % n)
        elif kind == 'd':
            p = b'x%d' % n
            await ws.send_data((p, bytearray(p), memoryview(p))[n % 3])
        elif kind == 'm':
            await ws.send_media({'n': n})
        elif kind == 'T':
            if n % 2: await ws.send_media({'n': n}, PT.TEXT)
            else: await ws.send_media({'n': n}, payload_type=PT.TEXT)
        else:
            if n % 2: await ws.send_media({'n': n}, PT.BINARY)
            else: await ws.send_media({'n': n}, payload_type=PT.BINARY)

    def wrong_event(kind, n, tag, tagged, got):
        """None if `got` (the events passed to the server by one send) is exactly the one event that entry point must deliver, else what is wrong"""
        if len(got) != 1:
            return '%d events reached the server instead of 1' % len(got)
        ev = got[0]
        if kind == 't':
            want = {'type': 'websocket.send', 'text': 'x%d' % n}
        elif kind == 'd':
            want = {'type': 'websocket.send', 'bytes': b'x%d' % n}
        elif kind == 'B':
            want = {'type': 'websocket.send', 'bytes': tag.encode() + b'|' + json.dumps({'n': n}).encode()}
        elif tagged:
            want = {'type': 'websocket.send', 'text': tag + '|' + json.dumps({'n': n})}
        else:
            try:
                ok = set(ev) == {'type', 'text'} and ev['type'] == 'websocket.send' and json.loads(ev['text']) == {'n': n}
            except Exception:  # noqa
                ok = False
            return None if ok else 'the server got %r instead of a text event with the JSON document {"n": %d}' % (ev, n)
        if kind == 'd' and isinstance(ev.get('bytes'), (bytearray, memoryview)):
            ev = dict(ev, bytes=bytes(ev['bytes']))
        return None if ev == want else 'the server got %r instead of %r' % (ev, want)

    return handlers, do_send, wrong_event


def close_event(code, ver, reasons):
    """the event close(code) must pass to the server: the reason is looked up in the default_close_reasons in force and only sent under spec versions >= 2.3"""
    ev = {'type': 'websocket.close', 'code': code}
    if reasons.get(code) and tuple(map(int, ver.split('.'))) >= (2, 3):
        ev['reason'] = reasons[code]
    return ev


F13_NAME = 'held <= capacity'
F13_WHAT = 'held == capacity + 1 (queue full, one event in flight in the pump)'
DISC = 999


def schedules(quick):
    import itertools
    full, mid = (4, (5, 6)) if quick else (6, (7, 8))
    for l in range(0, full + 1):
        for s in itertools.product('DRYCS', repeat=l):
            yield ''.join(s)
    for l in range(mid[0], mid[1] + 1):
        for s in itertools.product('DRY', repeat=l):
            yield ''.join(s)


def unbuffered_session(ctx, wsmod, errors, sp):
    """max_receive_queue = 0: the real WebSocket is driven step by step; every executed atomic step (label, what the application
    observed, the public closed/ready/unaccepted properties after it) is replayed by the Wu small-step model (wudriver)."""
    import asyncio
    import itertools
    sess = ctx.session('unbuffered WebSocket (max_receive_queue=0) on a scripted loop: per-step observations, properties and final server-side counts equal the Wu small-step model',
                       'wudriver')
    opts = wsmod.WebSocketOptions()
    handlers, do_send, wrong_event = sp
    LEGEND = ('A accept, R start the next receive (t = receive_text, d = receive_data), D server hands the next event to the outstanding pull, Y one loop turn, '
              'C cancel the pending receive, S send (entry point by `sends`), F send while the server\'s send() raises <fail>, X close(<close_code>); then drain=(YYDYYRYY)* or X Y R Y Y S; ' + SEND_LEGEND)

    def cs(c):
        return '-' if c is None else str(c)

    def mk(tok, variant):
        if tok[0] == 't':
            ev = {'type': 'websocket.receive', 'text': 'm' + tok[1:]}
            if variant: ev['bytes'] = None
        elif tok[0] == 'b':
            ev = {'type': 'websocket.receive', 'bytes': b'm' + tok[1:].encode()}
            if variant: ev['text'] = None
        else:
            ev = {'type': 'websocket.disconnect'}
            if tok[1:] != '-': ev['code'] = int(tok[1:])
        return ev

    def mkexc(kind):
        if kind == 'ok1000':
            return RuntimeError('sent 1000 (OK); then received 1000 (OK): code = 1000 (OK), no reason')
        if kind == 'subproto':
            return RuntimeError('protocol accepted must be from the list of requested protocols')
        if kind == 'other':
            return RuntimeError('boom')
        assert kind.startswith('os:')
        e = ConnectionResetError('client disconnected')
        if kind == 'os:-':
            return e
        if kind == 'os:x':              # a cause that does not start with 'received dddd'
            e.__cause__ = RuntimeError('sent 1001 (going away); then received 1001 (going away)')
            return e
        e.__cause__ = RuntimeError('received %s (going away); then sent %s (going away)' % (kind[3:], kind[3:]))
        return e

    async def run_u(evtoks, sched, pre_accept, kinds, close_code, fail_kind, ending, variant, cfg):
        loop = asyncio.get_running_loop()
        events = [mk(t, variant) for t in evtoks]
        ids = [DISC if t[0] == 'd' else int(t[1:]) for t in evtoks]
        o = {'pending': [], 'delivered': 0, 'handed': [], 'steps': [], 'observed': [], 'sent': [], 'fail': None, 'bad_pull': None,
             'errors': [], 'cur': None, 'maxpulls': 0, 'nrecv': 0, 'nsend': 0, 'sendrec': []}

        def flags():
            return ('c' if ws.closed else '-') + ('r' if ws.ready else '-') + ('u' if ws.unaccepted else '-')

        async def receive():
            f = loop.create_future(); o['pending'].append(f)
            o['maxpulls'] = max(o['maxpulls'], len(o['pending']))
            cur = o['cur']
            if cur is None or cur['parked']:
                if o['bad_pull'] is None:
                    o['bad_pull'] = ('the server was pulled although no receive was in progress' if cur is None
                                     else 'one receive pulled the server twice')
            else:
                cur['parked'] = True; o['steps'].append(['R' + cur['k'], 'parked', flags()])
            try:
                return await f
            except asyncio.CancelledError:
                if f.done() and not f.cancelled():         # the server keeps an event nobody took
                    o['delivered'] -= 1; o['handed'].pop()
                raise
            finally:
                o['pending'].remove(f)

        async def send(m):
            o['sent'].append(m)
            fk, o['fail'] = o['fail'], None
            if fk:
                raise mkexc(fk)
        ws = wsmod.WebSocket(cfg['ver'], {'subprotocols': []}, receive, send, handlers('u', cfg['tagged'], opts.media_handlers), 0, dict(opts.default_close_reasons) if cfg['reasons'] else {})
        hdr = 1 if ws.supports_accept_headers else 0
        recv_task = None

        async def do_recv(k):
            cur = {'k': k, 'parked': False}; o['cur'] = cur
            took = None
            try:
                if k == 't':
                    v = await ws.receive_text(); n = int(v[1:])
                else:
                    v = await ws.receive_data(); n = int(bytes(v)[1:].decode())
                obs = 'ret:%d' % n; took = n
            except errors.WebSocketDisconnected as e:
                if cur['parked']:
                    obs = 'wsdE:%s' % cs(e.code); took = DISC
                else:
                    obs = 'wsdS:%s' % cs(e.code)
            except errors.PayloadTypeError:
                took = o['handed'][-1] if o['handed'] else -1
                obs = 'perr:%d' % took
            except errors.OperationNotAllowed:
                obs = 'na'
            except asyncio.CancelledError:
                if cur['parked']:
                    o['steps'].append(['C', 'cancelled', flags()])
                o['cur'] = None
                raise
            except BaseException as e:  # noqa
                obs = 'raised:' + type(e).__name__
                o['errors'].append('receive raised %s: %s' % (type(e).__name__, e))
            o['cur'] = None
            o['steps'].append(['D' if cur['parked'] else 'R' + k, obs, flags()])
            if took is not None:
                o['observed'].append(took)

        async def step(ch):
            nonlocal recv_task
            if ch == 'A':
                try:
                    await ws.accept(); obs = 'acceptOk'
                except errors.OperationNotAllowed:
                    obs = 'na'
                o['steps'].append(['A', obs, flags()])
            elif ch == 'D':
                live = [f for f in o['pending'] if not f.done()]
                if live and o['delivered'] < len(events):
                    ev = events[o['delivered']]; o['handed'].append(ids[o['delivered']]); o['delivered'] += 1
                    live[0].set_result(ev)
            elif ch == 'R':
                if recv_task is None or recv_task.done():
                    k = kinds[o['nrecv'] % len(kinds)]; o['nrecv'] += 1
                    recv_task = asyncio.ensure_future(do_recv(k))
            elif ch == 'Y':
                await asyncio.sleep(0)
            elif ch == 'C':
                if recv_task is not None and not recv_task.done():
                    recv_task.cancel()
            elif ch in 'SF':
                o['fail'] = fail_kind if ch == 'F' else None
                kind = cfg['sends'][o['nsend'] % len(cfg['sends'])]; n = o['nsend']; o['nsend'] += 1
                before = len(o['sent'])
                try:
                    await do_send(ws, kind, n); obs = 'sendOk'
                except errors.WebSocketDisconnected as e:
                    obs = 'sendWsd:%s' % cs(e.code)
                except errors.OperationNotAllowed:
                    obs = 'na'
                except ValueError:
                    obs = 'sendVE'
                except Exception:  # noqa
                    obs = 'sendRaised'
                o['fail'] = None
                o['sendrec'].append((len(o['steps']), ch, kind, n, obs, o['sent'][before:]))
                o['steps'].append(['S' if ch == 'S' else 'S:' + ('os:-' if fail_kind == 'os:x' else fail_kind), obs, flags()])
            elif ch == 'X':
                before = len(o['sent'])
                try:
                    await ws.close(close_code)
                    obs = 'closeSent:%d' % o['sent'][-1]['code'] if len(o['sent']) > before else 'closeNoop'
                except ValueError:
                    obs = 'closeVE'
                o['steps'].append(['X:' + cs(close_code), obs, flags()])
        if pre_accept:
            await step('A')
        for ch in sched:
            await step(ch)
        if ending == 'close':
            for ch in 'XYRYYS':
                await step(ch)
        else:
            for _ in range(len(events) + 2):
                for ch in 'YYDYYRYY':
                    await step(ch)
        for _ in range(4):
            await step('Y')
        waiting = recv_task is not None and not recv_task.done()
        final = 'pending=%d taken=%s observed=%s pulls=%d sent=%s' % (
            len(events) - o['delivered'], ' '.join(map(str, o['handed'])), ' '.join(map(str, o['observed'])),
            len([f for f in o['pending'] if not f.done()]),
            ','.join({'websocket.accept': 'a', 'websocket.send': 't'}.get(m['type']) or 'c%d' % m['code'] for m in o['sent']))
        steps = [list(x) for x in o['steps']]
        undelivered = len(events) - o['delivered']
        if waiting:
            recv_task.cancel()
        if recv_task is not None:
            await asyncio.gather(recv_task, return_exceptions=True)
        try:
            await ws.close()
        except Exception:  # noqa
            pass
        for f in list(o['pending']):
            f.cancel()
        await asyncio.sleep(0)
        left = [t for t in asyncio.all_tasks() if t is not asyncio.current_task() and not t.done()]
        for t in left:
            t.cancel()
        if left:
            await asyncio.gather(*left, return_exceptions=True)
        return o, steps, final, waiting, undelivered, ids, len(left), hdr

    def judge_u(evtoks, sched, pre_accept, kinds, close_code, fail_kind, ending, variant, cfg, res):
        o, steps, final, waiting, undelivered, ids, left, hdr = res
        case = {'capacity': 0, 'spec_version': cfg['ver'], 'default_close_reasons': 'stock' if cfg['reasons'] else 'empty', 'events': ' '.join(evtoks), 'schedule': sched, 'accept_first': pre_accept, 'receive_kinds': kinds, 'close_code': close_code,
                'fail': fail_kind, 'ending': ending, 'other_payload_key_is_None': variant, 'sends': cfg['sends'], 'text_media_handler': 'tagged' if cfg['tagged'] else 'stock JSON', 'legend': LEGEND,
                'steps': ['%s -> %s %s' % tuple(x) for x in steps][:120], 'observed': o['observed']}
        obs = [x[1] for x in steps]
        exp = ids[:ids.index(DISC) + 1] if DISC in ids else ids
        got = o['observed']
        first_disc = next((i for i, x in enumerate(obs) if x.startswith('wsdE:')), None)
        closed_otherwise = any(x.startswith(('closeSent', 'sendWsd', 'sendVE')) for x in (obs if first_disc is None else obs[:first_disc]))
        # 1. FIFO / once / lossless
        bad = None
        if got != exp[:len(got)]:
            bad = 'the receives consumed %r, which is not a prefix of the client\'s events %r (order / duplication / loss)' % (got, exp)
        elif o['errors']:
            bad = '; '.join(o['errors'])
        elif ending == 'drain' and 'acceptOk' in obs and not closed_otherwise and got != exp:
            bad = 'lost: the receives consumed %r of %r after everything was handed over and received' % (got, exp)
        ctx.oracle('the application receives exactly the client\'s messages, in order, each once; the disconnect after the messages that preceded it',
                   bad is None, bad, case)
        # 2. the disconnect is sticky: every later receive raises WebSocketDisconnected with the client's code, and consumes nothing
        bad = None
        if first_disc is not None:
            want = 'wsdS:' + obs[first_disc][5:]
            for lab, ob, _ in steps[first_disc + 1:]:
                if lab == 'D':
                    bad = 'a receive consumed an event (%s) after the disconnect had been reported' % ob; break
                if lab[0] == 'R' and ob != want:
                    bad = 'a receive after the reported disconnect gave %s instead of %s' % (ob, want); break
        ctx.oracle('after WebSocketDisconnected was raised for the client\'s disconnect every later receive raises it again, with the same code',
                   bad is None, bad, case)
        # 3. nothing is buffered
        b = o['bad_pull'] or ('%d pulls outstanding at once' % o['maxpulls'] if o['maxpulls'] > 1 else None)
        ctx.oracle('unbuffered mode: one pull per receive in progress, nothing pulled ahead', b is None, b, case)
        # 4. no receive is left waiting while the server has an event for it
        bad = None
        if ending == 'drain' and waiting and undelivered > 0:
            bad = 'a receive is still waiting although the server has %d event(s) to hand over' % undelivered
        elif left:
            bad = '%d task(s) still running after close()' % left
        ctx.oracle('a receive that can be satisfied is never left waiting', bad is None, bad, case)
        # 5. every send entry point: one event while the connection is open; WebSocketDisconnected and nothing passed to the server once the client's disconnect was handed over
        bad = None
        is_open = False; told = None
        si = 0
        for idx, (lab, ob, _) in enumerate(steps):
            if si < len(o['sendrec']) and o['sendrec'][si][0] == idx:
                _, ch, kind, n, sob, passed = o['sendrec'][si]; si += 1
                ctx.count('unbuffered_send_entry_' + kind)
                if bad is None and told is not None:
                    if sob != 'sendWsd:' + told or passed:
                        bad = ('%s after the client\'s disconnect had been reported gave %s and passed %d event(s) to the server (expected WebSocketDisconnected with code %s, nothing passed)'
                               % (SEND_NAMES[kind], sob, len(passed), told))
                    else:
                        ctx.count('unbuffered_send_entry_%s_told_disconnect' % kind)
                elif bad is None and is_open and ch == 'S':
                    w = wrong_event(kind, n, 'u', cfg['tagged'], passed)
                    if sob != 'sendOk':
                        bad = '%s on an open connection gave %s' % (SEND_NAMES[kind], sob)
                    elif w:
                        bad = '%s on an open connection: %s' % (SEND_NAMES[kind], w)
            if ob == 'acceptOk':
                is_open = True
            elif ob.startswith('wsdE:'):
                is_open = False; told = ob[5:]
            elif ob.startswith(('closeSent', 'sendWsd', 'sendVE')):
                is_open = False
        ctx.oracle('a client disconnect is reported to a sender promptly, and only then', bad is None, bad, case)
        sess.case({k: case[k] for k in ('spec_version', 'default_close_reasons', 'events', 'schedule', 'accept_first', 'receive_kinds', 'close_code', 'fail', 'ending', 'other_payload_key_is_None', 'sends', 'text_media_handler')})
        sess.op('cfg %s 0 run ' % cfg['ver'] + ' '.join(evtoks) + ' | ' + ' '.join(x[0] for x in steps),
                'hdr=%d ' % hdr + ' '.join('%s/%s' % (x[1], x[2]) for x in steps) + ' | ' + final)
        ctx.seen(('u', tuple(evtoks), sched, pre_accept, kinds, close_code, fail_kind, ending, variant, cfg['ver'], cfg['reasons'], cfg['sends'], cfg['tagged']), any(x.startswith('ret:') for x in obs))
        ctx.count('unbuffered_runs'); ctx.count('unbuffered_ending_' + ending); ctx.count('unbuffered_spec_version_' + cfg['ver'])
        for pre, name in (('wsdE', 'unbuffered_disconnect_received'), ('wsdS', 'unbuffered_receive_on_closed_socket'), ('perr', 'unbuffered_payload_type_error'),
                          ('cancelled', 'unbuffered_receive_cancelled_while_parked'), ('closeSent', 'unbuffered_closed_by_app'), ('sendWsd', 'unbuffered_send_saw_disconnect'),
                          ('sendRaised', 'unbuffered_send_error_passed_through'), ('na', 'unbuffered_operation_not_allowed')):
            if any(x.startswith(pre) for x in obs): ctx.count(name)
        if first_disc is not None and any(x == 'ret:' or x.startswith('ret:') for x in obs[first_disc:]):
            ctx.count('unbuffered_message_after_disconnect')   # never expected; the oracle above fails then

    async def main():
        rnd = ctx.rng
        i, nsh = ctx.shard
        ks = (1, 2) if ctx.quick else (1, 2, 3)
        j = 0
        for si, sched in enumerate(schedules(ctx.quick)):
            for k in ks:
                if (si + k) % nsh != i:
                    continue
                for disc in (None, 'd1001', 'd-'):
                    evtoks = ['t%d' % n for n in range(k)] + ([disc] if disc else [])
                    endings = ('drain', 'close') if len(sched) <= (3 if ctx.quick else 5) else ('drain',)
                    for ending in endings:
                        j += 1
                        args = (evtoks, sched, True, 't', None, None, ending, False, cfg_at(j))
                        judge_u(*args, await run_u(*args))
        # directed: every send entry point (and all of them in turn) before the accept, on the open connection, with the server's send() failing, and after a
        # receive has taken the client's disconnect / after close()
        d = 0
        for sends in ('t', 'd', 'm', 'T', 'B', 'tdmTB', 'BTmdt'):
            for k in (0, 1, 2):
                for disc in ('d1001', 'd-', 'd4000', None):
                    for tail in ('S', 'SS', 'SXS', 'FS', 'SSSSS', 'XS'):
                        d += 1
                        if d % nsh != i:
                            continue
                        for pre in ('', 'S', 'F'):
                            for fail_kind in ('os:1001', 'other'):
                                j += 1
                                evtoks = ['t%d' % n for n in range(k)] + ([disc] if disc else [])
                                sched = pre + 'RYDY' * len(evtoks) + tail
                                args = (evtoks, sched, j % 7 != 0, 't', None, fail_kind, 'drain', False, dict(cfg_at(j), sends=sends))
                                judge_u(*args, await run_u(*args))
                                ctx.count('unbuffered_directed_sender_runs')
        for _ in range(ctx.n(3000, 40000)):
            k = rnd.randint(0, 6)
            evtoks = [rnd.choice('ttb') + str(n) for n in range(k)]
            r = rnd.random()
            if r < 0.6:
                evtoks.append(rnd.choice(['d1001', 'd1000', 'd-', 'd4000', 'd1006', 'd3999', 'd0']))
                if rnd.random() < 0.15:
                    evtoks.append('t%d' % k)          # the server offers something after the disconnect: it must never be pulled
            sched = ''.join(rnd.choice('DDDRRRYYYYCSSXFA') for _ in range(rnd.randint(3, 30)))
            pre_accept = rnd.random() < 0.85
            kinds = rnd.choice(['t', 't', 'd', 'td', 'ttd', 'dt'])
            close_code = rnd.choice([None, None, 1000, 1001, 3000, 4999, 999, 0, 1004, 1005, 1006, 1014, 1015, 1999, 2000, 1003, 1007])
            fail_kind = rnd.choice(['ok1000', 'subproto', 'other', 'os:-', 'os:x', 'os:1001', 'os:1006', 'os:4000', 'os:0000'])
            ending = 'close' if rnd.random() < 0.25 else 'drain'
            args = (evtoks, sched, pre_accept, kinds, close_code, fail_kind, ending, rnd.random() < 0.3, cfg_random(rnd))
            judge_u(*args, await run_u(*args))
            ctx.count('unbuffered_random_runs')
    asyncio.run(main())
    sess.finish()


def run(ctx):
    import asyncio
    import collections
    import falcon.asgi.ws as wsmod
    from falcon import errors

    import logging
    import falcon
    falcon._logger.setLevel(logging.CRITICAL + 1)      # the App logs every refused route / failing responder of the histories below
    sp = send_points()
    handlers_for, do_send, wrong_event = sp
    opts = None
    pool = {'cur': None, 'apps': 0, 'conn': 0}
    hook = {}
    SCOPE = {'type': 'websocket', 'path': '/ws', 'query_string': b'', 'headers': [], 'subprotocols': [], 'http_version': '1.1', 'scheme': 'ws',
             'server': ('127.0.0.1', 8000), 'client': ('127.0.0.1', 50000), 'root_path': ''}

    class Parked:
        """the responder of the App entry point: accepts, hands the framework's WebSocket to the scheduler and parks until released"""
        async def on_websocket(self, req, ws):
            h = dict(hook)
            await ws.accept()
            h['instrument'](ws)
            h['box'].set_result(ws)
            how = await h['release']
            if how in ('return', 'raise'):        # the App itself closes the socket: right after the responder returned, or from its error handler
                h['log'].append('stop')
            if how == 'raise':
                raise RuntimeError('the responder failed')

    async def unrouted(app, ver):
        """one connection to a route the App does not know: refused during the handshake"""
        got = []
        first = [True]

        async def rcv():
            if first[0]:
                first[0] = False
                return {'type': 'websocket.connect'}
            await asyncio.get_running_loop().create_future()

        async def snd(m):
            got.append(m)
        t = asyncio.ensure_future(app(dict(SCOPE, path='/nope', asgi={'version': '3.0', 'spec_version': ver}), rcv, snd))
        for _ in range(50):
            if t.done():
                break
            await asyncio.sleep(0)
        if not t.done():
            t.cancel()
            await asyncio.gather(t, return_exceptions=True)
            return 'not finished'
        return 'closed with %s' % ','.join(str(m.get('code')) for m in got)

    async def via_app(cfg, cap, reasons, handlers, receive, send, instrument, log):
        """the WebSocket as an application gets it: built by falcon.asgi.App from the ws_options in force and the scope's announced spec version.
        One App object serves a HISTORY of connections (LIMITS: 1..3, or as the directed histories say): before each of them max_receive_queue, media_handlers,
        default_close_reasons (alternately by assigning new objects and by changing the existing dicts in place) and error_close_code are changed."""
        import falcon.asgi
        loop = asyncio.get_running_loop()
        ctl = cfg.get('app_ctl')
        cur = pool['cur']
        if cur is None or ctl == 'new' or (ctl != 'same' and len(cur['hist']) >= cur['limit']):
            app = falcon.asgi.App()
            app.add_route('/ws', Parked())
            cur = pool['cur'] = {'app': app, 'hist': [], 'ops': [], 'limit': LIMITS[pool['apps'] % len(LIMITS)]}
            pool['apps'] += 1
        app = cur['app']
        conn = pool['conn']; pool['conn'] += 1
        wo = app.ws_options
        if ctl is None and conn % 5 == 0:      # now and then a connection to an unknown route, under yet another capacity, comes first
            wo.max_receive_queue = (cap + 1 + conn // 5) % 5
            cur['ops'] += ['q%d' % wo.max_receive_queue, 'c' + cfg['ver']]
            cur['hist'].append('max_receive_queue=%d, unknown route: %s' % (wo.max_receive_queue, await unrouted(app, cfg['ver'])))
        style = 'assigned' if conn % 2 else 'changed in place'
        err = ERR_CODES[conn % len(ERR_CODES)]
        if conn % 2:
            wo.default_close_reasons = reasons
            wo.media_handlers = handlers
        else:
            wo.default_close_reasons.clear(); wo.default_close_reasons.update(reasons)
            wo.media_handlers.update(handlers)
        wo.error_close_code = err
        untouched = not cur['hist'] and cap == 4 and conn % 2 == 0      # a new App is sometimes left with the stock max_receive_queue (4)
        if not untouched:
            wo.max_receive_queue = cap
            cur['ops'].append('q%d' % cap)
        info = {'history': list(cur['hist']), 'ops': ','.join(cur['ops']) or '-', 'error_close_code': err, 'options': style, 'queue_option_untouched': untouched}
        cur['hist'].append('max_receive_queue=%d' % cap)
        cur['ops'].append('c' + cfg['ver'])
        box = loop.create_future(); release = loop.create_future()
        hook.update(box=box, release=release, instrument=instrument, log=log)
        first = [True]

        async def app_receive():
            if first[0]:
                first[0] = False
                return {'type': 'websocket.connect'}
            return await receive()
        task = asyncio.ensure_future(app(dict(SCOPE, asgi={'version': '3.0', 'spec_version': cfg['ver']}), app_receive, send))
        for _ in range(50):
            if box.done() or task.done():
                break
            await asyncio.sleep(0)
        return (box.result() if box.done() else None), task, release, info
    sess = ctx.session('_BufferedReceiver event log (real WebSocket on a scripted loop) is a trace of the Wb segment model', 'wbdriver')
    f13_recorded = [0]

    class LogDeque(collections.deque):
        def __init__(s, log):
            super().__init__(); s.log = log; s.maxseen = 0

        def append(s, x):
            super().append(x); s.maxseen = max(s.maxseen, len(s)); s.log.append('append:%d' % x['n'])

        def popleft(s):
            x = super().popleft(); s.log.append('popleft:%d' % x['n']); return x

    class LogFut(asyncio.Future):
        def set_result(s, v):
            s._log.append('resolve' + s._who); super().set_result(v)

        def cancel(s, *a, **k):
            if not s.done() and s._who == 'App':
                s._log.append('cancelApp')
            return super().cancel(*a, **k)

    class LoopProxy:
        def __init__(s, loop, log, br):
            s.loop = loop; s.log = log; s.br = br

        def create_future(s):
            who = 'Pump' if asyncio.current_task() is s.br._pump_task else 'App'
            f = LogFut(loop=s.loop); f._log = s.log; f._who = who; s.log.append('mkfut' + who); return f

        def __getattr__(s, n):
            return getattr(s.loop, n)

    async def run_one(cap, k, disc, sched, ending, cfg):
        """ending: 'drain' (deliver everything, receive everything), 'close' (ws.close() right after the schedule);
        cfg: announced spec version, entry point (direct construction / through falcon.asgi.App), default_close_reasons empty or stock"""
        nonlocal opts
        loop = asyncio.get_running_loop()
        if opts is None:
            opts = wsmod.WebSocketOptions()
        log = []
        events = [{'type': 'websocket.receive', 'text': 'm%d' % i, 'n': i} for i in range(k)]
        if disc:
            events.append({'type': 'websocket.disconnect', 'code': 1001, 'n': DISC})
        o = {'pending': [], 'delivered': 0, 'maxpulls': 0, 'got': [], 'errors': [], 'sent': [], 'sends': [], 'f13': None, 'bound': None,
             'pull_idle': None, 'closed': False, 'disc_delivered': False, 'turns_since_disc': 0, 'prompt': None, 'active_recv': 0,
             'quiet': 0, 'readahead': None, 'props': None, 'entry_failed': None, 'nsend': 0, 'told': False, 'options': None, 'app': None,
             'send_kinds': [], 'told_kinds': [], 'nburst': 0, 'burst_ops': 0, 'by_send': set(), 'idle': False}
        sends = cfg.get('sends', 't'); tagged = cfg.get('tagged', False); finish = cfg.get('finish', 'harness')
        bursts = cfg.get('bursts') or ['rr']; eager = bool(cfg.get('eager'))

        def hand_over():
            ev = events[o['delivered']]; o['delivered'] += 1
            log.append('deliver:%d' % ev['n'])
            if ev['n'] == DISC:
                o['disc_delivered'] = True; o['turns_since_disc'] = 0
            return ev

        async def receive():
            f = loop.create_future(); o['pending'].append(f); log.append('pull')
            o['maxpulls'] = max(o['maxpulls'], len(o['pending']))
            if cap == 0 and o['active_recv'] == 0 and o['pull_idle'] is None:
                o['pull_idle'] = 'unbuffered mode pulled from the server although no receive was in progress'
            if eager and o['delivered'] < len(events):
                # a server that has the client's events at hand (an asyncio.Queue that is not empty): its receive() returns without suspending
                o['pending'].remove(f)
                return hand_over()
            try:
                return await f
            except asyncio.CancelledError:
                if f.done() and not f.cancelled():         # the server keeps an event nobody took
                    o['delivered'] -= 1
                raise
            finally:
                if f in o['pending']:
                    o['pending'].remove(f)

        async def send(m):
            o['sent'].append(m)
        def instrument(w):
            b = w._buffered_receiver
            if cap > 0:
                b._messages = LogDeque(log); b._loop = LoopProxy(loop, log, b)
        reasons = dict(opts.default_close_reasons) if cfg['reasons'] else {}
        o['tag'] = tag = 'h%d' % pool['conn']
        handlers = handlers_for(tag, tagged, opts.media_handlers)
        app_task = release = None
        released = False
        err_code = None
        if cfg['entry'] == 'direct':
            ws = wsmod.WebSocket(cfg['ver'], {'subprotocols': []}, receive, send, handlers, cap, reasons)
            await ws.accept()
            instrument(ws)
        else:
            ws, app_task, release, o['app'] = await via_app(cfg, cap, reasons, handlers, receive, send, instrument, log)
            err_code = o['app']['error_close_code']
            if ws is None:
                o['entry_failed'] = 'falcon.asgi.App did not hand an accepted WebSocket to the responder (task %s)' % (
                    'raised %r' % (app_task.exception(),) if app_task.done() and not app_task.cancelled() else 'still pending')
                app_task.cancel()
                await asyncio.gather(app_task, return_exceptions=True)
                for f in list(o['pending']):
                    f.cancel()
                await asyncio.sleep(0)
                o['sent_at_accept'] = len(o['sent'])
                return o, log, None, False, None, events
        br = ws._buffered_receiver
        o['hdr'] = 1 if ws.supports_accept_headers else 0
        o['sent_at_accept'] = len(o['sent'])
        pump_task = br._pump_task
        o['pump_started'] = pump_task is not None
        recv_task = None

        async def do_recv():
            if o['closed']:          # a send noticed the disconnect / the socket was closed after this receive was requested
                return
            log.append('recvStart'); o['active_recv'] += 1
            try:
                t = await ws.receive_text()
                n = int(t[1:]); o['got'].append(n); log.append('recvRet:%d' % n)
            except errors.WebSocketDisconnected as e:
                if e.code == 1001:
                    o['got'].append(DISC); log.append('recvRet:%d' % DISC); o['told'] = True
                else:
                    o['got'].append('synthetic'); log.append('recvSynthetic')
                o['closed'] = True
            except asyncio.CancelledError:
                log.append('recvCancelled'); raise
            except BaseException as e:  # noqa
                o['errors'].append('receive raised %s: %s' % (type(e).__name__, e))
            finally:
                o['active_recv'] -= 1

        def observe():
            # the public properties: an open connection before the client's disconnect was handed over, a lost one a loop turn after
            # (unbuffered mode: the disconnect is handed over to a receive, which reports it itself: o['closed'])
            if o['props'] is None and not o['closed']:
                lost = cap > 0 and o['disc_delivered']
                if lost and o['turns_since_disc'] >= 1 and (not ws.closed or ws.ready):
                    o['props'] = ('closed=%s ready=%s although the disconnect had been handed to the framework %d loop turn(s) earlier (after %d steps)'
                                  % (ws.closed, ws.ready, o['turns_since_disc'], len(o['trail'])))
                elif not lost and (ws.closed or not ws.ready):
                    o['props'] = 'closed=%s ready=%s although the client had not disconnected and nothing was closed (after %d steps)' % (ws.closed, ws.ready, len(o['trail']))
            if cap == 0:
                return
            dql = len(br._messages); ret = len([g for g in o['got'] if g != 'synthetic'])
            h = o['delivered'] - ret; inflight = h - dql
            unresolved = len([f for f in o['pending'] if not f.done()])
            if dql > cap or h > cap + 1 or inflight not in (0, 1) or unresolved + inflight > 1 or o['maxpulls'] > 1:
                if o['bound'] is None:
                    o['bound'] = ('queue length %d, held %d (in flight %d), outstanding pulls %d (max %d) with capacity %d'
                                  % (dql, h, inflight, unresolved, o['maxpulls'], cap))
            elif h == cap + 1 and dql == cap and inflight == 1 and o['f13'] is None:
                o['f13'] = 'after %d steps: queue %d, in flight 1' % (len(o['trail']), dql)
            # read-ahead: with room for more (fewer than the configured number held), a connected client and a quiescent loop (two turns
            # without any other step), the framework must be waiting on the server - otherwise a disconnect that reaches the server now
            # could not be reported to a sender
            # (with an eager server or a burst task, pump and application can keep each other busy for several turns: the loop is quiescent only if
            # nothing was logged during the last turn either - every resumption of a task logs a step)
            if (o['readahead'] is None and o['quiet'] >= 2 and o['idle'] and not o['closed'] and not o['disc_delivered'] and h < cap and unresolved == 0):
                o['readahead'] = ('after %d steps (%d quiet loop turns): the framework holds %d event(s) of the %d configured, the client is connected, '
                                  'yet no pull on the server is outstanding' % (len(o['trail']), o['quiet'], h, cap))

        async def step(ch):
            nonlocal recv_task
            o['trail'].append(ch)
            o['quiet'] = o['quiet'] + 1 if ch == 'Y' else 0
            n_log0 = len(log)
            if ch == 'D':
                live = [f for f in o['pending'] if not f.done()]
                if live and o['delivered'] < len(events):
                    f = live[0]; o['pending'].remove(f)
                    f.set_result(hand_over())
            elif ch == 'R':
                if (recv_task is None or recv_task.done()) and not o['closed']:
                    recv_task = asyncio.ensure_future(do_recv())
            elif ch == 'B':
                # ONE application task that performs several operations back to back - consecutive receives (r), sends in between (s) - without ever
                # yielding to the event loop on its own: an `await ws.receive_*()` that finds a message, and a send to a server whose send() does not
                # suspend, return without a loop turn, so the pump does not get to run between them
                if (recv_task is None or recv_task.done()) and not o['closed']:
                    pat = bursts[o['nburst'] % len(bursts)]; o['nburst'] += 1
                    o['burst_ops'] += len(pat)
                    recv_task = asyncio.ensure_future(do_burst(pat))
            elif ch == 'Y':
                await asyncio.sleep(0)
                if o['disc_delivered']:
                    o['turns_since_disc'] += 1
            elif ch == 'C':
                if recv_task is not None and not recv_task.done():
                    recv_task.cancel()
            elif ch == 'S':
                await do_send_once()
            o['idle'] = ch == 'Y' and len(log) == n_log0
            observe()

        async def do_burst(pat):
            for op in pat:
                if op == 'r':
                    await do_recv()
                else:
                    await do_send_once()

        async def do_send_once():
            if True:
                # a sender that was told about the client's disconnect (by a send or by a receive) may try again, through any entry point: it must be told again
                if not o['closed'] or o['told']:
                    kind = sends[o['nsend'] % len(sends)]; n = o['nsend']; o['nsend'] += 1
                    before = len(o['sent'])
                    try:
                        await do_send(ws, kind, n); r = 'ok'; log.append('sendOk')
                    except errors.WebSocketDisconnected as e:
                        r = 'WSD:%d' % e.code; log.append('sendDisc'); o['closed'] = True
                        if e.code == 1001: o['told'] = True
                    except BaseException as e:  # noqa
                        r = type(e).__name__; o['errors'].append('%s raised %s: %s' % (SEND_NAMES[kind], r, e))
                    o['sends'].append(r); o['send_kinds'].append(kind)
                    passed = o['sent'][before:]
                    o['by_send'].update(id(m) for m in passed)
                    if cap > 0:
                        must_fail = (o['disc_delivered'] and o['turns_since_disc'] >= 1) or o['told']
                        must_pass = not o['disc_delivered']
                    else:
                        must_fail = DISC in o['got']; must_pass = not must_fail
                    if must_fail and r == 'WSD:1001' and not passed:
                        o['told_kinds'].append(kind)
                    if o['prompt'] is None:
                        if must_fail and (r != 'WSD:1001' or passed):
                            o['prompt'] = ('%s (send #%d) returned %s and passed %d event(s) to the server although the disconnect had been handed to the framework %d loop turn(s) earlier'
                                           % (SEND_NAMES[kind], n, r, len(passed), o['turns_since_disc']))
                        elif must_pass and r != 'ok':
                            o['prompt'] = '%s (send #%d) raised %s although the client had not disconnected' % (SEND_NAMES[kind], n, r)
                        elif r != 'ok' and passed:
                            o['prompt'] = '%s (send #%d) raised %s, yet passed %r to the server' % (SEND_NAMES[kind], n, r, passed)
                        elif r == 'ok' and len(passed) != 1:
                            o['prompt'] = '%s (send #%d) returned, but %d events reached the server instead of exactly 1' % (SEND_NAMES[kind], n, len(passed))
                    if r == 'ok' and o['options'] is None and len(passed) == 1:
                        w = wrong_event(kind, n, tag, tagged, passed)
                        if w:
                            o['options'] = '%s (send #%d): %s' % (SEND_NAMES[kind], n, w)
        o['trail'] = []
        for ch in sched:
            await step(ch)
        leftover = None
        if ending == 'close':
            o['trail'].append('X')
            before = len(o['sent'])
            # close() as the last send entry point: it passes exactly one close event to the server, or nothing once the client's disconnect was handed over
            if cap > 0:
                lost = (o['disc_delivered'] and o['turns_since_disc'] >= 1) or o['closed']
                connected = not o['disc_delivered']
            else:
                lost = o['closed']; connected = not o['disc_delivered']
            if app_task is not None and finish in ('return', 'raise'):
                # the App closes: the responder logs 'stop' and returns / raises; nothing else runs between that and the cancellation of the pump
                released = True
                release.set_result(finish)
                for _ in range(30):
                    if app_task.done():
                        break
                    await asyncio.sleep(0)
                code = 1000 if finish == 'return' else err_code
                o['closer'] = 'the App, after the responder returned' if finish == 'return' else 'the App\'s error handler (error_close_code=%d), after the responder raised' % err_code
            else:
                log.append('stop')
                await ws.close()
                code = 1000
                o['closer'] = 'the application (ws.close())'
            o['closed'] = True
            # (what a burst task passed to the server through a send entry point while close() was in progress was judged there)
            passed = [m for m in o['sent'][before:] if id(m) not in o['by_send']]
            if o['disc_delivered']:         # (an eager server may have handed the disconnect over while the closing sequence was running: then nothing or the close event)
                connected = False
            want = close_event(code, cfg['ver'], reasons)
            if lost and passed:
                o['prompt'] = o['prompt'] or ('close() by %s passed %r to the server although the client\'s disconnect had been handed over %d loop turn(s) earlier'
                                              % (o['closer'], passed, o['turns_since_disc']))
            elif connected and passed != [want] or passed not in ([], [want]):
                if [m.get('type') for m in passed] == ['websocket.close']:
                    o['options'] = o['options'] or 'close() by %s passed %r to the server, expected %r by the options in force' % (o['closer'], passed, want)
                elif leftover is None:
                    leftover = 'close() by %s passed %r to the server instead of one close event although the client had not disconnected' % (o['closer'], passed)
            if cap > 0 and pump_task is not None and not pump_task.done():
                leftover = 'the pump task is still pending when close() returns'
            if br._pump_task is not None and leftover is None:
                leftover = '_pump_task is still referenced after close()'
            if cap > 0 and [f for f in o['pending'] if not f.done()] and leftover is None:
                leftover = 'a pull on the server is still outstanding after close()'
            for _ in range(4):
                await asyncio.sleep(0)
        else:
            for _ in range(3 * (len(events) + 2)):
                for c in 'YYDYYRYY':
                    await step(c)
            for _ in range(4):
                await step('Y')
        waiting = recv_task is not None and not recv_task.done()
        final = {'q': len(br._messages) if cap > 0 else 0, 'disc': 1 if br.client_disconnected else 0,
                 'pump': 1 if (br._pump_task is not None and not br._pump_task.done()) else 0}
        ret = len([g for g in o['got'] if g != 'synthetic'])
        final['held'] = final['q'] if ending == 'close' else o['delivered'] - ret
        final['ret'] = ret; final['dlv'] = len([x for x in log if x.startswith('deliver:')])
        n_log = len(log)
        # clean up
        if waiting:
            recv_task.cancel()
        if recv_task is not None:
            await asyncio.gather(recv_task, return_exceptions=True)
        if ending != 'close':
            await ws.close()
        if app_task is not None:            # let the parked responder return: the App then closes (a no-op here) and finishes
            if not released:
                release.set_result(None)
            for _ in range(20):
                if app_task.done():
                    break
                await asyncio.sleep(0)
            if not app_task.done():
                o['errors'].append('the App task did not finish after the responder returned')
            elif app_task.exception() is not None:
                o['errors'].append('the App task raised %r' % (app_task.exception(),))
        for f in list(o['pending']):
            f.cancel()
        for _ in range(2):
            await asyncio.sleep(0)
        left = [t for t in asyncio.all_tasks() if t is not asyncio.current_task() and not t.done()]
        if left and leftover is None:
            leftover = '%d task(s) still running after close()' % len(left)
        for t in left:
            t.cancel()
        if left:
            await asyncio.gather(*left, return_exceptions=True)
        return o, log[:n_log], final, waiting, leftover, events

    def judge(cap, k, disc, sched, ending, cfg, res):
        o, log, final, waiting, leftover, events = res
        case = {'capacity': cap, 'spec_version': cfg['ver'], 'entry': cfg['entry'] + (' (falcon.asgi.App, ws_options.max_receive_queue=%d)' % cap if cfg['entry'] == 'app' else ''),
                'default_close_reasons': 'stock' if cfg['reasons'] else 'empty', 'messages': k, 'disconnect': disc, 'schedule': sched, 'ending': ending,
                'sends': cfg.get('sends', 't'), 'send_results': ' '.join('%s:%s' % kr for kr in zip(o['send_kinds'], o['sends'])),
                'text_media_handler': 'tagged' if cfg.get('tagged') else 'stock JSON',
                'legend': 'D deliver next event into the outstanding pull, R start receive_text(), B start ONE task that performs the operations of the next pattern of `bursts` back to back without yielding (r = receive_text(), s = send), '
                          'Y one loop turn, C cancel the pending receive / burst, S send (entry point by `sends`), then drain=(YYDYYRYY)* or close(); server eager = its receive() returns an event it has without suspending (no D needed); ' + SEND_LEGEND,
                'bursts': ' '.join(cfg.get('bursts') or []) if 'B' in sched else '-', 'server': 'eager' if cfg.get('eager') else 'hands an event over at each D',
                'received': o['got'], 'event_log': log[:120]}
        if o.get('closer'):
            case['closed_by'] = o['closer']
        hist = ()
        if o['app'] is not None:
            a = o['app']; hist = tuple(a['history'])
            case['app_object_history'] = ('earlier connections served by the same falcon.asgi.App object: %s; then ws_options %s for this connection'
                                          % ('; '.join(a['history']) or 'none (new App)', 'left at the stock max_receive_queue, other options ' + a['options'] if a['queue_option_untouched'] else a['options']))
            case['error_close_code'] = a['error_close_code']
            ctx.count('app_connection_%d_of_its_app_object' % min(len(hist) + 1, 4))
            earlier = [h for h in hist]
            if earlier and not earlier[-1].startswith('max_receive_queue=%d' % cap):
                ctx.count('app_max_receive_queue_changed_since_previous_connection')
            if any('unknown route' in h for h in hist):
                ctx.count('app_served_an_unknown_route_before')
            if a['queue_option_untouched']:
                ctx.count('app_new_object_with_untouched_queue_option')
        ctx.count('spec_version_' + cfg['ver']); ctx.count('entry_' + cfg['entry'])
        if cfg['reasons']: ctx.count('with_stock_close_reasons')
        ctx.oracle('the configured application gets an accepted WebSocket', o['entry_failed'] is None, o['entry_failed'], case)
        if o['entry_failed'] is not None:
            return
        exp = list(range(k)) + ([DISC] if disc else [])
        got = [g for g in o['got']]
        # 1. FIFO / once / lossless
        bad = None
        real = [g for g in got if g != 'synthetic']
        if real != exp[:len(real)]:
            bad = 'received %r is not a prefix of the sent sequence %r (order / duplication)' % (got, exp)
        elif 'synthetic' in got and ending != 'close' and got.index('synthetic') < len(exp):
            bad = 'a synthetic disconnect was reported before the client\'s events were delivered: %r' % got
        elif o['errors']:
            bad = '; '.join(o['errors'])
        elif ending == 'drain' and not any(s.startswith('WSD') for s in o['sends']) and real != exp:
            bad = 'lost: received %r of %r after everything was delivered and received' % (got, exp)
        ctx.oracle('the application receives exactly the client\'s messages, in order, each once; the disconnect after the messages that preceded it',
                   bad is None, bad, case)
        # 2. bounds
        if cap > 0:
            ctx.oracle('queue <= capacity, held <= capacity + 1, at most one pull outstanding and none while an event is in flight',
                       o['bound'] is None, o['bound'], case)
            if o['bound'] is not None:
                # beyond the known class: must not be swallowed by the known finding
                ctx.oracle(F13_NAME, False, 'bound exceeded beyond the known class: ' + o['bound'], case)
            elif o['f13'] is not None:
                ctx.count('f13_runs_held_eq_capacity_plus_1')
                if f13_recorded[0] < 3:
                    f13_recorded[0] += 1
                    ctx.oracle(F13_NAME, False, F13_WHAT, dict(case, where=o['f13']))
            else:
                ctx.oracle(F13_NAME, True)
            ctx.oracle('while fewer than the configured number of events are held and the client is connected, the framework keeps a pull outstanding on the server (it reads ahead, so a disconnect can be noticed while the application only sends)',
                       o['readahead'] is None, o['readahead'], case)
        else:
            b = o['pull_idle'] or ('%d pulls outstanding at once' % o['maxpulls'] if o['maxpulls'] > 1 else None)
            ctx.oracle('unbuffered mode: one pull per receive in progress, nothing pulled ahead', b is None, b, case)
        # 3. no lost wake-up
        bad = None
        if ending == 'drain' and waiting:
            avail = final['held']
            if avail > 0 or (cap > 0 and final['q'] > 0):
                bad = 'a receive is still waiting although %d delivered event(s) are held by the framework (queue %d)' % (avail, final['q'])
            elif disc and DISC not in o['got'] and o['delivered'] == len(events):
                bad = 'a receive is still waiting although the disconnect was delivered'
        ctx.oracle('a receive that can be satisfied is never left waiting', bad is None, bad, case)
        # 4. disconnect reported to a sender promptly
        ctx.oracle('a client disconnect is reported to a sender promptly, and only then', o['prompt'] is None, o['prompt'], case)
        ctx.oracle('every connection uses the options in force when it was made: each send entry point delivers its payload (media through the configured handler), close() the configured code and reason',
                   o['options'] is None, o['options'], case)
        ctx.oracle('closed / ready report the client\'s disconnect one loop turn after it was handed to the framework, and an open connection before',
                   o['props'] is None, o['props'], case)
        # 5. closing stops the reader
        ctx.oracle('closing stops the background reader: no task left running, no outstanding pull', leftover is None, leftover, case)
        # correspondence: the logged atomic steps are a trace of the model, with matching final observables
        # the model decides which receive path the socket uses - from (spec version, max_receive_queue) for a WebSocket constructed directly (Wm.wire), from the
        # App object's history of option changes and earlier connections for one made by falcon.asgi.App (Wm.serve) - and then replays the log on it
        head = 'cfg %s %d' % (cfg['ver'], cap) if o['app'] is None else 'hist %s %s' % (o['app']['ops'], cfg['ver'])
        if cap > 0 or o['app'] is not None:
            meta = {'capacity': cap, 'spec_version': cfg['ver'], 'entry': cfg['entry'], 'default_close_reasons': case['default_close_reasons'],
                    'messages': k, 'disconnect': disc, 'schedule': sched, 'ending': ending, 'sends': case['sends'], 'bursts': case['bursts'], 'server': case['server']}
            if o['app'] is not None:
                meta['app_object_history'] = case['app_object_history']
                meta['protocol'] = 'hist: q<n> = ws_options.max_receive_queue = n, c<ver> = an earlier connection of the same App object'
            if o.get('closer'):
                meta['closed_by'] = o['closer']
            sess.case(meta)
            if cap > 0:
                sess.op(head + ' log ' + ' '.join(log),
                        'hdr=%d accepted q=%d held=%d ret=%d dlv=%d disc=%d pump=%d' % (o['hdr'], final['q'], final['held'], final['ret'], final['dlv'], final['disc'], final['pump']))
            else:
                sess.op(head + ' log ' + ' '.join(log), 'hdr=%d %s' % (o['hdr'], 'a pump task was started' if o['pump_started'] else 'direct'))
        ctx.seen((cap, k, disc, sched, ending, cfg['ver'], cfg['entry'], cfg['reasons'], cfg.get('sends', 't'), cfg.get('tagged', False), o.get('closer'), hist,
                  tuple(cfg.get('bursts') or ()) if 'B' in sched else (), bool(cfg.get('eager'))),
                 bool([g for g in got if isinstance(g, int) and g != DISC]))
        for kd in o['send_kinds']: ctx.count('send_entry_' + kd)
        for kd in o['told_kinds']: ctx.count('send_entry_%s_told_disconnect' % kd)
        if o.get('closer'):
            ctx.count('closed_by_' + ('application' if o['closer'].startswith('the application') else 'app_after_return' if 'returned' in o['closer'] else 'app_error_handler'))
        ctx.count('capacity_%d' % cap); ctx.count('ending_' + ending)
        if 'C' in sched: ctx.count('with_cancellation')
        if 'recvCancelled' in log: ctx.count('receive_actually_cancelled_while_parked')
        if 'S' in sched: ctx.count('with_send')
        if 'sendDisc' in log: ctx.count('send_saw_disconnect')
        if disc: ctx.count('with_disconnect')
        if 'mkfutPump' in log: ctx.count('pump_parked_on_full_queue')
        if 'recvSynthetic' in log: ctx.count('synthetic_disconnect')
        if o['nburst']:
            ctx.count('with_burst_of_consecutive_operations'); ctx.count('burst_operations', o['burst_ops'])
            # the pump was parked holding an event and the burst emptied the queue before the pump ran again
            if 'mkfutPump' in log: ctx.count('burst_after_the_pump_was_parked_on_a_full_queue')
        if cfg.get('eager'): ctx.count('server_eager')

    async def main():
        rnd = ctx.rng
        i, nsh = ctx.shard
        j = 0
        ks = (1, 2) if ctx.quick else (1, 2, 3)
        for si, sched in enumerate(schedules(ctx.quick)):
            for cap in (0, 1, 2, 3, 4):
                for k in ks:
                    if (si + cap + k) % nsh != i:       # a shard runs all disconnect/ending variants of its (schedule, capacity, k)
                        continue
                    for disc in (False, True):
                        endings = ('drain', 'close') if len(sched) <= (3 if ctx.quick else 5) else ('drain',)
                        for ending in endings:
                            j += 1
                            cfg = cfg_at(j)
                            judge(cap, k, disc, sched, ending, cfg, await run_one(cap, k, disc, sched, ending, cfg))
        ctx.count('exhaustive_runs', j)
        # configuration cross product: every schedule of length <= 2 under every spec version x entry point x capacity x disconnect x ending
        import itertools
        c = 0
        for l in (0, 1, 2):
            for sch in itertools.product('DRYCS', repeat=l):
                for cap in (0, 1, 2, 3, 4):
                    c += 1
                    if c % nsh != i:
                        continue
                    for ver in VERSIONS:
                        for entry in ('direct', 'app'):
                            for disc in (False, True):
                                for ending in ('drain', 'close'):
                                    j += 1
                                    cfg = {'ver': ver, 'entry': entry, 'reasons': (c + len(ver)) % 2 == 0, 'sends': SEND_KINDS[j % 5], 'tagged': j % 4 < 2, 'finish': FINISHES[j % 3]}
                                    sched = ''.join(sch)
                                    judge(cap, 2, disc, sched, ending, cfg, await run_one(cap, 2, disc, sched, ending, cfg))
                                    ctx.count('configuration_cross_product_runs')
        # directed: fill the queue (capacity + 1 deliveries: queue full, pump parked holding one), then every tail of <= 2 steps, then drain / close
        d = 0
        for cap in (1, 2, 3, 4):
            base = 'Y' + 'DY' * (cap + 1)
            for l in (0, 1, 2):
                for tail in itertools.product('DRYCS', repeat=l):
                    d += 1
                    if d % nsh != i:
                        continue
                    for k in (cap + 1, cap + 2):
                        for disc in (False, True):
                            for ending in ('drain', 'close'):
                                sched = base + ''.join(tail)
                                j += 1
                                cfg = cfg_at(j)
                                judge(cap, k, disc, sched, ending, cfg, await run_one(cap, k, disc, sched, ending, cfg))
                                ctx.count('directed_full_queue_runs')
        # directed: A BACKLOG READ BACK TO BACK. capacity + j events (j = 0..3; the last one the client's disconnect or not) reach the server before the application's
        # first receive - handed over one per loop turn while nobody receives (the pump fills the queue and parks holding one more; what does not fit stays at the
        # server), or all at hand at an eager server -, then ONE application task performs m consecutive receives (m = 1 .. backlog + 1, optionally a send after
        # each receive) without yielding, then every tail of <= 1 step, then drain / close.  The burst pops the message that un-parks the pump and goes on to
        # empty the queue (and to wait) before the pump has run again.
        b = 0
        for cap in (0, 1, 2, 3, 4):
            for extra in (0, 1, 2, 3):
                nev = cap + extra
                if nev == 0:
                    continue
                for disc in (False, True):
                    k = nev - 1 if disc else nev
                    for eager in (False, True):
                        for m in range(1, nev + 2):
                            for with_sends in (False, True):
                                b += 1
                                if b % nsh != i or (with_sends and (m + extra) % 2):
                                    continue
                                pat = ('rs' * m) if with_sends else 'r' * m
                                for tail in ('', 'Y', 'D', 'R', 'B'):
                                    for ending in (('drain', 'close') if tail in ('', 'Y') else ('drain',)):
                                        j += 1
                                        cfg = dict(cfg_at(j), bursts=[pat, 'rr'], eager=eager)
                                        sched = ('Y' if eager else 'Y' + 'DY' * nev) + 'B' + tail
                                        judge(cap, k, disc, sched, ending, cfg, await run_one(cap, k, disc, sched, ending, cfg))
                                        ctx.count('directed_backlog_read_back_to_back_runs')
        # directed: HISTORIES OF CONNECTIONS on one falcon.asgi.App object. Every pair and every triple of capacities 0..4 in turn on the same App (options changed
        # in between, also between construction and the first connection); each connection runs a scenario in which its own capacity matters:
        #   over   - capacity + 3 messages and a disconnect are handed over one per loop turn while nobody receives (bound, read-ahead), then drained (FIFO);
        #   sender - min(capacity, 1) unread message(s), then the disconnect, while the application only sends (told promptly iff a pump reads ahead), then close();
        #   short  - one message received, then close()
        def scenario(name, cap, q):
            if name == 'over':
                return cap + 3, True, 'Y' + 'DY' * (cap + 2), 'drain'
            if name == 'sender':
                u = min(cap, q % 2)
                return u, True, 'SY' + 'DY' * u + 'SDYSYS', 'close'
            return 1, q % 2 == 0, 'YDRY', 'close'
        h = 0
        seqs = [(a, b) for a in range(5) for b in range(5)] + [(a, b, c3) for a in range(5) for b in range(5) for c3 in range(5)]
        for caps in seqs:
            if len(caps) == 2:
                plans = (('short', 'over'), ('over', 'sender'), ('sender', 'over'), ('short', 'sender'))
            else:
                r = sum(caps) % 3
                plans = ((('short', 'sender', 'over') * 2)[r:r + 3],)
            for names in plans:
                h += 1
                if h % nsh != i:
                    continue
                for pos, cap in enumerate(caps):
                    j += 1
                    cfg = dict(cfg_at(j), entry='app', app_ctl='same' if pos else 'new')
                    k, disc, sched, ending = scenario(names[pos], cap, h + pos)
                    judge(cap, k, disc, sched, ending, cfg, await run_one(cap, k, disc, sched, ending, cfg))
                    ctx.count('directed_app_history_connections')
                ctx.count('directed_app_histories_of_%d_connections' % len(caps))
        pool['cur'] = None
        # directed: a SENDING-ONLY application around the client's disconnect, through every send entry point (and all of them in turn) and close(): capacity x
        # unread messages 0..capacity in front of the disconnect (u = capacity: the pump is parked holding the disconnect) x entry point x what follows the hand-over
        e = 0
        for cap in (0, 1, 2, 3, 4):
            for u in range(0, cap + 1):
                for sends in ('t', 'd', 'm', 'T', 'B', 'tdmTB', 'BTmdt'):
                    for tail in ('S', 'YS', 'YSS', 'YYSYSSSS', 'Y', 'YY', ''):
                        e += 1
                        if e % nsh != i:
                            continue
                        for entry in ('direct', 'app'):
                            for ending in ('close', 'drain'):
                                j += 1
                                cfg = dict(cfg_at(j), entry=entry, sends=sends)
                                sched = 'SY' + 'DY' * u + 'S' + 'D' + tail
                                judge(cap, u, True, sched, ending, cfg, await run_one(cap, u, True, sched, ending, cfg))
                                ctx.count('directed_sender_only_runs')
        for _ in range(ctx.n(4000, 60000)):
            cap = rnd.choice([0, 1, 1, 2, 3, 4]); k = rnd.randint(1, 8); disc = rnd.random() < 0.5
            sched = ''.join(rnd.choice('DDRRYYYCSB' if _ % 2 else 'DDRRYYYCS') for _ in range(rnd.randint(5, 40)))
            if _ % 4 == 3:
                # a backlog first: capacity + j events handed over while nobody receives
                sched = 'Y' + 'DY' * min(k + int(disc), cap + rnd.randint(0, 2)) + sched
            ending = 'close' if rnd.random() < 0.25 else 'drain'
            cfg = cfg_random(rnd)
            judge(cap, k, disc, sched, ending, cfg, await run_one(cap, k, disc, sched, ending, cfg))
            ctx.count('random_runs')
    asyncio.run(main())
    n13 = ctx.dist.get('f13_runs_held_eq_capacity_plus_1', 0)
    if n13:
        ctx.notes.append('shard %d: held == capacity + 1 (F13) observed in %d runs; the first %d are recorded as failures of oracle %r, the rest only counted'
                         % (ctx.shard[0], n13, f13_recorded[0], F13_NAME))
    sess.finish()
    unbuffered_session(ctx, wsmod, errors, sp)


LEVEL_TEXT = ('Machine-checked proofs (Lean 4) over an atomic-segment transition system of falcon/asgi/ws.py _BufferedReceiver (pump task, receive(), cancellation of a parked '
              'receive, the flag read by WebSocket._send, stop()): the safety invariant is preserved by every segment (segments_preserve), every segment conserves '
              'returned ++ held = held ++ delivered as lists (segments_conserve), hence every accepted interleaving is FIFO, lossless and duplicate-free (fifo_lossless_once); '
              'held <= capacity + 1 with the exact shape of the excess (held_le_capacity_succ, held_succ_only_when_full, f13_witness); no lost wake-up; monotone, promptly set '
              'disconnect flag; stop() leaves no pump segment enabled; every accepted log is a run of the plain FIFO queue under the abstraction held (buffered_refines_fifo). '
              'Unbuffered mode (max_receive_queue = 0, the server\'s receive bound directly) has its own small-step model Wu (accept / receive call / hand-over+resume / cancel / send with server failure classes / close): '
              'for every schedule handed-over ++ at-the-server = arrived and observed = handed-over (fifo_lossless_once, nothing_buffered), the disconnect is consumed exactly after everything before it and is sticky '
              '(disconnect_after_preceding, disconnect_sticky), a parked receive with an event available can always complete (parked_receive_completes); both paths refine the same FIFO specification '
              '(unbuffered_refines_fifo, buffered_unbuffered_agree). Which of the two paths a socket runs is decided by WebSocket.__init__ from max_receive_queue alone (model Wm: path_ignores_version, buffered_iff, '
              'direct_iff, configured_capacity_bound), and every correspondence line lets the model derive the path from (announced spec version, configured queue) before replaying the run. A falcon.asgi.App object is modelled as its '
              'mutable options plus a history of option changes and connections (Wm.serve): every connection is wired from the options in force when it is made (connection_wiring, reconfigured_capacity_honoured, fresh_app_default), '
              'and for WebSockets made by an App the correspondence line carries that history instead of the capacity. Any enabled segment may fire, which over-approximates asyncio\'s ready queue. The model is tied to the real '
              'falcon.asgi.ws.WebSocket on every run: the object is driven on a scripted event loop through every schedule up to the stated bounds (and random longer ones) with a '
              'logging deque and future factory, and the logged step sequence must be accepted by the compiled trace-inclusion checker with matching final observables; an '
              'independent oracle written from the statement decides failing schedules.')
LEVEL_NOTE = ('Trusted: Lean kernel + standard axioms; asyncio; the instrumentation and the harness-side server. Not proved: that asyncio executes the coroutines segment by segment as '
              'modelled (checked by trace inclusion, exhaustively to the bounds). Known finding F13: held reaches capacity + 1.')
TECHNIQUE = 'Lean 4 invariant + conservation proofs over an atomic-segment LTS, trace-inclusion checking of logs from the real code under enumerated schedules, statement oracle'

"""C18 - WebSocket receive buffering is FIFO, bounded and lossless under every schedule."""
PROP = 'C18'
LEAN_MODULES = ['FalconModel.WsBufProofs']
DRIVERS = ['wbdriver']
THEOREMS = [
    'Wb.inv_init', 'Wb.pumpEnqueue_inv', 'Wb.segments_preserve',
    'Wb.returned_append', 'Wb.delivered_append', 'Wb.pumpEnqueue_conserve', 'Wb.pumpEnqueue_held', 'Wb.popSeg_conserve', 'Wb.popSeg_held',
    'Wb.segments_conserve', 'Wb.isPrefix_eq', 'Wb.fifo_lossless_once',
    'Wb.held_le_capacity_succ', 'Wb.held_succ_only_when_full', 'Wb.f13_witness',
    'Wb.no_lost_wakeup', 'Wb.resolved_receive_enabled', 'Wb.disc_monotone', 'Wb.disc_set_by_pump', 'Wb.send_reports_flag',
    'Wb.stop_leaves_no_task',
]
STATEMENTS = {
    'Wb.segments_preserve': 'every atomic segment (what one task does between two awaits) of the pump task, of receive(), of a cancelled receive(), of _send and of stop() preserves the invariant: queue <= capacity; a pending pop-waiter implies an empty queue (no lost wake-up); a pump parked for room implies a full queue; waiter cells and attributes agree; app parked <=> pop-waiter exists; pump holding <=> put-waiter exists. Any enabled segment may fire, so the invariant holds under every schedule',
    'Wb.segments_conserve': 'every segment except stop() keeps  returned-to-the-application ++ held-by-the-framework = held-before ++ delivered-by-the-server  (as lists: order, no loss, no duplication)',
    'Wb.fifo_lossless_once': 'for every event log the trace-inclusion checker accepts (any interleaving of segments, no stop in it), from a state satisfying the invariant: what receive() returned followed by what is still held equals what was held before followed by what the server delivered, in order; and the invariant holds at the end',
    'Wb.held_le_capacity_succ': 'in every invariant state the framework holds at most capacity + 1 events (queue + the one the pump has pulled)',
    'Wb.held_succ_only_when_full': 'capacity + 1 is reached only with the queue full and exactly one event in flight in the pump',
    'Wb.f13_witness': 'the literal bound "held <= capacity" is false in the model as well: capacity 1, log pull, deliver 0, append 0, pull, deliver 1 is accepted and leaves 2 events held (known finding F13)',
    'Wb.no_lost_wakeup': 'a parked receive() with a non-empty queue has had its waiter resolved',
    'Wb.resolved_receive_enabled': 'a receive() whose waiter was resolved always has an enabled resume segment, which returns a message or parks again on a fresh waiter',
    'Wb.disc_monotone': 'once set, client_disconnected stays set through every segment',
    'Wb.disc_set_by_pump': 'the pump segment that processes the disconnect event sets the flag in that very segment, before the event is queued and even when the queue is full',
    'Wb.send_reports_flag': '_send takes the WebSocketDisconnected branch iff the flag is set, and changes nothing',
    'Wb.stop_leaves_no_task': 'after stop() the pump has no enabled segment: no further pull, nothing left running',
}
TRUSTED = [
    'asyncio\'s implementation of futures, tasks, cancellation and asyncio.wait; one `await asyncio.sleep(0)` = one turn of the ready queue',
    'the instrumentation (logging deque assigned into the _messages slot, logging future factory behind _loop) records the atomic steps faithfully',
    'the harness-side server receive() (a future per pull, resolved by the schedule) as the meaning of "the server delivers"',
]
ASSUMPTIONS = [
    'one receiver at a time (the framework asserts it); send/close may be issued from another task, which the schedule does',
    'the unbuffered mode (max_receive_queue = 0) has no pump and no queue: it is covered by the statement oracle only (pass-through), not by the Lean model',
    'promptness of the disconnect report to a sender is stated per loop turn: after the disconnect event was handed to the pump and the ready queue has turned once, every send raises; before it was handed over, none does',
]
RULE = ('every schedule over {D deliver, R start receive, Y run ready queue, C cancel pending receive, S send} of length <= 4 (quick) / <= 6 (thorough), every schedule over '
        '{D,R,Y} of length 5..6 (quick) / 7..8 (thorough), each followed by a deterministic drain (deliver all, receive all) or by close(); x capacities 0..4 x k = 1..2 (quick) / 1..3 (thorough) '
        'messages x with/without a trailing disconnect; plus, for capacities 1..4, "fill the queue and park the pump" followed by every tail of <= 2 steps and drain/close; plus random schedules of 5..40 steps with k <= 8. The real falcon.asgi.ws.WebSocket (source mode) is driven; '
        'non-trivial = at least one message was delivered and received; distinct = distinct (capacity, k, disconnect, schedule, ending)')
PARTIAL = ('the theorems are about the atomic-segment model; that asyncio runs the real coroutines segment by segment as modelled is established by trace inclusion on every generated '
           'schedule (exhaustive to the stated bounds), not by proof; liveness is stated fairness-free (no_lost_wakeup + resolved_receive_enabled), unbuffered mode is oracle-only')
JOBS = {'quick': 4, 'thorough': 16}
EXHAUSTIVE = {'quick': False, 'thorough': False}

F13_NAME = 'held <= capacity'
F13_WHAT = 'held == capacity + 1 (queue full, one event in flight in the pump)'
DISC = 999


def schedules(quick):
    import itertools
    full, mid = (4, (5, 6)) if quick else (6, (7, 8))
    for l in range(0, full + 1):
        for s in itertools.product('DRYCS', repeat=l):
            yield ''.join(s)
    for l in range(mid[0], mid[1] + 1):
        for s in itertools.product('DRY', repeat=l):
            yield ''.join(s)


def run(ctx):
    import asyncio
    import collections
    import falcon.asgi.ws as wsmod
    from falcon import errors

    opts = None
    sess = ctx.session('_BufferedReceiver event log (real WebSocket on a scripted loop) is a trace of the Wb segment model', 'wbdriver')
    f13_recorded = [0]

    class LogDeque(collections.deque):
        def __init__(s, log):
            super().__init__(); s.log = log; s.maxseen = 0

        def append(s, x):
            super().append(x); s.maxseen = max(s.maxseen, len(s)); s.log.append('append:%d' % x['n'])

        def popleft(s):
            x = super().popleft(); s.log.append('popleft:%d' % x['n']); return x

    class LogFut(asyncio.Future):
        def set_result(s, v):
            s._log.append('resolve' + s._who); super().set_result(v)

        def cancel(s, *a, **k):
            if not s.done() and s._who == 'App':
                s._log.append('cancelApp')
            return super().cancel(*a, **k)

    class LoopProxy:
        def __init__(s, loop, log, br):
            s.loop = loop; s.log = log; s.br = br

        def create_future(s):
            who = 'Pump' if asyncio.current_task() is s.br._pump_task else 'App'
            f = LogFut(loop=s.loop); f._log = s.log; f._who = who; s.log.append('mkfut' + who); return f

        def __getattr__(s, n):
            return getattr(s.loop, n)

    async def run_one(cap, k, disc, sched, ending):
        """ending: 'drain' (deliver everything, receive everything), 'close' (ws.close() right after the schedule)"""
        nonlocal opts
        loop = asyncio.get_running_loop()
        if opts is None:
            opts = wsmod.WebSocketOptions()
        log = []
        events = [{'type': 'websocket.receive', 'text': 'm%d' % i, 'n': i} for i in range(k)]
        if disc:
            events.append({'type': 'websocket.disconnect', 'code': 1001, 'n': DISC})
        o = {'pending': [], 'delivered': 0, 'maxpulls': 0, 'got': [], 'errors': [], 'sent': [], 'sends': [], 'f13': None, 'bound': None,
             'pull_idle': None, 'closed': False, 'disc_delivered': False, 'turns_since_disc': 0, 'prompt': None, 'active_recv': 0}

        async def receive():
            f = loop.create_future(); o['pending'].append(f); log.append('pull')
            o['maxpulls'] = max(o['maxpulls'], len(o['pending']))
            if cap == 0 and o['active_recv'] == 0 and o['pull_idle'] is None:
                o['pull_idle'] = 'unbuffered mode pulled from the server although no receive was in progress'
            try:
                return await f
            except asyncio.CancelledError:
                if f.done() and not f.cancelled():         # the server keeps an event nobody took
                    o['delivered'] -= 1
                raise
            finally:
                if f in o['pending']:
                    o['pending'].remove(f)

        async def send(m):
            o['sent'].append(m)
        ws = wsmod.WebSocket('2.3', {'subprotocols': []}, receive, send, opts.media_handlers, cap, {})
        await ws.accept()
        br = ws._buffered_receiver
        if cap > 0:
            dq = LogDeque(log); br._messages = dq; br._loop = LoopProxy(loop, log, br)
        pump_task = br._pump_task
        recv_task = None

        async def do_recv():
            if o['closed']:          # a send noticed the disconnect / the socket was closed after this receive was requested
                return
            log.append('recvStart'); o['active_recv'] += 1
            try:
                t = await ws.receive_text()
                n = int(t[1:]); o['got'].append(n); log.append('recvRet:%d' % n)
            except errors.WebSocketDisconnected as e:
                if e.code == 1001:
                    o['got'].append(DISC); log.append('recvRet:%d' % DISC)
                else:
                    o['got'].append('synthetic'); log.append('recvSynthetic')
                o['closed'] = True
            except asyncio.CancelledError:
                log.append('recvCancelled'); raise
            except BaseException as e:  # noqa
                o['errors'].append('receive raised %s: %s' % (type(e).__name__, e))
            finally:
                o['active_recv'] -= 1

        def observe():
            if cap == 0:
                return
            dql = len(br._messages); ret = len([g for g in o['got'] if g != 'synthetic'])
            h = o['delivered'] - ret; inflight = h - dql
            unresolved = len([f for f in o['pending'] if not f.done()])
            if dql > cap or h > cap + 1 or inflight not in (0, 1) or unresolved + inflight > 1 or o['maxpulls'] > 1:
                if o['bound'] is None:
                    o['bound'] = ('queue length %d, held %d (in flight %d), outstanding pulls %d (max %d) with capacity %d'
                                  % (dql, h, inflight, unresolved, o['maxpulls'], cap))
            elif h == cap + 1 and dql == cap and inflight == 1 and o['f13'] is None:
                o['f13'] = 'after %d steps: queue %d, in flight 1' % (len(o['trail']), dql)

        async def step(ch):
            nonlocal recv_task
            o['trail'].append(ch)
            if ch == 'D':
                live = [f for f in o['pending'] if not f.done()]
                if live and o['delivered'] < len(events):
                    f = live[0]; o['pending'].remove(f); ev = events[o['delivered']]; o['delivered'] += 1
                    log.append('deliver:%d' % ev['n']); f.set_result(ev)
                    if ev['n'] == DISC:
                        o['disc_delivered'] = True; o['turns_since_disc'] = 0
            elif ch == 'R':
                if (recv_task is None or recv_task.done()) and not o['closed']:
                    recv_task = asyncio.ensure_future(do_recv())
            elif ch == 'Y':
                await asyncio.sleep(0)
                if o['disc_delivered']:
                    o['turns_since_disc'] += 1
            elif ch == 'C':
                if recv_task is not None and not recv_task.done():
                    recv_task.cancel()
            elif ch == 'S':
                if not o['closed']:
                    before = len(o['sent'])
                    try:
                        await ws.send_text('x'); r = 'ok'; log.append('sendOk')
                    except errors.WebSocketDisconnected as e:
                        r = 'WSD:%d' % e.code; log.append('sendDisc'); o['closed'] = True
                    except BaseException as e:  # noqa
                        r = type(e).__name__; o['errors'].append('send raised %s: %s' % (r, e))
                    o['sends'].append(r)
                    if cap > 0:
                        must_fail = o['disc_delivered'] and o['turns_since_disc'] >= 1
                        must_pass = not o['disc_delivered']
                    else:
                        must_fail = DISC in o['got']; must_pass = not must_fail
                    if o['prompt'] is None:
                        if must_fail and r != 'WSD:1001':
                            o['prompt'] = 'send returned %s although the disconnect had been handed to the framework %d loop turn(s) earlier' % (r, o['turns_since_disc'])
                        elif must_pass and r != 'ok':
                            o['prompt'] = 'send raised %s although the client had not disconnected' % r
                        elif r == 'ok' and len(o['sent']) != before + 1:
                            o['prompt'] = 'send returned ok but nothing reached the server'
            observe()
        o['trail'] = []
        for ch in sched:
            await step(ch)
        leftover = None
        if ending == 'close':
            o['trail'].append('X')
            n_before = len(log)
            log.append('stop')
            await ws.close()
            o['closed'] = True
            if cap > 0 and pump_task is not None and not pump_task.done():
                leftover = 'the pump task is still pending when close() returns'
            if br._pump_task is not None and leftover is None:
                leftover = '_pump_task is still referenced after close()'
            if cap > 0 and [f for f in o['pending'] if not f.done()] and leftover is None:
                leftover = 'a pull on the server is still outstanding after close()'
            if (not o['sent'] or o['sent'][-1].get('type') != 'websocket.close') and not o['disc_delivered'] and leftover is None:
                leftover = 'close() did not send a close event although the client had not disconnected'
            for _ in range(4):
                await asyncio.sleep(0)
        else:
            for _ in range(3 * (len(events) + 2)):
                for c in 'YYDYYRYY':
                    await step(c)
            for _ in range(4):
                await step('Y')
        waiting = recv_task is not None and not recv_task.done()
        final = {'q': len(br._messages) if cap > 0 else 0, 'disc': 1 if br.client_disconnected else 0,
                 'pump': 1 if (br._pump_task is not None and not br._pump_task.done()) else 0}
        ret = len([g for g in o['got'] if g != 'synthetic'])
        final['held'] = final['q'] if ending == 'close' else o['delivered'] - ret
        final['ret'] = ret; final['dlv'] = len([x for x in log if x.startswith('deliver:')])
        n_log = len(log)
        # clean up
        if waiting:
            recv_task.cancel()
        if recv_task is not None:
            await asyncio.gather(recv_task, return_exceptions=True)
        if ending != 'close':
            await ws.close()
        for f in list(o['pending']):
            f.cancel()
        for _ in range(2):
            await asyncio.sleep(0)
        left = [t for t in asyncio.all_tasks() if t is not asyncio.current_task() and not t.done()]
        if left and leftover is None:
            leftover = '%d task(s) still running after close()' % len(left)
        for t in left:
            t.cancel()
        if left:
            await asyncio.gather(*left, return_exceptions=True)
        return o, log[:n_log], final, waiting, leftover, events

    def judge(cap, k, disc, sched, ending, res):
        o, log, final, waiting, leftover, events = res
        case = {'capacity': cap, 'messages': k, 'disconnect': disc, 'schedule': sched, 'ending': ending,
                'legend': 'D deliver next event into the outstanding pull, R start receive_text(), Y one loop turn, C cancel the pending receive, S send_text, then drain=(YYDYYRYY)* or close()',
                'received': o['got'], 'event_log': log[:120]}
        exp = list(range(k)) + ([DISC] if disc else [])
        got = [g for g in o['got']]
        # 1. FIFO / once / lossless
        bad = None
        real = [g for g in got if g != 'synthetic']
        if real != exp[:len(real)]:
            bad = 'received %r is not a prefix of the sent sequence %r (order / duplication)' % (got, exp)
        elif 'synthetic' in got and ending != 'close' and got.index('synthetic') < len(exp):
            bad = 'a synthetic disconnect was reported before the client\'s events were delivered: %r' % got
        elif o['errors']:
            bad = '; '.join(o['errors'])
        elif ending == 'drain' and not any(s.startswith('WSD') for s in o['sends']) and real != exp:
            bad = 'lost: received %r of %r after everything was delivered and received' % (got, exp)
        ctx.oracle('the application receives exactly the client\'s messages, in order, each once; the disconnect after the messages that preceded it',
                   bad is None, bad, case)
        # 2. bounds
        if cap > 0:
            ctx.oracle('queue <= capacity, held <= capacity + 1, at most one pull outstanding and none while an event is in flight',
                       o['bound'] is None, o['bound'], case)
            if o['bound'] is not None:
                # beyond the known class: must not be swallowed by the known finding
                ctx.oracle(F13_NAME, False, 'bound exceeded beyond the known class: ' + o['bound'], case)
            elif o['f13'] is not None:
                ctx.count('f13_runs_held_eq_capacity_plus_1')
                if f13_recorded[0] < 3:
                    f13_recorded[0] += 1
                    ctx.oracle(F13_NAME, False, F13_WHAT, dict(case, where=o['f13']))
            else:
                ctx.oracle(F13_NAME, True)
        else:
            b = o['pull_idle'] or ('%d pulls outstanding at once' % o['maxpulls'] if o['maxpulls'] > 1 else None)
            ctx.oracle('unbuffered mode: one pull per receive in progress, nothing pulled ahead', b is None, b, case)
        # 3. no lost wake-up
        bad = None
        if ending == 'drain' and waiting:
            avail = final['held']
            if avail > 0 or (cap > 0 and final['q'] > 0):
                bad = 'a receive is still waiting although %d delivered event(s) are held by the framework (queue %d)' % (avail, final['q'])
            elif disc and DISC not in o['got'] and o['delivered'] == len(events):
                bad = 'a receive is still waiting although the disconnect was delivered'
        ctx.oracle('a receive that can be satisfied is never left waiting', bad is None, bad, case)
        # 4. disconnect reported to a sender promptly
        ctx.oracle('a client disconnect is reported to a sender promptly, and only then', o['prompt'] is None, o['prompt'], case)
        # 5. closing stops the reader
        ctx.oracle('closing stops the background reader: no task left running, no outstanding pull', leftover is None, leftover, case)
        # correspondence: the logged atomic steps are a trace of the model, with matching final observables
        if cap > 0:
            sess.case({'capacity': cap, 'messages': k, 'disconnect': disc, 'schedule': sched, 'ending': ending})
            sess.op('log %d ' % cap + ' '.join(log),
                    'accepted q=%d held=%d ret=%d dlv=%d disc=%d pump=%d' % (final['q'], final['held'], final['ret'], final['dlv'], final['disc'], final['pump']))
        ctx.seen((cap, k, disc, sched, ending), bool([g for g in got if isinstance(g, int) and g != DISC]))
        ctx.count('capacity_%d' % cap); ctx.count('ending_' + ending)
        if 'C' in sched: ctx.count('with_cancellation')
        if 'recvCancelled' in log: ctx.count('receive_actually_cancelled_while_parked')
        if 'S' in sched: ctx.count('with_send')
        if 'sendDisc' in log: ctx.count('send_saw_disconnect')
        if disc: ctx.count('with_disconnect')
        if 'mkfutPump' in log: ctx.count('pump_parked_on_full_queue')
        if 'recvSynthetic' in log: ctx.count('synthetic_disconnect')

    async def main():
        rnd = ctx.rng
        i, nsh = ctx.shard
        j = 0
        ks = (1, 2) if ctx.quick else (1, 2, 3)
        for si, sched in enumerate(schedules(ctx.quick)):
            for cap in (0, 1, 2, 3, 4):
                for k in ks:
                    if (si + cap + k) % nsh != i:       # a shard runs all disconnect/ending variants of its (schedule, capacity, k)
                        continue
                    for disc in (False, True):
                        endings = ('drain', 'close') if len(sched) <= (3 if ctx.quick else 5) else ('drain',)
                        for ending in endings:
                            j += 1
                            judge(cap, k, disc, sched, ending, await run_one(cap, k, disc, sched, ending))
        ctx.count('exhaustive_runs', j)
        # directed: fill the queue (capacity + 1 deliveries: queue full, pump parked holding one), then every tail of <= 2 steps, then drain / close
        import itertools
        d = 0
        for cap in (1, 2, 3, 4):
            base = 'Y' + 'DY' * (cap + 1)
            for l in (0, 1, 2):
                for tail in itertools.product('DRYCS', repeat=l):
                    d += 1
                    if d % nsh != i:
                        continue
                    for k in (cap + 1, cap + 2):
                        for disc in (False, True):
                            for ending in ('drain', 'close'):
                                sched = base + ''.join(tail)
                                judge(cap, k, disc, sched, ending, await run_one(cap, k, disc, sched, ending))
                                ctx.count('directed_full_queue_runs')
        for _ in range(ctx.n(4000, 60000)):
            cap = rnd.choice([0, 1, 1, 2, 3, 4]); k = rnd.randint(1, 8); disc = rnd.random() < 0.5
            sched = ''.join(rnd.choice('DDRRYYYCS') for _ in range(rnd.randint(5, 40)))
            ending = 'close' if rnd.random() < 0.25 else 'drain'
            judge(cap, k, disc, sched, ending, await run_one(cap, k, disc, sched, ending))
            ctx.count('random_runs')
    asyncio.run(main())
    n13 = ctx.dist.get('f13_runs_held_eq_capacity_plus_1', 0)
    if n13:
        ctx.notes.append('shard %d: held == capacity + 1 (F13) observed in %d runs; the first %d are recorded as failures of oracle %r, the rest only counted'
                         % (ctx.shard[0], n13, f13_recorded[0], F13_NAME))
    sess.finish()


LEVEL_TEXT = ('Machine-checked proofs (Lean 4) over an atomic-segment transition system of falcon/asgi/ws.py _BufferedReceiver (pump task, receive(), cancellation of a parked '
              'receive, the flag read by WebSocket._send, stop()): the safety invariant is preserved by every segment (segments_preserve), every segment conserves '
              'returned ++ held = held ++ delivered as lists (segments_conserve), hence every accepted interleaving is FIFO, lossless and duplicate-free (fifo_lossless_once); '
              'held <= capacity + 1 with the exact shape of the excess (held_le_capacity_succ, held_succ_only_when_full, f13_witness); no lost wake-up; monotone, promptly set '
              'disconnect flag; stop() leaves no pump segment enabled. Any enabled segment may fire, which over-approximates asyncio\'s ready queue. The model is tied to the real '
              'falcon.asgi.ws.WebSocket on every run: the object is driven on a scripted event loop through every schedule up to the stated bounds (and random longer ones) with a '
              'logging deque and future factory, and the logged step sequence must be accepted by the compiled trace-inclusion checker with matching final observables; an '
              'independent oracle written from the statement decides failing schedules.')
LEVEL_NOTE = ('Trusted: Lean kernel + standard axioms; asyncio; the instrumentation and the harness-side server. Not proved: that asyncio executes the coroutines segment by segment as '
              'modelled (checked by trace inclusion, exhaustively to the bounds). Known finding F13: held reaches capacity + 1.')
TECHNIQUE = 'Lean 4 invariant + conservation proofs over an atomic-segment LTS, trace-inclusion checking of logs from the real code under enumerated schedules, statement oracle'

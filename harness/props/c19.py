"""C19 - concurrent requests do not influence one another, from the very first request."""
PROP = 'C19'
LEAN_MODULES = ['FalconModel.SchedProofs', 'FalconModel.NonInterf']
DRIVERS = ['scdriver']
THEOREMS = [
    # threads x lazy router compile (falcon/routing/compiled.py find / _compile_and_find / _compile), model Sc
    'Sc.Good_mono', 'Sc.init_inv', 'Sc.mk_inv', 'Sc.lazy_same', 'Sc.run_inv', 'Sc.exec_inv', 'Sc.every_thread_gets_serial_result',
    # the mutant without _compile_lock violates the statement (regression witness, by `decide`)
    'Sc.no_lock_witness',
    # tasks x shared memo caches: generic non-interference
    'Ni.step_coherent', 'Ni.exec_coherent', 'Ni.memo_transparent', 'Ni.noninterference_of_local_steps',
]
STATEMENTS = {
    'Sc.every_thread_gets_serial_result': 'for any number of threads, any schedule (list of thread ids of any length) and any table size: a thread that has finished ran the finder of the one and only compile on that compile\'s complete tables, no thread re-enters the lazy stub, and the router is compiled at most once',
    'Sc.run_inv': 'one step of any thread preserves the invariant (one clause per program counter + "lazy => nobody compiled yet or somebody is compiling" + "compiled => version 1, tables complete")',
    'Sc.Good_mono': 'a step of another thread cannot invalidate what a thread knows, because shared data is only written by the lock holder',
    'Sc.no_lock_witness': 'without the lock, on a 17-step schedule of two threads, thread 0 runs finder 1 on the tables of compile 2 and the router is compiled twice',
    'Ni.noninterference_of_local_steps': 'tasks whose steps read/write only their own component and consult shared state only through a memo of a pure function: after ANY interleaving (and any memo evictions) the state of task i is what i alone reaches in the same number of its own steps',
    'Ni.memo_transparent': 'a lookup through a coherent memo (entries only ever (k, f k)) returns f k',
}
TRUSTED = [
    'sys.settrace line/opcode events as preemption points: CPython switches threads only between bytecodes, so every real interleaving of the traced code is a sequence of these steps (the converse - that each traced step is atomic - holds under the GIL; C-level GIL releases inside one bytecode are not exhibited)',
    'the scheduler-aware lock (harness/lib_sched.SLock) assigned to router._compile_lock behaves like threading.Lock used as a context manager',
    'the scripted asyncio gate (one task runs between two decisions of the controller) for the ASGI interleavings',
]
ASSUMPTIONS = [
    'routes are not added while requests are in flight (add_route during traffic is outside the property)',
    'generated resources, middleware and error handlers keep no state outside req/resp/params (the property is about the framework, not about user code)',
]
RULE = ('(a) router race: routers generated from 3 route sets (fields, int/uuid converters, complex segments) x 2 threads (quick) / 2 and 3 threads (thorough) issuing the first-ever find() for PRNG-chosen paths; '
        'every single-preemption schedule at line granularity (opcode granularity inside find/_compile_and_find), two-preemption schedules with the first preemption at an opcode of find/_compile_and_find or at the first/last lines of _compile and the second one densely after it and strided up to the end, plus PRNG-chosen 2-4 preemption schedules (quick: all single preemptions and a PRNG subset of the rest); each explored schedule is replayed through the Lean model (locking = true); '
        '(b) 2-3 concurrent ASGI requests over generated apps (routes with fields/converters, middleware, media, errors, custom error handlers), interleaved at every receive/send and at explicit awaits inside middleware/responders in a PRNG-chosen order, and 2-3 WSGI threads (deterministic scheduler with PRNG preemption points at line events inside falcon/, and free-running threads), each compared with one-at-a-time execution on an identical app of its own (the concurrent app is fresh: its requests are its first ever); '
        'non-trivial = at least one preemption took place while another request was in flight; distinct = distinct (route set, paths, switch points) / (app, requests, schedule seed)')
PARTIAL = ('proof, partial: the locking protocol of the lazy router compile and the generic non-interference lemma are proved; that Falcon\'s per-request steps really touch only their own req/resp/params '
           '(the hypothesis of the lemma) is validated by the interleaved-vs-serial comparison on generated apps, not derived from the source; CPython\'s true atomicity (coarser than the traced steps) and '
           'C-level GIL releases are not exhibited; the replay of real schedules through the model maps opcode/line events to the model\'s 12 step kinds (the three table loads of one call count as one step).')
JOBS = {'quick': 4, 'thorough': 16}


def run(ctx):
    _router_race(ctx)
    _asgi_tasks(ctx)
    _wsgi_threads(ctx)


# ------------------------------------------------------------------ (a) threads x lazy router compile

ROUTESETS = [
    ['/a/{x}', '/a/{x}/b', '/c/{y:int}', '/{z}-{w}'],
    ['/items', '/items/{item_id:int}', '/items/{item_id:int}/parts/{part}', '/u/{uid:uuid}', '/files/{name}.{ext}'],
    ['/', '/x/{a}/{b}/{c}', '/x/{a}/lit', '/v{ver:int}/ping'],
]
PATHS = [
    ['/a/1', '/c/7', '/a/q/b', '/k-v', '/nope/x', '/c/notint'],
    ['/items', '/items/12', '/items/3/parts/p9', '/u/12345678-1234-5678-1234-567812345678', '/files/r.txt', '/items/x'],
    ['/', '/x/1/2/3', '/x/9/lit', '/v2/ping', '/v/ping', '/x/1/2'],
]


def _router_race(ctx):
    import dis
    import linecache
    import threading
    import lib_sched
    from falcon.routing import CompiledRouter
    import falcon.routing.compiled as comp
    rnd = ctx.rng
    COMPILED = comp.__file__
    co_find = CompiledRouter.find.__code__
    co_caf = CompiledRouter._compile_and_find.__code__
    co_compile = CompiledRouter._compile.__code__

    def tags_for(code, spec):
        """offset -> tag for the n-th instruction matching (opname prefix, argval)"""
        out = {}
        seen = {}
        ins = list(dis.get_instructions(code))
        for idx, i in enumerate(ins):
            key = (i.opname, i.argval if isinstance(i.argval, str) else None)
            seen[key] = seen.get(key, 0) + 1
            t = spec.get((key[0], key[1], seen[key]))
            if t:
                out[i.offset] = t
        return out, ins

    tag_find, ins_find = tags_for(co_find, {('LOAD_ATTR', '_find', 1): 'F.loadFind', ('LOAD_ATTR', '_return_values', 1): 'F.loadTables'})
    # the CALL of self._find(...): first CALL after the _return_values load
    seen_rv = False
    for i in ins_find:
        if i.opname == 'LOAD_ATTR' and i.argval == '_return_values':
            seen_rv = True
        elif seen_rv and i.opname.startswith('CALL'):
            tag_find[i.offset] = 'F.call'
            break
    tag_caf, _ = tags_for(co_caf, {('LOAD_ATTR', '_find', 1): 'C.test', ('STORE_ATTR', '_find', 1): 'C.publish',
                                   ('LOAD_ATTR', '_find', 2): 'C.reFind', ('LOAD_ATTR', '_return_values', 1): 'C.reTables'})
    fill_cache = {}

    def is_fill(lineno):
        r = fill_cache.get(lineno)
        if r is None:
            r = fill_cache[lineno] = 'return_values.append(' in linecache.getline(COMPILED, lineno)
        return r

    class Res:
        def __init__(s, name):
            s.name = name
        def on_get(s, req, resp):
            pass

    def build(rs):
        r = CompiledRouter()
        for t in ROUTESETS[rs]:
            r.add_route(t, Res(t))
        return r

    def canon(res):
        if res is None:
            return ('none',)
        return ('ok', res[0].name, tuple(sorted((k, repr(v)) for k, v in res[2].items())), res[3])

    serial_cache = {}

    def serial(rs, path):
        k = (rs, path)
        if k not in serial_cache:
            r = build(rs)
            r.find('/')          # compile alone
            serial_cache[k] = canon(r.find(path))
        return serial_cache[k]

    def execute(rs, paths, switches, lockmode='lock', record=False):
        """One race under one schedule.  Returns (results, sched, info)."""
        n = len(paths)
        router = build(rs)
        s = lib_sched.Sched(n, switches)
        tls = threading.local()
        router._compile_lock = (lib_sched.SLock if lockmode == 'lock' else lib_sched.NoLock)(s, lambda: tls.i)
        info = {'ev': [], 'S': {}, 'ncomp': 0, 'compile_calls': 0, 'where': [] if record else None}
        stub = router._compile_and_find

        def on_step(me, step):
            # called right after the tagged instruction of thread `me` has executed, before any other thread runs
            if step == 'C.test':
                if router._find == stub:
                    info['ncomp'] += 1
                    info['S'][me] = info['ncomp']
                    info['ev'].append(f"S{me}:{info['ncomp']}")
            elif step == 'C.publish':
                info['ev'].append(f"P{me}:{info['S'].get(me, '?')}")
        s.on_step = on_step

        def tracer_for(i):
            def local_line(frame, event, arg):
                if event == 'line':
                    if record:
                        info['where'].append((s.ev + 1, i, frame.f_code.co_name, frame.f_lineno, None))
                    s.point(i, 'fill' if (frame.f_code.co_filename == COMPILED and is_fill(frame.f_lineno)) else None)
                elif event == 'return' and frame.f_code is co_compile:
                    s.point(i, 'C.compileReturn')
                return local_line

            def local_op_find(frame, event, arg):
                if event == 'opcode':
                    if record:
                        info['where'].append((s.ev + 1, i, 'find', frame.f_lineno, frame.f_lasti))
                    s.point(i, tag_find.get(frame.f_lasti))
                return local_op_find

            def local_op_caf(frame, event, arg):
                if event == 'opcode':
                    if record:
                        info['where'].append((s.ev + 1, i, '_compile_and_find', frame.f_lineno, frame.f_lasti))
                    s.point(i, tag_caf.get(frame.f_lasti))
                return local_op_caf

            def tr(frame, event, arg):
                co = frame.f_code
                if co is co_compile:
                    info['compile_calls'] += 1
                if co is co_find:
                    frame.f_trace_opcodes = True
                    frame.f_trace_lines = False
                    return local_op_find
                if co is co_caf:
                    frame.f_trace_opcodes = True
                    frame.f_trace_lines = False
                    return local_op_caf
                fn = co.co_filename
                if fn == COMPILED or fn == '<string>':
                    return local_line
                return None
            return tr

        def body(i):
            def b():
                tls.i = i
                return canon(router.find(paths[i]))
            return b
        # tls.i must be set before the tracer runs: do it in the body wrapper, the tracer only fires inside find()
        results = lib_sched.run_threads(s, [body(i) for i in range(n)], tracer_for)
        info['compiled_finally'] = router._find != stub
        return results, s, info

    sess = ctx.session('router race under an explored schedule = Sc model replay (locking)', 'scdriver')
    sess_nl = ctx.session('router race with a no-op lock injected by the harness = Sc model replay (no locking): compiles, order, paths', 'scdriver',
                          norm=_norm_nolock)
    O_A = ('router race: every thread gets exactly the serial result, no exception, no deadlock, the router ends compiled exactly once')

    STEP_OK = {'F.loadFind', 'F.loadTables', 'F.call', 'blocked', 'acquire', 'C.test', 'fill', 'C.compileReturn', 'C.publish', 'release', 'C.reFind', 'C.reTables'}

    def check(rs, paths, switches, nthreads, selftest=False):
        lockmode = 'nolock' if selftest else 'lock'
        results, s, info = execute(rs, paths, switches, lockmode)
        want = [('ok', serial(rs, p)) for p in paths]
        ntab = len(build_tables[rs])
        sched_ids = [str(t) for t, st in s.steps if st in STEP_OK]
        paths_cls = []
        for i in range(nthreads):
            mine = [st for t, st in s.steps if t == i]
            paths_cls.append('c' if i in info['S'] else 'w' if 'acquire' in mine else 'd' if 'F.call' in mine else '-')
        outs = ' '.join(f"t{i}=" + (f'done:1:1:{ntab}' if results[i] == want[i] else 'BAD') for i in range(nthreads))
        reply = f"{outs} ncomp={info['ncomp']} ev={','.join(info['ev']) or '-'} paths={','.join(paths_cls)} agree=1"
        line = f"exec {0 if selftest else 1} {ntab} {nthreads} {','.join(sched_ids) or '-'}"
        if selftest:
            if all(r[0] == 'ok' for r in results):
                # a thread that dies inside _compile() (tables reset under its feet) never publishes; the model has no
                # exceptions, so only runs in which every thread returned are replayed
                sess_nl.case({'routes': rs, 'paths': paths, 'switches': sorted(switches.items())})
                sess_nl.op(line, reply)
            else:
                ctx.count('selftest_nolock_thread_died')
            return results != want or info['compile_calls'] != 1
        sess.case({'routes': rs, 'paths': paths, 'switches': sorted(switches.items())})
        sess.op(line, reply)
        why = None
        if s.dead or any(r[0] == 'deadlock' for r in results):
            why = 'deadlock / a thread did not finish'
        elif results != want:
            bad = [i for i in range(nthreads) if results[i] != want[i]]
            why = f'thread {bad[0]} got {results[bad[0]]}, serial execution gives {want[bad[0]]}'
        elif info['compile_calls'] != 1 or not info['compiled_finally']:
            why = f"_compile() ran {info['compile_calls']} times (router compiled at the end: {info['compiled_finally']})"
        ctx.oracle(O_A, why is None, why, {'routes': ROUTESETS[rs], 'paths': paths, 'switch_points': sorted(switches.items()),
                                           'model_schedule': ','.join(sched_ids), 'compile_events': info['ev']})
        ctx.seen(('a', rs, tuple(paths), tuple(sorted(switches.items()))), s.preemptions > 0)
        ctx.count(f'race_{nthreads}thr_{len(switches)}preempt')
        ctx.count('race_paths_' + ''.join(sorted(paths_cls)))
        return why is not None

    # tables sizes (= number of appends to return_values per compile)
    build_tables = {}
    for rs in range(len(ROUTESETS)):
        r = build(rs)
        r.find('/')
        build_tables[rs] = list(r._return_values)

    i0, k0 = ctx.shard
    nthreads_list = [2] if ctx.quick else [2, 3]
    selftest_bad = 0
    selftest_n = 0
    for rs in range(len(ROUTESETS)):
        for nthreads in nthreads_list:
            paths = [rnd.choice(PATHS[rs]) for _ in range(nthreads)]
            # serial pass with recording: where is each global event?
            _, s0, info0 = execute(rs, paths, {}, 'lock', record=True)
            E = s0.ev
            where = info0['where']
            E0 = max(e for e, t, *_ in where if t == 0)            # events of thread 0 (it runs first, alone)
            op_pts = [e for e, t, fn, ln, off in where if t == 0 and off is not None]
            comp_pts = [e for e, t, fn, ln, off in where if t == 0 and off is None]
            hot = sorted(set(op_pts + comp_pts[:25] + comp_pts[-45:]))
            if ctx.searching:
                hot = sorted(set(hot + comp_pts[::3]))
            cands = []
            # every single preemption
            for p in range(1, E + 1):
                cands.append({p: 1})
            # two preemptions: first at a hot point, second densely after it and strided to the end
            for p1 in hot:
                offs = list(range(1, 41)) + list(range(41, E + 40, 9 if nthreads == 2 else 25))
                for d in offs:
                    cands.append({p1: 1, p1 + d: 1})
            if nthreads == 3:
                for p1 in hot:
                    for d in list(range(1, 30, 3)) + list(range(30, E, 50)):
                        cands.append({p1: 1, p1 + d: 1, p1 + d + rnd.randint(1, 60): rnd.choice([1, 2])})
                        cands.append({p1: 2, p1 + d: 1})
            # PRNG-chosen schedules
            for _ in range(ctx.n(400, 4000) * k0):
                k = rnd.choice([2, 3, 3]) if nthreads == 2 else rnd.choice([2, 3, 4])
                pts = sorted(rnd.sample(range(1, 2 * E), k))
                cands.append({p: rnd.choice([1, 2]) if nthreads == 3 else 1 for p in pts})
            if ctx.quick:
                # quick tier: every single preemption, a PRNG subset of the rest
                singles = [c for c in cands if len(c) == 1]
                rest = [c for c in cands if len(c) > 1]
                rnd.shuffle(rest)
                cands = singles + rest[:ctx.n(6000) * k0 // len(ROUTESETS)]
            for idx, sw in enumerate(cands):
                if idx % k0 != i0:
                    continue
                check(rs, paths, sw, nthreads)
            # self-test of the exploration: the same schedules against a lock that does not lock must expose the race
            st = [c for c in cands if len(c) == 2][:: max(1, len(cands) // 300)]
            for idx, sw in enumerate(st):
                if idx % k0 != i0:
                    continue
                selftest_n += 1
                selftest_bad += bool(check(rs, paths, sw, nthreads, selftest=True))
    ctx.notes.append(f'shard {i0}: self-test with a no-op lock injected into router._compile_lock: {selftest_bad} of {selftest_n} explored schedules give a non-serial outcome')
    ctx.count('selftest_nolock_schedules', selftest_n)
    ctx.count('selftest_nolock_exposed', selftest_bad)
    sess.finish()
    sess_nl.finish()


def _norm_nolock(x):
    # without the lock the real threads may die inside _compile (the model has no exceptions): compare the number of compiles,
    # the order in which the threads passed the `_find == stub` test, and which way each thread went
    keep = []
    for p in x.split(' '):
        if p.startswith('ncomp=') or p.startswith('paths='):
            keep.append(p)
        elif p.startswith('ev='):
            keep.append('S=' + ','.join(e for e in p[3:].split(',') if e.startswith('S')))
    return ' '.join(keep)


# ------------------------------------------------------------------ (b) generated apps, used by the ASGI and the WSGI part

APP_SRC = r"""
import json
import falcon

class Boom(Exception):
    def __init__(self, tok):
        self.tok = tok

class Mw:
    def __init__(self, k):
        self.k = k
    ASYNC def process_request(self, req, resp):
        AWAIT yp()
        setattr(req.context, 'mw%d' % self.k, req.get_header('X-Tok') or '-')
        AWAIT yp()
    ASYNC def process_resource(self, req, resp, resource, params):
        AWAIT yp()
        setattr(req.context, 'pref%d' % self.k, params)          # the dict itself, read again later
        setattr(resp.context, 'pcopy%d' % self.k, dict(params))
    ASYNC def process_response(self, req, resp, resource, req_succeeded):
        AWAIT yp()
        resp.set_header('X-Mw%d' % self.k, '%s|%s|%s' % (getattr(req.context, 'mw%d' % self.k, None), req.path, req_succeeded))
        pref = getattr(req.context, 'pref%d' % self.k, None)
        resp.set_header('X-P%d' % self.k, json.dumps([pref, getattr(resp.context, 'pcopy%d' % self.k, None)], default=str, sort_keys=True))

class Item:
    ASYNC def on_get(self, req, resp, item_id):
        AWAIT yp()
        q = req.get_param('q')
        AWAIT yp()
        h = req.get_header('X-Tok')
        n = req.get_param_as_int('n', default=-1)
        AWAIT yp()
        resp.media = {'id': item_id, 'q': q, 'tok': h, 'n': n, 'path': req.path, 'ctx': getattr(req.context, 'mw0', None), 'qs': req.query_string}
        AWAIT yp()
        resp.set_header('X-Item', str(item_id))
    ASYNC def on_put(self, req, resp, item_id):
        AWAIT yp()
        body = AWAIT req.get_media()
        AWAIT yp()
        resp.media = {'got': body, 'id': item_id, 'ct': req.content_type, 'len': req.content_length}
        resp.status = falcon.HTTP_201

class Echo:
    ASYNC def on_post(self, req, resp, name):
        data = b''
        while True:
            AWAIT yp()
            chunk = AWAIT STREAM.read(5)
            if not chunk:
                break
            data += chunk
        AWAIT yp()
        resp.data = data + b'|' + name.encode()
        resp.content_type = 'text/plain'
        resp.set_header('X-Len', str(len(data)))
        resp.append_header('X-Tokens', name)
        AWAIT yp()
        resp.append_header('X-Tokens', req.get_header('X-Tok') or '-')

class Err:
    ASYNC def on_get(self, req, resp, code):
        AWAIT yp()
        tok = req.get_header('X-Tok')
        AWAIT yp()
        if code == 400:
            raise falcon.HTTPBadRequest(title='bad', description=tok)
        if code == 404:
            raise falcon.HTTPNotFound(description=tok)
        if code == 409:
            raise falcon.HTTPConflict(description=tok, headers={'X-Conflict': tok})
        raise Boom(tok)

class Ctx:
    ASYNC def on_get(self, req, resp, name, key):
        AWAIT yp()
        hdr = {k: v for k, v in req.headers.items() if k.lower().startswith('x-')}
        AWAIT yp()
        params = dict(req.params)
        AWAIT yp()
        resp.media = {'params': params, 'hdr': hdr, 'cookies': req.cookies, 'name': name, 'key': key,
                      'accepts_json': req.client_accepts_json, 'host': req.host, 'uri_template': req.uri_template}
        resp.set_cookie('c', name)
        resp.context.name = name
        AWAIT yp()
        resp.set_header('X-Ctx-Name', resp.context.name)

class Chunks:
    ASYNC def on_get(self, req, resp, gid):
        tok = req.get_header('X-Tok') or '-'
        ASYNC def gen():
            for i in range(3):
                AWAIT yp()
                yield ('%s:%d:%s;' % (tok, i, gid)).encode()
        AWAIT yp()
        resp.stream = gen()
        resp.content_type = 'application/octet-stream'

ASYNC def sink(req, resp, **kw):
    AWAIT yp()
    resp.media = {'sink': req.path, 'kw': kw, 'tok': req.get_header('X-Tok')}

ASYNC def on_boom(req, resp, ex, params):
    AWAIT yp()
    resp.status = falcon.HTTP_503
    resp.media = {'boom': ex.tok, 'path': req.path, 'params': params}

def make_app(App, n_mw, independent):
    app = App(middleware=[Mw(k) for k in range(n_mw)], independent_middleware=independent)
    app.add_route('/items/{item_id:int}', Item())
    app.add_route('/echo/{name}', Echo())
    app.add_route('/err/{code:int}', Err())
    app.add_route('/u/{name}/k/{key}', Ctx())
    app.add_route('/g/{gid:uuid}', Chunks())
    app.add_sink(sink, '/sink/')
    app.add_error_handler(Boom, on_boom)
    return app
"""


def _build_apps(asgi, yp):
    """exec the app template in its async or sync reading; `yp` is the explicit interleaving point."""
    src = APP_SRC
    if asgi:
        src = src.replace('ASYNC ', 'async ').replace('AWAIT ', 'await ').replace('STREAM', 'req.stream')
    else:
        src = src.replace('ASYNC ', '').replace('AWAIT ', '').replace('STREAM', 'req.bounded_stream')
    ns = {'yp': yp}
    exec(compile(src, '<c19-app-asgi>' if asgi else '<c19-app-wsgi>', 'exec'), ns)
    return ns


def _gen_request(rnd, idx):
    """One request with a token that appears nowhere else."""
    tok = f'T{idx}x{rnd.randrange(10**6)}'
    kind = rnd.choice(['item_get', 'item_get', 'item_put', 'echo', 'err', 'ctx', 'chunks', 'sink', 'missing', 'notallowed', 'badint'])
    hdrs = {'X-Tok': tok}
    method, path, qs, body = 'GET', '/', '', b''
    if kind == 'item_get':
        path, qs = f'/items/{rnd.randrange(1000)}', f'q={tok}&n={rnd.randrange(100)}'
    elif kind == 'item_put':
        import json
        method, path = 'PUT', f'/items/{rnd.randrange(1000)}'
        body = json.dumps({'tok': tok, 'l': [idx] * rnd.randint(0, 4)}).encode()
        hdrs['Content-Type'] = 'application/json'
    elif kind == 'echo':
        method, path = 'POST', f'/echo/{tok}'
        body = (tok * rnd.randint(0, 3)).encode()
        hdrs['Content-Type'] = 'application/octet-stream'
    elif kind == 'err':
        path = f'/err/{rnd.choice([400, 404, 409, 500])}'
    elif kind == 'ctx':
        path, qs = f'/u/{tok}/k/k{idx}', f'a={tok}&b={idx}&a=2'
        hdrs['X-Other'] = f'o-{tok}'
        hdrs['Cookie'] = f'sid={tok}; z={idx}'
    elif kind == 'chunks':
        path = f'/g/{rnd.randrange(16**8):08x}-0000-4000-8000-{idx:012d}'
    elif kind == 'sink':
        path = f'/sink/{tok}/x'
    elif kind == 'missing':
        path = f'/nothing/{tok}'
    elif kind == 'notallowed':
        method, path = 'DELETE', f'/items/{idx}'
    else:
        path = f'/items/{tok}'
    if body:
        hdrs['Content-Length'] = str(len(body))
    return {'kind': kind, 'tok': tok, 'method': method, 'path': path, 'qs': qs, 'headers': hdrs, 'body': body}


def _asgi_tasks(ctx):
    import asyncio
    import contextvars
    import falcon.asgi
    import falcon.testing as ft
    rnd = ctx.rng
    me_var = contextvars.ContextVar('c19_me', default=None)

    class Gate:
        def __init__(s, serial):
            s.serial, s.waiting, s.turns = serial, {}, 0
        async def turn(s):
            if s.serial:
                return
            me = me_var.get()
            fut = asyncio.get_running_loop().create_future()
            s.waiting[me] = fut
            await fut

    gate_box = [None]

    async def yp():
        await gate_box[0].turn()
    ns = _build_apps(True, yp)

    async def call(app, i, spec, chunking):
        me_var.set(i)
        gate = gate_box[0]
        await gate.turn()
        scope = ft.create_scope(method=spec['method'], path=spec['path'], query_string=spec['qs'], headers=spec['headers'])
        body = spec['body']
        evs = []
        pos = 0
        for c in chunking:
            evs.append({'type': 'http.request', 'body': body[pos:pos + c], 'more_body': True}); pos += c
        evs.append({'type': 'http.request', 'body': body[pos:], 'more_body': False})
        sent = []

        async def receive():
            await gate.turn()
            if evs:
                return evs.pop(0)
            return {'type': 'http.disconnect'}

        async def send(ev):
            await gate.turn()
            sent.append(ev)
        await app(scope, receive, send)
        status, headers, out = None, [], b''
        for ev in sent:
            if ev['type'] == 'http.response.start':
                status = ev['status']; headers = sorted((bytes(k).decode('latin-1'), bytes(v).decode('latin-1')) for k, v in ev['headers'])
            elif ev['type'] == 'http.response.body':
                out += ev.get('body', b'')
        return (status, tuple(headers), out, len([e for e in sent if e['type'] == 'http.response.body']))

    async def concurrent(app, specs, chunkings, policy, prnd):
        gate = gate_box[0] = Gate(False)
        tasks = [asyncio.ensure_future(call(app, i, specs[i], chunkings[i])) for i in range(len(specs))]
        order = []
        last = None
        while True:
            for _ in range(20000):
                if all(t.done() or i in gate.waiting for i, t in enumerate(tasks)):
                    break
                await asyncio.sleep(0)
            else:
                for t in tasks:
                    t.cancel()
                return None, order, 'a request neither finished nor reached an interleaving point (stuck)'
            parked = sorted(gate.waiting)
            if not parked:
                break
            if policy == 'uniform' or last not in parked:
                i = prnd.choice(parked)
            elif policy == 'sticky':
                i = last if prnd.random() < 0.8 else prnd.choice(parked)
            else:   # round robin
                i = parked[(parked.index(last) + 1) % len(parked)]
            last = i
            order.append(i)
            gate.waiting.pop(i).set_result(None)
        res = []
        for t in tasks:
            try:
                res.append(('ok', t.result()))
            except BaseException as e:  # noqa
                res.append(('exc', type(e).__name__, str(e)[:120]))
        return res, order, None

    async def serial(app, specs, chunkings):
        gate_box[0] = Gate(True)
        out = []
        for i in range(len(specs)):
            try:
                out.append(('ok', await asyncio.wait_for(call(app, i, specs[i], chunkings[i]), 120)))
            except BaseException as e:  # noqa
                out.append(('exc', type(e).__name__, str(e)[:120]))
        return out

    O_B = 'ASGI: every interleaving of 2-3 concurrent requests gives each request exactly its serial response; no response carries another request\'s token'

    serial_apps = {}

    async def main():
        for ci in range(ctx.n(2400, 40000)):
            n = rnd.choice([2, 2, 3])
            n_mw, indep = rnd.choice([0, 1, 2]), rnd.random() < 0.5
            specs = [_gen_request(rnd, i) for i in range(n)]
            if rnd.random() < 0.25:
                # the same route and kind for everybody: the worst case for shared per-route state
                k0 = _gen_request(rnd, 0)['kind']
                for i in range(n):
                    while True:
                        sp = _gen_request(rnd, i)
                        if sp['kind'] == k0:
                            specs[i] = sp; break
            chunkings = [[rnd.randint(0, 7) for _ in range(rnd.choice([0, 0, 1, 2]))] for _ in range(n)]
            policy = rnd.choice(['uniform', 'uniform', 'sticky', 'rr'])
            seed = rnd.randrange(2**32)
            prnd = __import__('random').Random(seed)
            if (n_mw, indep) not in serial_apps:
                serial_apps[(n_mw, indep)] = ns['make_app'](falcon.asgi.App, n_mw, indep)
            want = await serial(serial_apps[(n_mw, indep)], specs, chunkings)     # one at a time, on an app of its own
            app = ns['make_app'](falcon.asgi.App, n_mw, indep)            # fresh: these are its first-ever requests
            got, order, why = await concurrent(app, specs, chunkings, policy, prnd)
            if why is None:
                for i in range(n):
                    if got[i] != want[i]:
                        why = f'request {i} ({specs[i]["method"]} {specs[i]["path"]}) got {got[i]!r}, alone it gets {want[i]!r}'
                        break
                    blob = repr(got[i])
                    for j in range(n):
                        if j != i and specs[j]['tok'] in blob:
                            why = f'the response of request {i} contains the token of request {j}'
            if why is None and rnd.random() < 0.3:
                again = await serial(app, specs, chunkings)               # the same app, now warm, one at a time
                if again != want:
                    why = 'after the concurrent round the same app answers the same requests differently when run one at a time'
            switches = sum(1 for a, b in zip(order, order[1:]) if a != b)
            ctx.oracle(O_B, why is None, why, {'interface': 'asgi', 'middleware': n_mw, 'independent_middleware': indep, 'requests': specs,
                                               'body_chunking': chunkings, 'policy': policy, 'schedule_seed': seed, 'order': order})
            ctx.seen(('b', n_mw, indep, str(specs), seed), switches > 0)
            ctx.count(f'asgi_{n}req')
            ctx.count('asgi_turns', len(order))
            for sp in specs:
                ctx.count('asgi_kind_' + sp['kind'])
            if ci < 2:
                ctx.sample({'asgi_requests': [f"{sp['method']} {sp['path']}?{sp['qs']}" for sp in specs], 'order': order[:40]})
    asyncio.run(main())


def _wsgi_threads(ctx):
    import io
    import sys
    import threading
    import falcon
    import falcon.testing as ft
    import lib_sched
    rnd = ctx.rng
    FALCON_DIR = __import__('os').path.dirname(falcon.__file__)
    cur = {'sched': None}
    tls = threading.local()

    def yp():
        s = cur['sched']
        if s is not None:
            s.point(tls.i)
    ns = _build_apps(False, yp)

    def call(app, spec):
        env = ft.create_environ(method=spec['method'], path=spec['path'], query_string=spec['qs'], headers=spec['headers'], body=spec['body'])
        box = {}

        def start_response(status, headers, exc_info=None):
            box['status'] = status; box['headers'] = tuple(sorted(headers))
        it = app(env, start_response)
        chunks = list(it)
        if hasattr(it, 'close'):
            it.close()
        return (box.get('status'), box.get('headers'), b''.join(chunks), len(chunks))

    def serial(app, specs):
        cur['sched'] = None
        out = []
        for sp in specs:
            try:
                out.append(('ok', call(app, sp)))
            except BaseException as e:  # noqa
                out.append(('exc', type(e).__name__, str(e)[:120]))
        return out

    O_W = 'WSGI: 2-3 threads calling one app concurrently (first-ever requests included) get exactly their serial responses; no response carries another request\'s token'

    def verdict(specs, got, want):
        for i in range(len(specs)):
            if got[i] != want[i]:
                return f'request {i} ({specs[i]["method"]} {specs[i]["path"]}) got {got[i]!r}, alone it gets {want[i]!r}'
            blob = repr(got[i])
            for j in range(len(specs)):
                if j != i and specs[j]['tok'] in blob:
                    return f'the response of request {i} contains the token of request {j}'
        return None

    # ---- deterministic scheduler: PRNG preemption points at line events inside falcon/ and at the explicit points of the app
    def tracer_for(s, i):
        def local(frame, event, arg):
            if event == 'line':
                s.point(i)
            return local

        def tr(frame, event, arg):
            fn = frame.f_code.co_filename
            if fn.startswith(FALCON_DIR) or fn == '<string>':
                return local
            return None
        return tr

    serial_apps = {}

    def serial_app(n_mw, indep):
        if (n_mw, indep) not in serial_apps:
            serial_apps[(n_mw, indep)] = ns['make_app'](falcon.App, n_mw, indep)
        return serial_apps[(n_mw, indep)]

    events_seen = []
    for ci in range(ctx.n(500, 10000)):
        n = rnd.choice([2, 2, 3])
        n_mw, indep = rnd.choice([0, 1, 2]), rnd.random() < 0.5
        specs = [_gen_request(rnd, i) for i in range(n)]
        want = serial(serial_app(n_mw, indep), specs)
        app = ns['make_app'](falcon.App, n_mw, indep)
        E = events_seen[-1] if events_seen else 900
        k = rnd.choice([1, 2, 3, 4, 6, 10])
        sw = {p: rnd.choice([1, 2]) for p in rnd.sample(range(1, max(E, 50)), k)}
        s = lib_sched.Sched(n, sw)
        app._router._compile_lock = lib_sched.SLock(s, lambda: tls.i)
        cur['sched'] = s

        def body(i):
            def b():
                tls.i = i
                return call(app, specs[i])
            return b
        got = lib_sched.run_threads(s, [body(i) for i in range(n)], lambda i: tracer_for(s, i))
        cur['sched'] = None
        events_seen.append(s.ev)
        why = 'deadlock / a thread did not finish' if (s.dead or any(g[0] == 'deadlock' for g in got)) else verdict(specs, got, want)
        ctx.oracle(O_W, why is None, why, {'interface': 'wsgi', 'mode': 'deterministic scheduler', 'middleware': n_mw, 'independent_middleware': indep,
                                           'requests': specs, 'switch_points': sorted(sw.items()), 'events': s.ev})
        ctx.seen(('w', n_mw, indep, str(specs), tuple(sorted(sw.items()))), s.preemptions > 0)
        ctx.count(f'wsgi_sched_{n}thr')
        ctx.count('wsgi_sched_preemptions', s.preemptions)

    # ---- free-running threads on the real lock
    old = sys.getswitchinterval()
    sys.setswitchinterval(1e-6)
    try:
        for ci in range(ctx.n(240, 5000)):
            n = rnd.choice([2, 3, 3])
            n_mw, indep = rnd.choice([0, 1, 2]), rnd.random() < 0.5
            specs = [_gen_request(rnd, i) for i in range(n)]
            want = serial(serial_app(n_mw, indep), specs)
            app = ns['make_app'](falcon.App, n_mw, indep)
            got = [None] * n
            bar = threading.Barrier(n)

            def work(i):
                try:
                    bar.wait(120)
                    got[i] = ('ok', call(app, specs[i]))
                except BaseException as e:  # noqa
                    got[i] = ('exc', type(e).__name__, str(e)[:120])
            ts = [threading.Thread(target=work, args=(i,), daemon=True) for i in range(n)]
            for t in ts:
                t.start()
            for t in ts:
                t.join(180)
            why = 'a thread did not finish' if any(t.is_alive() for t in ts) else verdict(specs, got, want)
            ctx.oracle(O_W, why is None, why, {'interface': 'wsgi', 'mode': 'free-running threads', 'middleware': n_mw, 'independent_middleware': indep, 'requests': specs})
            ctx.seen(('wf', n_mw, indep, str(specs)), True)
            ctx.count(f'wsgi_free_{n}thr')
    finally:
        sys.setswitchinterval(old)


LEVEL_TEXT = ('Machine-checked proofs (Lean 4): (a) the lazy-compile protocol of CompiledRouter (find / _compile_and_find / _compile as a small-step system at attribute-load granularity, any number of threads, '
              'any schedule, any table size): every finished thread ran the finder of the one and only compile on that compile\'s complete tables, nobody re-enters the stub, at most one compile '
              '(every_thread_gets_serial_result, via the invariant run_inv and the monotonicity lemma Good_mono); without the lock the statement fails on a 17-step schedule (no_lock_witness). '
              '(b) a generic non-interference theorem: tasks that touch only their own component and consult shared state through memoised pure functions end, under any interleaving and any memo eviction, '
              'exactly where they end alone (noninterference_of_local_steps, memo_transparent). '
              'Tie: the real CompiledRouter runs under a deterministic thread scheduler (sys.settrace; opcode events inside find/_compile_and_find, line events elsewhere; scheduler-aware lock in router._compile_lock); '
              'every explored schedule (all single preemptions, targeted and PRNG 2-3 preemptions) is mapped step by step onto the 12 step kinds of the model and replayed by the compiled model, comparing per-thread outcome, '
              'number of compiles, order of compile starts/publishes and which way each thread went; 2-3 concurrent ASGI requests over generated apps are interleaved at every receive/send/await by a scripted gate and '
              '2-3 WSGI threads are run under the same deterministic scheduler and free-running, all compared with serial execution by an independent oracle.')
LEVEL_NOTE = ('PARTIAL (proof, partial): the hypothesis of (b) - Falcon\'s per-request steps only touch their own req/resp/params - is validated by interleaved-vs-serial execution, not derived from the source; '
              'CPython\'s true atomicity and C-level GIL releases are not exhibited. Trusted: Lean kernel + standard axioms, sys.settrace events as preemption points, the scheduler-aware lock, the asyncio gate, the oracles.')
TECHNIQUE = 'Lean 4 invariant proof over all schedules (small-step LTS) + non-interference lemma + schedule-replay correspondence under a deterministic thread/task scheduler + serial-equivalence oracle'

"""C19 - concurrent requests do not influence one another, from the very first request."""
PROP = 'C19'
LEAN_MODULES = ['FalconModel.SchedProofs', 'FalconModel.NonInterf', 'FalconModel.SharedMemoProofs', 'FalconModel.SharedCompose', 'FalconModel.LazyLockProofs']
DRIVERS = ['scdriver', 'smdriver']
THEOREMS = [
    # threads x lazy router compile (falcon/routing/compiled.py find / _compile_and_find / _compile), model Sc
    'Sc.Good_mono', 'Sc.init_inv', 'Sc.mk_inv', 'Sc.lazy_same', 'Sc.run_inv', 'Sc.exec_inv', 'Sc.every_thread_gets_serial_result',
    # the mutant without _compile_lock violates the statement (regression witness, by `decide`)
    'Sc.no_lock_witness',
    # where the lock comes from (model Ll): created with the object = mutual exclusion under every schedule; created on first use = not (witness)
    'Ll.init_inv', 'Ll.run_inv', 'Ll.exec_inv', 'Ll.eager_lock_mutual_exclusion', 'Ll.lazy_lock_witness',
    # HOW the lock is taken: a timed acquire that never times out is the blocking one; one whose result is ignored excludes nobody (witness)
    'Ll.execT_no_timeout', 'Ll.timed_ignored_witness',
    # tasks x shared memo caches: generic non-interference
    'Ni.step_coherent', 'Ni.exec_coherent', 'Ni.memo_transparent', 'Ni.noninterference_of_local_steps',
    # the kinds of process-wide state of the inventory: shared bounded memo at lookup/compute/store granularity (model Sm) ...
    'Sm.find_coh', 'Sm.erase_coh', 'Sm.store_coh', 'Sm.store_bound', 'Sm.step_inv', 'Sm.exec_inv', 'Sm.init_inv', 'Sm.memo_transparent',
    'Sm.execLru_is_exec', 'Sm.memo_transparent_lru', 'Sm.call_completes',
    # ... lazily initialised cell (model Lz)
    'Lz.GoodPc_mono', 'Lz.run_inv', 'Lz.exec_inv', 'Lz.lazy_init_idempotent', 'Lz.lazy_completes',
    # ... and the composition: per-request programs x safe protocols (memo, lazy cell, locked router compile, products)
    'Cp.step_rel', 'Cp.exec_rel', 'Cp.noninterference', 'Cp.solo_eq_Ni', 'Cp.memo_safe', 'Cp.lazy_safe', 'Cp.router_safe', 'Cp.prod_safe',
    'Cp.falcon_shared_noninterference',
]
STATEMENTS = {
    'Sc.every_thread_gets_serial_result': 'for any number of threads, any schedule (list of thread ids of any length) and any table size: a thread that has finished ran the finder of the one and only compile on that compile\'s complete tables, no thread re-enters the lazy stub, and the router is compiled at most once',
    'Sc.run_inv': 'one step of any thread preserves the invariant (one clause per program counter + "lazy => nobody compiled yet or somebody is compiling" + "compiled => version 1, tables complete")',
    'Sc.Good_mono': 'a step of another thread cannot invalidate what a thread knows, because shared data is only written by the lock holder',
    'Sc.no_lock_witness': 'without the lock, on a 17-step schedule of two threads, thread 0 runs finder 1 on the tables of compile 2 and the router is compiled twice',
    'Ll.eager_lock_mutual_exclusion': 'a lock object created together with the long-lived object (CompiledRouter.__init__: self._compile_lock = Lock()) - for ANY number of threads and ANY schedule of the steps read-the-attribute / acquire / release: at most one thread is inside the critical section, every thread inside holds that one lock, and no second lock object ever exists (this discharges what Sc assumes: Sh.lock is ONE lock that is part of the initial state)',
    'Ll.run_inv': 'one step of any thread preserves: the cell holds the eager lock, every thread refers to it only, and "held = [] and nobody inside" or "held = [l0] and exactly one thread inside"',
    'Ll.lazy_lock_witness': 'a lock created on first use by `lock = self._lock; if lock is None: lock = self._lock = Lock()` is NOT an idempotent lazy cell: on an 8-step schedule of two threads both are inside the critical section at once, holding different lock objects (Lz.lazy_init_idempotent needs a deterministic, unobservable value - a lock is neither)',
    'Ll.timed_ignored_witness': 'HOW the lock is taken is part of the protocol: with the lock created in __init__ (eager) but taken by `acquired = lock.acquire(timeout=t)` and the critical section entered whatever the result (release only if acquired), on a 4-step schedule of two threads in which the second thread\'s time-out fires both threads are inside the critical section, one lock exists and only thread 0 holds it (regression witness; Ll.eager_lock_mutual_exclusion is about `with lock:` / a blocking acquire)',
    'Ll.execT_no_timeout': 'the step relation with timed acquires (runT/execT) restricted to schedules in which no time-out fires is the blocking step relation (run/exec) the invariants are proved for',
    'Ni.noninterference_of_local_steps': 'tasks whose steps read/write only their own component and consult shared state only through a memo of a pure function: after ANY interleaving (and any memo evictions) the state of task i is what i alone reaches in the same number of its own steps',
    'Ni.memo_transparent': 'a lookup through a coherent memo (entries only ever (k, f k)) returns f k',
    'Sm.memo_transparent': 'N threads sharing a bounded memo table of a pure function f, each call being the separate steps lookup / compute (outside any lock) / store: for EVERY schedule of calls, steps and cache_clear()s, every capacity and every store policy (keep or overwrite an entry stored meanwhile by another thread, skip when full, evict ANY entry - LRU is one choice), every completed call for key k returned f k, what a thread is about to store or return is f of its key, the table only ever holds pairs (k, f k) and never more than `cap` of them; results that are exceptions are never stored',
    'Sm.step_inv': 'one step of any thread (or a cache_clear()) preserves: table coherent and within capacity, every thread holds f of its key, every logged result is f of its key',
    'Sm.memo_transparent_lru': 'the replay with functools.lru_cache\'s policy (keep on a concurrent insert, evict the least recently used entry) is one of the schedules memo_transparent quantifies over',
    'Sm.call_completes': 'progress / non-vacuity: from any reachable state a thread that calls and is scheduled three times has returned f k',
    'Lz.lazy_init_idempotent': 'a cell initialised lazily by any number of racing threads (several may find it empty and all write) with one deterministic value d is indistinguishable from eager initialisation: under any schedule of the lazy system and any schedule of the eager one every finished thread used d; the lazy cell never holds anything but d, the eager one always d',
    'Lz.lazy_completes': 'progress: from any reachable state a thread scheduled four times has finished, with d',
    'Cp.noninterference': 'tasks that touch only their own local state and reach shared state only through a protocol that is Safe for a specification `spec` (an invariant over the shared state and ALL threads\' protocol states is preserved by start/step/finish/environment actions and forces every delivered answer to be spec q): after ANY interleaving - each shared access itself interleaved step by step with the others - task i is where it gets alone when every access is answered by spec, in as many accesses as it has completed',
    'Cp.memo_safe': 'the shared bounded memo (Sm, any capacity/policy, cache_clear as environment action) is a safe protocol for f (reuses Sm.step_inv)',
    'Cp.lazy_safe': 'the lazily initialised cell (Lz) is a safe protocol for the constant d (reuses Lz.run_inv)',
    'Cp.router_safe': 'find() on the lazily compiled router under _compile_lock (Sc, any number of finds per thread) is a safe protocol for "finder 1 on the complete tables of compile 1" (reuses Sc.run_inv / Sc.mk_inv)',
    'Cp.prod_safe': 'the product of two safe protocols (disjoint shared components, a thread is inside at most one) is safe for the product specification',
    'Cp.falcon_shared_noninterference': 'requests whose only shared accesses are memoised calls (any capacity/eviction policy, cache_clear at any time), uses of a lazily initialised idempotent cell and find() on the lazily compiled router are non-interfering under ANY interleaving at lookup/compute/store/lock/table-fill granularity: request i ends where it ends alone with every memoised call = f k, the cell = d and the router compiled once',
    'Cp.solo_eq_Ni': 'the solo runs of the composition theorem are the solo runs of the earlier lemma Ni.noninterference_of_local_steps',
}
TRUSTED = [
    'sys.settrace line/opcode events as preemption points: CPython switches threads only between bytecodes, so every real interleaving of the traced code is a sequence of these steps (the converse - that each traced step is atomic - holds under the GIL; C-level GIL releases inside one bytecode are not exhibited)',
    'the scheduler-aware lock (harness/lib_sched.SLock) behaves like threading.Lock / RLock in every way the code may take it: `with lock:` / acquire() wait for the holder; acquire(blocking=False) and acquire(timeout=0) return False at once when the lock is taken; '
    'acquire(timeout=t) on a lock another thread holds is a CHOICE of the schedule - wait and return True, or return False (in logical time the holder can be parked longer than any t), both explored; release() of an unlocked lock raises; harness/lib_sched.LockPatch puts one in place of every lock the code under test creates (threading.Lock / RLock called from a file under falcon/, under whatever module-level name) or already holds (module globals, instance and class attributes of the router / app and of the falcon objects they refer to) - no attribute name is assumed; a lock reached only through a closure cell or a C extension stays a real lock (a preempted holder then shows up as a reported deadlock, not as a crash)',
    'the scripted asyncio gate (one task runs between two decisions of the controller) for the ASGI interleavings',
    'the AST scan of harness/lib_inventory.py as the enumeration of process-wide state: purely syntactic detectors (memo decorators and their aliases, memo applications as call expressions anywhere, partial objects binding containers, module-level containers and instances, mutable default arguments, class attributes, instance attributes of long-lived classes written outside __init__ directly or through a local alias, lazy-initialisation idioms, nonlocal cells, objects handed to local helper closures, closure cells of factory functions bound by an assignment (a captured PARAMETER is the caller\'s object and is not reported), raises of pre-existing objects); state reached only through other aliases, setattr()/__dict__, C extensions or modules outside falcon/ (and falcon/testing, bench, cmd, vendor, cyutil) is not seen',
    'the hand-written classification of the inventory table (kind + justification per item): the check ties its SHAPE to the source on every run and validates "immutable result" dynamically, but e.g. "written by add_route() only" is a reading of the code',
    'functools.lru_cache (C implementation) executes lookup and store atomically and calls the wrapped function in between; the model tie observes it through cache_info() after every call',
]
ASSUMPTIONS = [
    'routes are not added while requests are in flight (add_route during traffic is outside the property)',
    'generated resources, middleware and error handlers keep no state outside req/resp/params and the objects the framework hands them for the request (the parsed document, the error object given to an error handler); the one deliberate exception is the not thread-safe component of part (b\'\'), which every request enters exactly once through a threadsafe=False wrapper',
    'the wrapped-component runs depend on real time: a second worker thread (if the framework provides one) must get to run within the 2-4 ms another call blocks inside the component; under extreme load a broken tree may go unnoticed in that part, an intact one cannot fail',
]
RULE = ('(a) router race: routers generated from 3 route sets (fields, int/uuid converters, complex segments) x 2 threads (quick) / 2 and 3 threads (thorough) issuing the first-ever find() for PRNG-chosen paths; '
        'every single-preemption schedule at line granularity (opcode granularity inside find/_compile_and_find), two-preemption schedules with the first preemption at an opcode of find/_compile_and_find or at the first/last lines of _compile and the second one densely after it and strided up to the end, plus PRNG-chosen 2-4 preemption schedules (quick: all single preemptions and a PRNG subset of the rest); '
        'THE LAZY-COMPILE WINDOW, deeper: 3 (sometimes 2) first-ever lookups x up to 3 preemptions over 5 route sets (two of them minimal: 2 routes, all three side tables in use) as a schedule tree - first preemption at every point of thread 0 between its entry into find() and its entry into _compile() '
        '(attribute accesses of self, `with` entry/exit at opcode granularity, every line of whatever helper - a property, a lock factory - runs in between), to either other thread; each further preemption at a point of the run recorded for the prefix where switching is distinguishable: '
        'such a window point of any thread, or just before / just after a line that changed the router\'s instance state (found by comparing snapshots of all slots and __dict__ entries, whatever their names), to either other thread; '
        'quick: PRNG root-to-leaf walks (1 x 3 x 4 leaves per walk, every node is itself an executed schedule), thorough: the whole tree for the minimal route sets within a run budget, sliced over the shards; '
        'every lock the router creates or holds - eagerly or lazily, under any attribute name - is made scheduler-aware by patching threading.Lock/RLock for callers under falcon/ and adopting existing lock objects (no attribute name assumed); '
        'each explored schedule is replayed through the Lean model Sc (locking = true, one lock that exists before the first request: the reply carries locks=<created>:<eagerly>) and its lock protocol through the model Ll (eager); '
        'self-tests of the exploration on the same schedules: a no-op lock (Sc replay without locking) and a lock created on first use by an unsynchronised check-then-set (Ll replay, lazy) put in place of the router\'s lock(s); '
        'HOW THE LOCK IS TAKEN is an input too: a schedule = the preemption points + for every timed acquire (lock.acquire(timeout=t)) that finds the lock held by another thread, whether the holder releases first (True) or the time-out fires first (False, the thread goes on without the lock); '
        'every explored preemption schedule (flat and window tree, nodes and leaves) in which such contested timed acquires occur is also run with the subsets of them timing out (enumerated in increasing order; thorough: all, up to 32 per preemption schedule; quick: 3 PRNG-chosen), each judged by the same oracle and replayed through Sc/Ll; '
        'non-blocking acquires are refused at once when the lock is taken (their outcome is decided by the preemption points); the unchanged router takes its lock with `with` only (counters race_lock_taken_by_<form>), so a third self-test puts a lock in its place that is taken by acquire(timeout) with the result ignored '
        '(Ll.timed_ignored_witness): only the time-out branches expose it; '
        '(b) 2-3 concurrent ASGI requests over generated apps (routes with fields/converters, LITERAL-ONLY routes, middleware, media, errors, custom error handlers; in half of the apps a resource middleware that MUTATES what the framework hands it between suspension points: '
        'injects responder arguments through params (scalar and a mutable trail), completes the parsed req.get_media() document in place, appends to lists/dicts it keeps in req.context / resp.context; responders take **kwargs and report them late, and complete the parsed document in place before a suspension point), '
        'interleaved at every receive/send and at explicit awaits inside middleware/responders in a PRNG-chosen order, and 2-3 WSGI threads (deterministic scheduler with PRNG preemption points at line events inside falcon/, and free-running threads), each compared with one-at-a-time execution on an identical app of its own '
        '(the concurrent app is fresh: its requests are its first ever); request groups: 50% independent (every request its own token in path/query/body/headers), 17% all of one kind, 15% ALL TO THE SAME ROUTE AND ANSWERED BY A FRAMEWORK-DEFAULT RESPONDER '
        '(the 405 responder made for the route at add_route() with 2-3 different unsupported methods, the default OPTIONS responder, the 404 of an unknown path / a failing converter), 18% TWINS - identical method, path, query string and body BYTES, differing only in the X-Tok header (and headers derived from it); '
        'in two thirds of the apps an ERROR HANDLER THAT AMENDS THE ERROR OBJECT IT IS HANDED (description, title, code, entries of the headers dict) across two suspension points and raises it again / renders it itself (status, headers, to_dict()), registered for every HTTPError or for HTTPMethodNotAllowed/HTTPNotFound only; '
        'request kinds include media types spelled so that they are not literal keys of the handler mapping (parameters, letter case, a fresh parameter value per request: the best-match fallback of the resolver, first time for the app) for the response (resp.content_type + resp.media) and the request body; '
        "(b') WSGI, FIRST-TIME EVENTS x EVERY PREEMPTION POINT: pairs of requests to a fresh app - one mostly an error response / default responder, one mostly a first-time media-type spelling, either order - under every single-preemption schedule (quick: every third point, PRNG offset): request 0 preempted before its p-th line event inside falcon/ "
        '(all functions; inside the router\'s compile every 40th), request 1 processed completely in that window; '
        "(b'') ASGI, a NOT thread-safe synchronous component (accounts + journal; every method reads, blocks 2-4 ms releasing the GIL, writes) whose entry points are wrapped with falcon.util.wrap_sync_to_async(..., threadsafe=False) - one wrapper per entry point / wrapped anew per request / one wrapper for all / mixed - and called from responders and from middleware of one app, "
        'each request making exactly one call: 2-3 requests started together (PRNG start delays below the blocking time) must get the responses of SOME one-at-a-time order (all n! orders are executed on fresh apps); '
        '(c) inventory: every .py under $FALCON_REPO/falcon (without testing/bench/cmd/vendor/cyutil) is parsed with `ast` and every item of process-wide mutable state found by the detectors is compared with the classification table (one case per item and per per-request class; a new item, a changed decorator/shape, a stale row are mismatches naming the item); '
        'detectors: memo decorators and their aliases, EVERY application lru_cache(...)(f) / cache(f) written as a call expression (anywhere in the right-hand side of an assignment to a module, class or instance attribute, in a return, an argument ...), functools.partial binding a mutable container, module-level containers/instances, mutable defaults, class-level mutable attributes, '
        'CLOSURE CELLS (a local of a factory function bound there to a container / instance / call result / alias and free in an inner function - the responder made per route, the wrapper made per decorated function - with what the inner function does with it: read / call / pass on / RAISE / RETURN / mutate; a fresh instance or container that is raised or returned is one object handed to every request and is admitted by no proved kind), '
        'raise of a pre-existing object (raise self.X in a long-lived class, raise of a module-level non-class object), '
        'instance attributes of long-lived classes written outside __init__ directly or through a local alias (x = self.X; x[k] = v), and lazy initialisation (if self.X is None / not self.X / not hasattr / try-except AttributeError: self.X = V, also through an alias and chained assignment) with the kind of value created - a lazily created LOCK is a shape no proved kind admits; '
        'CONDITIONAL LOCK ACQUISITIONS (every <expr>.acquire(...) call with an argument - blocking=False, timeout=t - and what becomes of its result: ignored / tested / bound to a name that only guards the release in a finally clause ...): the kind lock-protected is proved for `with lock:` / a blocking acquire only, any conditional acquisition is an item of its own; '
        'every memoised function the scan finds - in the table or not, module-level or created in a method and stored on a default-constructed instance - is called twice with equal PRNG arguments, the first result mutated in place deeply, the next call compared with a fresh uncached computation; for the private mutable-result memos of mediatypes the same at their only caller quality(); '
        '(d) memo model: for each lru_cache-wrapped function of the inventory, PRNG call sequences of 0.5-3 x maxsize calls over maxsize+k keys (hits, misses, evictions, exceptions, cache_clear) on one thread, and 2-3 threads with 1-3 calls each over 1-3 keys under the deterministic scheduler with 1-4 PRNG preemptions inside the Python body (between lookup and store), the cache preloaded to (almost) full in 60% of the races; the ASGI header-name cache with 20-90 names; value/hits/misses/size after every call are replayed through the model; '
        'non-trivial = at least one preemption took place while another request was in flight / a sequence with hits and evictions / an inventory item; distinct = distinct (route set, paths, switch points) / (app, requests, schedule seed) / (function, call sequence) / item'
        ' (e) access shapes + threads x ASGI request object: the AST inventory also records HOW every inventoried shared container is read - an iteration over it (for / comprehension / .values() .items() .keys() / list() sorted() tuple() any() join() / *X / range(len(X))) outside a `with <lock>:` adds the form iter:<how> to the item\'s shape, which no memo / lazy / read-only kind admits (smdriver shapeAllows); dynamically one ASGI app is driven by 2-3 threads with one event loop each under the deterministic scheduler: requests read headers through req.get_header() (3 accessor forms; middleware + responder) with spellings that are memoised already / first-time / the same header spelled differently / twins, the process-wide header-name memo holding 0, 1, 2, 3, 5, cap/2, cap-2, cap-1, cap, cap+1 names when they arrive (cap from the inventory table), under EVERY single preemption of thread 0 at a line event inside falcon/asgi/request.py (other request(s) processed in the window) + PRNG double preemptions for 3 threads; oracle: the responses of some one-at-a-time order (all orders run from the same memo state)')
PARTIAL = ('proof, partial: proved are the locking protocol of the lazy router compile (given one lock that exists before the first request - which is what an eagerly created lock provides under every schedule, Ll.eager_lock_mutual_exclusion, and what a lock created on first use does not, Ll.lazy_lock_witness), the transparency of a shared bounded memo and of racing lazy initialisation under every schedule, and their composition with per-request programs '
           '(Cp.falcon_shared_noninterference). The hypothesis of that composition - every write after import goes to the request\'s own objects or to an inventoried item of kind memo / lazy / lock-protected - is established by a checked '
           'syntactic inventory (AST detectors + hand classification, tied to the source on every run), not by a semantic analysis of the Python code: aliasing beyond local helper closures, setattr/__dict__ writes and state outside falcon/ are not seen; '
           'the items of kind configuration rest on the assumption that the app is not reconfigured during traffic, the items of kind OTHER (falcon.util.sync runner/executor - the mutual exclusion it offers to applications is exercised by the wrapped-component runs, in real time, not proved) and the purity of the memoised functions are covered only by the '
           'interleaved-vs-serial runs and the mutable-result oracles; that objects handed to user code (error objects, parsed documents, params) are created per request is checked by the closure-cell / shared-raise detectors and by handlers that amend them between suspension points, not proved; that per-request steps touch only req/resp/params is still validated dynamically. CPython\'s true atomicity (coarser than the traced steps) and '
           'C-level GIL releases are not exhibited; the replay of real router schedules maps opcode/line events to the model\'s 12 step kinds (the three table loads of one call count as one step); lru_cache\'s lookup and store are taken as atomic. '
           'The exploration of the lazy-compile window with 3 threads x 3 preemptions is exhaustive only over the reduced set of switch points (window points + state-changing lines) and, in the quick tier, sampled.')
JOBS = {'quick': 4, 'thorough': 16}


def run(ctx):
    for part in (_inventory, _memo_oracles, _memo_tie, _router_race, _asgi_tasks, _asgi_wrapped_sync, _asgi_threads, _wsgi_threads, _audit_after_traffic):
        try:
            part(ctx)
        except Exception as e:  # noqa
            # A crash is not a verdict.  Every part states what it assumes about the code under test by checking it; if one still dies on a
            # tree that differs from the one the model describes, that is a disagreement between model/harness and code: it is recorded as a
            # correspondence mismatch carrying the traceback, and the remaining parts run on (they may find the concrete failing input).
            import traceback
            sess = ctx.session('assumptions of the harness about the code under test hold (no part of the check died)', 'smdriver')
            sess.case({'part': part.__name__, 'exception': type(e).__name__, 'text': str(e)[:300], 'traceback': traceback.format_exc()[-1500:]})
            sess.op(f'assumption {part.__name__} {type(e).__name__}', 'holds')
            sess.finish()
            ctx.count('parts_that_died_' + part.__name__)


# ------------------------------------------------------------------ (a) threads x lazy router compile

ROUTESETS = [
    ['/a/{x}', '/a/{x}/b', '/c/{y:int}', '/{z}-{w}'],
    ['/items', '/items/{item_id:int}', '/items/{item_id:int}/parts/{part}', '/u/{uid:uuid}', '/files/{name}.{ext}'],
    ['/', '/x/{a}/{b}/{c}', '/x/{a}/lit', '/v{ver:int}/ping'],
    # small routers for the deep exploration of the lazy-compile window (few events per compile, still all three side tables in use)
    ['/c/{y:int}', '/{z}-{w}'],
    ['/lit', '/p/{q}'],
]
N_FLAT_ROUTESETS = 3
PATHS = [
    ['/a/1', '/c/7', '/a/q/b', '/k-v', '/nope/x', '/c/notint'],
    ['/items', '/items/12', '/items/3/parts/p9', '/u/12345678-1234-5678-1234-567812345678', '/files/r.txt', '/items/x'],
    ['/', '/x/1/2/3', '/x/9/lit', '/v2/ping', '/v/ping', '/x/1/2'],
    ['/c/7', '/k-v', '/c/12', '/a-b', '/c/x', '/nope'],
    ['/lit', '/p/1', '/p/zz', '/lit', '/p', '/nope'],
]


_DEV = {}       # development switches (set by hand from a scratch script; empty in production)


def _router_race(ctx):
    import dis
    import linecache
    import sys
    import threading
    import lib_sched
    from falcon.routing import CompiledRouter
    import falcon.routing.compiled as comp
    rnd = ctx.rng
    COMPILED = comp.__file__
    FALCON_DIR = __import__('os').path.dirname(__import__('falcon').__file__)

    sess = ctx.session('router race under an explored schedule = Sc model replay (locking)', 'scdriver')
    sess_nl = ctx.session('router race with a no-op lock injected by the harness = Sc model replay (no locking): compiles, order, paths', 'scdriver',
                          norm=_norm_nolock)

    sess_ll = ctx.session('the lock object(s) behind the router race = Ll model replay: the real router (lock created in __init__ = eager) on every explored '
                          'schedule, and a lazily created lock put in its place by the harness: who acquired which lock, locks created, threads inside at once', 'smdriver')

    # ---- what the harness assumes about the router, checked instead of assumed: the three methods the model Sc transcribes.  The LOCK is
    #      not among the assumptions: whatever lock objects the code under test creates or holds - under any attribute name, eagerly or
    #      lazily - are made scheduler-aware by lib_sched.LockPatch.  If a method is gone the model cannot be tied (reported as a
    #      correspondence mismatch); the races still run at line granularity and are judged by the serial-result oracle.
    def code_of(name):
        f = getattr(CompiledRouter, name, None)
        return getattr(f, '__code__', None)
    co_find, co_caf, co_compile = code_of('find'), code_of('_compile_and_find'), code_of('_compile')
    anchors_ok = None not in (co_find, co_caf, co_compile)
    if not anchors_ok:
        if ctx.shard[0] == 0:
            missing = [n for n, c in (('find', co_find), ('_compile_and_find', co_caf), ('_compile', co_compile)) if c is None]
            sess.case({'anchor': 'methods of CompiledRouter transcribed by the model Sc', 'missing': missing})
            sess.op('anchor ' + ','.join(missing), 'present')
        ctx.count('race_model_anchor_missing')
    locks = lib_sched.LockPatch([comp], lambda fn: fn.startswith(FALCON_DIR))

    def tags_for(code, spec):
        """offset -> tag for the n-th instruction matching (opname prefix, argval)"""
        out = {}
        seen = {}
        ins = list(dis.get_instructions(code)) if code is not None else []
        for idx, i in enumerate(ins):
            key = (i.opname, i.argval if isinstance(i.argval, str) else None)
            seen[key] = seen.get(key, 0) + 1
            t = spec.get((key[0], key[1], seen[key]))
            if t:
                out[i.offset] = t
        return out, ins

    tag_find, ins_find = tags_for(co_find, {('LOAD_ATTR', '_find', 1): 'F.loadFind', ('LOAD_ATTR', '_return_values', 1): 'F.loadTables'})
    # the CALL of self._find(...): first CALL after the _return_values load
    seen_rv = False
    for i in ins_find:
        if i.opname == 'LOAD_ATTR' and i.argval == '_return_values':
            seen_rv = True
        elif seen_rv and i.opname.startswith('CALL'):
            tag_find[i.offset] = 'F.call'
            break
    tag_caf, ins_caf = tags_for(co_caf, {('LOAD_ATTR', '_find', 1): 'C.test', ('STORE_ATTR', '_find', 1): 'C.publish',
                                         ('LOAD_ATTR', '_find', 2): 'C.reFind', ('LOAD_ATTR', '_return_values', 1): 'C.reTables'})
    # opcode events of find/_compile_and_find that are about to touch something other threads can see: an attribute of `self`, entering a
    # `with` block (acquire) and the __exit__ call that leaves it (release).  Calls of traced Python functions need no point of their own.
    def shared_offsets(code, ins):
        out = set()
        me = code.co_varnames[0] if code.co_argcount else None
        for k, i in enumerate(ins):
            if i.opname in ('LOAD_ATTR', 'STORE_ATTR', 'DELETE_ATTR', 'LOAD_METHOD'):
                prev = ins[k - 1] if k else None
                if prev is not None and prev.opname.startswith('LOAD_FAST') and prev.argval == me:
                    out.add(i.offset)
            elif i.opname == 'BEFORE_WITH' or i.opname == 'BEFORE_ASYNC_WITH':
                out.add(i.offset)
            elif i.opname.startswith('CALL') and k >= 3 and all(x.opname == 'LOAD_CONST' and x.argval is None for x in ins[k - 3:k]):
                out.add(i.offset)
        return out
    shared_off = {}
    for code, ins in ((co_find, ins_find), (co_caf, ins_caf)):
        if code is not None:
            shared_off[code] = shared_offsets(code, ins)
    fill_cache = {}

    def is_fill(lineno):
        r = fill_cache.get(lineno)
        if r is None:
            r = fill_cache[lineno] = 'return_values.append(' in linecache.getline(COMPILED, lineno)
        return r

    class Res:
        def __init__(s, name):
            s.name = name
        def on_get(s, req, resp):
            pass

    def build(rs):
        r = CompiledRouter()
        for t in ROUTESETS[rs]:
            r.add_route(t, Res(t))
        return r

    def canon(res):
        if res is None:
            return ('none',)
        return ('ok', res[0].name, tuple(sorted((k, repr(v)) for k, v in res[2].items())), res[3])

    serial_cache = {}

    def serial(rs, path):
        k = (rs, path)
        if k not in serial_cache:
            r = build(rs)
            r.find('/')          # compile alone
            serial_cache[k] = canon(r.find(path))
        return serial_cache[k]

    _NOATTR = object()

    def state_names(router):
        """the names of the instance state of the router (slots and __dict__; never properties: reading one may create state)"""
        names = list(getattr(router, '__dict__', {}) or {})
        for c in type(router).__mro__:
            sl = c.__dict__.get('__slots__', ())
            names += [sl] if isinstance(sl, str) else [x for x in sl if x not in ('__dict__', '__weakref__')]
        return names

    def snapshot(router, names):
        out = []
        for nm in names:
            try:
                v = object.__getattribute__(router, nm)
            except AttributeError:
                v = _NOATTR
            out.append((id(v), len(v) if type(v) in (list, dict, set) else -1))
        return out

    def execute(rs, paths, switches, lockmode='lock', record=False, timeouts=()):
        """One race under one schedule (= the preemptions `switches` + the contested timed acquires `timeouts` that time out).
        Returns (results, sched, info)."""
        n = len(paths)
        s = lib_sched.Sched(n, switches, timeouts=timeouts)
        tls = threading.local()
        locks.activate(s, lambda: tls.i, lockmode)
        try:
            router = build(rs)
            locks.adopt(router)
            eager_locks = len(locks.created)
            info = {'ev': [], 'S': {}, 'ncomp': 0, 'compile_calls': 0, 'where': [] if record else None, 'hot': {} if record else None}
            stub = getattr(router, '_compile_and_find', None)
            depth = [0] * n                      # > 0: thread i is inside _compile()
            names = state_names(router) if record else None
            last_snap = [snapshot(router, names)] if record else None
            last_ev_of = [None] * n

            def on_step(me, step):
                # called right after the tagged instruction of thread `me` has executed, before any other thread runs
                if step == 'C.test':
                    if getattr(router, '_find', None) == stub:
                        info['ncomp'] += 1
                        info['S'][me] = info['ncomp']
                        info['ev'].append(f"S{me}:{info['ncomp']}")
                elif step == 'C.publish':
                    info['ev'].append(f"P{me}:{info['S'].get(me, '?')}")
            s.on_step = on_step

            def rec(i, fn, lineno, off, window_hot):
                """recording run: remember where global event s.ev + 1 is and whether a preemption there is worth exploring"""
                e = s.ev + 1
                info['where'].append((e, i, fn, lineno, off))
                snap = snapshot(router, names)
                if snap != last_snap[0]:
                    # the code thread i ran since its previous event changed the router's state: preempting i just before and just
                    # after that write are the two distinguishable choices
                    last_snap[0] = snap
                    if last_ev_of[i] is not None:
                        info['hot'].setdefault(last_ev_of[i], 'before-write')
                    info['hot'].setdefault(e, 'after-write')
                if window_hot:
                    info['hot'].setdefault(e, 'window')
                last_ev_of[i] = e
            if record and lockmode == 'lazy':
                locks.on_point = lambda me: rec(me, '<lazily created lock>', 0, None, True)

            def tracer_for(i):
                def local_line(frame, event, arg):
                    if event == 'line':
                        if record:
                            rec(i, frame.f_code.co_name, frame.f_lineno, None, depth[i] == 0)
                        s.point(i, 'fill' if (frame.f_code.co_filename == COMPILED and is_fill(frame.f_lineno)) else None)
                    elif event == 'return' and frame.f_code is co_compile:
                        depth[i] -= 1
                        s.point(i, 'C.compileReturn')
                    return local_line

                def local_op_find(frame, event, arg):
                    if event == 'opcode':
                        if record:
                            rec(i, 'find', frame.f_lineno, frame.f_lasti, frame.f_lasti in shared_off[co_find])
                        s.point(i, tag_find.get(frame.f_lasti))
                    return local_op_find

                def local_op_caf(frame, event, arg):
                    if event == 'opcode':
                        if record:
                            rec(i, '_compile_and_find', frame.f_lineno, frame.f_lasti, frame.f_lasti in shared_off[co_caf])
                        s.point(i, tag_caf.get(frame.f_lasti))
                    return local_op_caf

                def tr(frame, event, arg):
                    co = frame.f_code
                    if co is co_compile:
                        info['compile_calls'] += 1
                        depth[i] += 1
                    if anchors_ok and co is co_find:
                        frame.f_trace_opcodes = True
                        frame.f_trace_lines = False
                        return local_op_find
                    if anchors_ok and co is co_caf:
                        frame.f_trace_opcodes = True
                        frame.f_trace_lines = False
                        return local_op_caf
                    fn = co.co_filename
                    if fn == COMPILED or fn == '<string>':
                        return local_line
                    return None
                return tr

            def body(i):
                def b():
                    tls.i = i
                    return canon(router.find(paths[i]))
                return b
            # tls.i must be set before the tracer runs: do it in the body wrapper, the tracer only fires inside find()
            results = lib_sched.run_threads(s, [body(i) for i in range(n)], tracer_for)
            info['compiled_finally'] = getattr(router, '_find', None) != stub
            info['locks'] = (len(locks.created), eager_locks)
            # how the code took its lock(s) and what became of the conditional acquires (non-blocking / timed) that found the lock taken
            info['tacq'], info['cond'], info['forms'] = s.tacq, list(s.cond_log), dict(s.lock_forms)
            # the lock protocol as the model Ll sees it: one entry per step (read the cell / create / store / acquire or find taken / release)
            numbering = {id(lk): k + 1 for k, lk in enumerate(locks.lazy_created if lockmode == 'lazy' else locks.created)}
            ll_sched, acq, inside, maxcrit, state = [], [], 0, 0, {}
            for t, st in s.steps:
                if st in ('L.read', 'L.create', 'L.store', 'blocked'):
                    if st == 'blocked' and lockmode != 'lazy' and t not in state:
                        ll_sched.append(t)          # the real code's read of the lock attribute has no event of its own
                        state[t] = 'ref'
                    ll_sched.append(t)
                elif st == 'acquire':
                    if lockmode != 'lazy' and t not in state:
                        ll_sched.append(t)
                    ll_sched.append(t)
                    state[t] = 'crit'
                    inside += 1
                    maxcrit = max(maxcrit, inside)
                elif st == 'release':
                    ll_sched.append(t)
                    state[t] = 'done'
                    inside -= 1
            info['ll'] = {'sched': ll_sched, 'state': state, 'maxcrit': maxcrit, 'nlocks': len(numbering),
                          'acq': [(t, numbering.get(id(lk), 0)) for t, lk in getattr(s, 'acq_log', [])]}
        finally:
            locks.deactivate()
        return results, s, info

    O_A = ('router race: every thread gets exactly the serial result, no exception, no deadlock, the router ends compiled exactly once')

    STEP_OK = {'F.loadFind', 'F.loadTables', 'F.call', 'blocked', 'acquire', 'C.test', 'fill', 'C.compileReturn', 'C.publish', 'release', 'C.reFind', 'C.reTables'}
    done_keys = set()
    failures = [0]
    pending_failures = []

    def ll_case(info, nthreads, eager, meta):
        """the lock side of the run through the model Ll (only when every thread got out of the lock protocol)"""
        ll = info['ll']
        if any(v != 'done' for v in ll['state'].values()):
            ctx.count('ll_replay_skipped_thread_stuck_in_lock_protocol')
            return
        pcs = ' '.join(f't{i}=' + ('done' if i in ll['state'] else 'start') for i in range(nthreads))
        acq = ','.join(f'{t}:{l}' for t, l in ll['acq']) or '-'
        sess_ll.case(meta)
        sess_ll.op(f"lzlock {1 if eager else 0} {nthreads} {','.join(map(str, ll['sched'])) or '-'}",
                   f"{pcs} acq={acq} nlocks={ll['nlocks']} maxcrit={ll['maxcrit']} agree=1")

    def check(rs, paths, switches, nthreads, selftest=None, record=False, family='flat'):
        """One schedule of preemptions - and, when the code under test takes a lock CONDITIONALLY (lock.acquire(timeout=t) on a lock that
        another thread holds at that moment), the schedules that differ from it in which of those acquires time out: a timed acquire of a
        taken lock has two outcomes (the holder releases first / the time-out fires first - the holder may be parked for any length of
        time), both are inputs of the property.  The subsets of {1..number of contested timed acquires} are enumerated in increasing order
        (the run with the acquires T timing out tells how many contested acquires follow the last of T); thorough: all of them (up to 32 per
        preemption schedule), quick: 3 PRNG-chosen ones.  A tree that takes its locks with `with` / a blocking acquire() has none."""
        bad, s, info = check1(rs, paths, switches, nthreads, selftest, record, family)
        if info['tacq']:
            if selftest is None:
                ctx.count('race_schedules_with_a_contested_timed_acquire')
            work = [(j,) for j in range(1, info['tacq'] + 1)]
            budget = 3 if ctx.quick else 32
            while work and budget:
                T = work.pop(rnd.randrange(len(work)) if ctx.quick else 0)
                budget -= 1
                b2, _, i2 = check1(rs, paths, switches, nthreads, selftest, False, family, timeouts=T)
                bad = bad or b2
                work += [T + (j,) for j in range(T[-1] + 1, i2['tacq'] + 1)]
        return bad, s, info

    def check1(rs, paths, switches, nthreads, selftest=None, record=False, family='flat', timeouts=()):
        """selftest: None (the router as it is) | 'nolock' (a lock that does not lock) | 'lazy' (a lock created on first use) |
        'timedignored' (the lock taken with a time-out whose result only decides whether to release)"""
        lockmode = selftest or 'lock'
        results, s, info = execute(rs, paths, switches, lockmode, record=record, timeouts=timeouts)
        want = [('ok', serial(rs, p)) for p in paths]
        ntab = len(build_tables[rs])
        sched_ids = [str(t) for t, st in s.steps if st in STEP_OK]
        paths_cls = []
        for i in range(nthreads):
            mine = [st for t, st in s.steps if t == i]
            paths_cls.append('c' if i in info['S'] else 'w' if 'acquire' in mine else 'd' if 'F.call' in mine else '-')
        outs = ' '.join(f"t{i}=" + (f'done:1:1:{ntab}' if results[i] == want[i] else 'BAD') for i in range(nthreads))
        # the model has ONE lock that exists before the first request (Sc.Sh.lock): the locks the real router created, and how many of them eagerly
        nlocks = 'locks=%d:%d' % info['locks']
        reply = f"{outs} ncomp={info['ncomp']} ev={','.join(info['ev']) or '-'} paths={','.join(paths_cls)} {nlocks} agree=1"
        line = f"exec {0 if selftest else 1} {ntab} {nthreads} {','.join(sched_ids) or '-'}"
        meta = {'routes': rs, 'paths': paths, 'switches': sorted(switches.items())}
        if timeouts:
            meta['timed_acquires_that_time_out'] = list(timeouts)
        if selftest == 'timedignored':
            ctx.count('selftest_timedignored_schedules')
            ctx.count('selftest_timedignored_schedules_with_a_timeout_firing', int(bool(timeouts)))
            ctx.count('selftest_timedignored_contested_timed_acquires', info['tacq'] if not timeouts else 0)
            ctx.count('selftest_timedignored_nonserial_outcome_or_second_compile', int(results != want or info['compile_calls'] != 1))
            return (results != want or info['compile_calls'] != 1), s, info
        if selftest == 'lazy':
            ll_case(info, nthreads, False, dict(meta, lock='created on first use (harness mutant)'))
            ctx.count('selftest_lazylock_schedules')
            ctx.count('selftest_lazylock_two_threads_inside_at_once', int(info['ll']['maxcrit'] >= 2))
            ctx.count('selftest_lazylock_nonserial_outcome', int(results != want))
            return (results != want or info['compile_calls'] != 1), s, info
        if selftest:
            if all(r[0] == 'ok' for r in results):
                # a thread that dies inside _compile() (tables reset under its feet) never publishes; the model has no
                # exceptions, so only runs in which every thread returned are replayed
                if anchors_ok:
                    sess_nl.case(meta)
                    sess_nl.op(line, reply)
            else:
                ctx.count('selftest_nolock_thread_died')
            return (results != want or info['compile_calls'] != 1), s, info
        key = (rs, tuple(paths), tuple(sorted(switches.items())), tuple(timeouts))
        if key in done_keys:
            return False, s, info
        done_keys.add(key)
        if anchors_ok:
            sess.case(meta)
            sess.op(line, reply)
        if info['locks'][0] == info['locks'][1] <= 1:
            ll_case(info, nthreads, True, dict(meta, lock='the router\'s own'))
        why = None
        if s.dead or any(r[0] == 'deadlock' for r in results):
            why = 'deadlock / a thread did not finish'
        elif results != want:
            bad = [i for i in range(nthreads) if results[i] != want[i]]
            why = f'thread {bad[0]} got {results[bad[0]]}, serial execution gives {want[bad[0]]}'
        elif co_compile is not None and (info['compile_calls'] != 1 or not info['compiled_finally']):
            why = f"_compile() ran {info['compile_calls']} times (router compiled at the end: {info['compiled_finally']})"
        case = {'routes': ROUTESETS[rs], 'paths': paths, 'switch_points': sorted(switches.items()),
                'model_schedule': ','.join(sched_ids), 'compile_events': info['ev'],
                'contested_timed_acquires_that_time_out': list(timeouts),
                'conditional_acquires_that_found_the_lock_taken': [f'#{k} thread {t} {form}: {out}' for k, t, form, out in info['cond']],
                'how_the_lock_was_taken': info['forms'],
                'locks_created_by_the_router': info['locks'][0], 'of_them_before_the_first_request': info['locks'][1],
                'results': results if why else None}
        if why is None:
            ctx.oracle(O_A, True, None, case)
        else:
            # reported at the end of the part, a wrong or failed RESPONSE (what the property is about) before a second compile (what the protocol forbids)
            pending_failures.append((0 if (results != want and not s.dead) else 1, len(pending_failures), why, case))
        ctx.seen(('a', rs, tuple(paths), tuple(sorted(switches.items()))) + ((tuple(timeouts),) if timeouts else ()), s.preemptions > 0)
        ctx.count(f'race_{family}_{nthreads}thr_{len(switches)}preempt')
        for form, k in info['forms'].items():
            ctx.count('race_lock_taken_by_' + form, k)
        if info['cond']:
            ctx.count('race_conditional_acquires_that_found_the_lock_taken', len(info['cond']))
            ctx.count('race_timed_acquires_that_timed_out', sum(1 for c in info['cond'] if c[3] == 'timed-out'))
            ctx.count('race_nonwaiting_acquires_refused', sum(1 for c in info['cond'] if c[3] == 'refused'))
        ctx.count('race_paths_' + ''.join(sorted(paths_cls)))
        if why is not None:
            failures[0] += 1
            if results != want and not s.dead:
                ctx.count('race_failures_with_a_wrong_or_failed_response')
        return why is not None, s, info

    # tables sizes (= number of appends to return_values per compile)
    build_tables = {}
    for rs in range(len(ROUTESETS)):
        r = build(rs)
        r.find('/')
        build_tables[rs] = list(getattr(r, '_return_values', None) or [])

    # warm-up: CPython 3.12 instruments a code object for opcode events when f_trace_opcodes is first set on one of its frames, and the frame
    # that is already running misses them - the first traced race of a process would number its events differently from all later ones
    for _ in range(2):
        execute(0, [PATHS[0][0], PATHS[0][1]], {}, 'lock', record=True)

    i0, k0 = ctx.shard
    nthreads_list = [2] if ctx.quick else [2, 3]
    if _DEV.get('skip_flat'):
        nthreads_list = []
    selftest_bad = 0
    selftest_n = 0
    timed_bad = timed_n = 0
    for rs in range(N_FLAT_ROUTESETS):
        for nthreads in nthreads_list:
            paths = [rnd.choice(PATHS[rs]) for _ in range(nthreads)]
            # serial pass with recording: where is each global event?
            _, s0, info0 = execute(rs, paths, {}, 'lock', record=True)
            E = s0.ev
            where = info0['where']
            E0 = max(e for e, t, *_ in where if t == 0)            # events of thread 0 (it runs first, alone)
            op_pts = [e for e, t, fn, ln, off in where if t == 0 and off is not None]
            comp_pts = [e for e, t, fn, ln, off in where if t == 0 and off is None]
            hot = sorted(set(op_pts + comp_pts[:25] + comp_pts[-45:]))
            if ctx.searching:
                hot = sorted(set(hot + comp_pts[::3]))
            cands = []
            # every single preemption
            for p in range(1, E + 1):
                cands.append({p: 1})
            # two preemptions: first at a hot point, second densely after it and strided to the end
            for p1 in hot:
                offs = list(range(1, 41)) + list(range(41, E + 40, 9 if nthreads == 2 else 25))
                for d in offs:
                    cands.append({p1: 1, p1 + d: 1})
            if nthreads == 3:
                for p1 in hot:
                    for d in list(range(1, 30, 3)) + list(range(30, E, 50)):
                        cands.append({p1: 1, p1 + d: 1, p1 + d + rnd.randint(1, 60): rnd.choice([1, 2])})
                        cands.append({p1: 2, p1 + d: 1})
            # PRNG-chosen schedules
            for _ in range(ctx.n(400, 4000) * k0):
                k = rnd.choice([2, 3, 3]) if nthreads == 2 else rnd.choice([2, 3, 4])
                pts = sorted(rnd.sample(range(1, 2 * E), k))
                cands.append({p: rnd.choice([1, 2]) if nthreads == 3 else 1 for p in pts})
            if ctx.quick:
                # quick tier: every single preemption, a PRNG subset of the rest
                singles = [c for c in cands if len(c) == 1]
                rest = [c for c in cands if len(c) > 1]
                rnd.shuffle(rest)
                cands = singles + rest[:ctx.n(6000) * k0 // N_FLAT_ROUTESETS]
            for idx, sw in enumerate(cands):
                if idx % k0 != i0:
                    continue
                check(rs, paths, sw, nthreads)
            # self-test of the exploration: the same schedules against a lock that does not lock must expose the race
            st = [c for c in cands if len(c) == 2][:: max(1, len(cands) // 300)]
            for idx, sw in enumerate(st):
                if idx % k0 != i0:
                    continue
                selftest_n += 1
                selftest_bad += bool(check(rs, paths, sw, nthreads, selftest='nolock')[0])
            # ... and against a lock taken with a time-out whose result is ignored: only the schedules in which a time-out fires expose it
            for idx, sw in enumerate(st[::2]):
                if idx % k0 != i0:
                    continue
                timed_n += 1
                timed_bad += bool(check(rs, paths, sw, nthreads, selftest='timedignored')[0])
    ctx.notes.append(f'shard {i0}: self-test with a no-op lock created by the harness wherever the router asks for a lock: {selftest_bad} of {selftest_n} explored schedules give a non-serial outcome')
    ctx.notes.append(f'shard {i0}: self-test with the router\'s lock(s) taken by acquire(timeout=t), result ignored (Ll.timed_ignored_witness): {timed_bad} of {timed_n} preemption schedules have a time-out '
                     f'branch with a non-serial outcome or a second compile')
    ctx.count('selftest_nolock_schedules', selftest_n)
    ctx.count('selftest_nolock_exposed', selftest_bad)

    # ---- the lazy-compile window, deeper: 3 (sometimes 2) first-ever lookups x up to 3 preemptions.
    #      The schedules form a tree: the first preemption at every point of thread 0 between its entry into find() and its entry into
    #      _compile() (the window in which whatever is initialised lazily - finder, tables, a lock - is initialised), to either other thread;
    #      every further preemption at a point of the run recorded for the prefix where switching is distinguishable: an attribute access,
    #      call or `with` boundary of a thread that is in its own window (opcode granularity in find/_compile_and_find, line granularity in
    #      whatever helper they call) or just before / just after a line that changed the router's instance state (found by comparing
    #      snapshots of all slots, whatever they are called), to either other thread.  thorough: the whole tree for one (route set, paths)
    #      triple per shard slice; quick: PRNG root-to-leaf walks through it (every node of a walk is a schedule that is executed and judged).
    def hot_after(info, p, upto=None):
        return sorted(e for e in info['hot'] if e > p and (upto is None or e <= upto))

    rec_cache = {}
    nodes_run = [0]

    def node(rs, paths, sw, selftest=None):
        """run (once) the schedule `sw` with recording; returns its info"""
        key = (rs, tuple(paths), tuple(sorted(sw.items())), selftest)
        if key not in rec_cache:
            if len(rec_cache) > 4000:
                rec_cache.clear()
            nodes_run[0] += 1
            _, s_, info_ = check(rs, paths, sw, len(paths), selftest=selftest, record=True, family='window')
            rec_cache[key] = (info_, s_.ev)
        return rec_cache[key][0]

    def window_of_t0(info):
        """events of thread 0 before it enters _compile() (or all its events if it never does)"""
        out = []
        for e, t, fn, ln, off in info['where']:
            if t != 0:
                break
            if co_compile is not None and fn == co_compile.co_name and off is None:
                break
            if e in info['hot']:
                out.append(e)
        return out

    deep_runs = [0]
    deep_bad = [0]
    deep_budget = ctx.n(8000, 400000) if not _DEV.get('no_deep') else 0

    def leaf(rs, paths, sw, selftest=None):
        deep_runs[0] += 1
        bad = check(rs, paths, sw, len(paths), selftest=selftest, family='window')[0]
        if selftest is None:
            deep_bad[0] += bool(bad)
        return bad

    def walk(rs, paths, selftest=None, fan2=3, fan3=4):
        """one PRNG walk from the root of the schedule tree: 1 first preemption, fan2 second ones, fan3 third ones each"""
        n = len(paths)
        root = node(rs, paths, {}, selftest)
        w0 = window_of_t0(root)
        if not w0:
            return 0
        bad = 0
        p1, k1 = rnd.choice(w0), rnd.randint(1, n - 1)
        i1 = node(rs, paths, {p1: k1}, selftest)
        h2 = hot_after(i1, p1)
        for _ in range(fan2):
            if not h2:
                break
            p2, k2 = rnd.choice(h2), rnd.randint(1, n - 1)
            i2 = node(rs, paths, {p1: k1, p2: k2}, selftest)
            h3 = hot_after(i2, p2)
            for _ in range(fan3):
                if h3:
                    bad += bool(leaf(rs, paths, {p1: k1, p2: k2, rnd.choice(h3): rnd.randint(1, n - 1)}, selftest))
        return bad

    MATCHING = [p[:4] for p in PATHS]
    if ctx.quick:
        walks = 0
        while deep_runs[0] + nodes_run[0] < deep_budget and deep_bad[0] < 40:
            rs = rnd.choice([0, 1, 2, 3, 3, 3, 4, 4])
            n = rnd.choice([3, 3, 3, 2])
            if walks % 40 == 0:
                cur_paths = [rnd.choice(MATCHING[rs] if rnd.random() < 0.85 else PATHS[rs]) for _ in range(n)]
                cur_rs = rs
                rec_cache.clear()
            rs, paths = cur_rs, cur_paths
            walks += 1
            walk(rs, paths)
        ctx.count('race_window_walks', walks)
    else:
        # the whole tree, sliced over the shards at the first level
        for rs in (3, 4, 0, 1, 2):
            for n in (3, 2):
                paths = [rnd.choice(MATCHING[rs]) for _ in range(n)]
                root = node(rs, paths, {})
                first = [(p1, k1) for p1 in window_of_t0(root) for k1 in range(1, n)]
                for idx, (p1, k1) in enumerate(first):
                    if idx % k0 != i0 or deep_runs[0] > deep_budget or deep_bad[0] >= 40:
                        continue
                    i1 = node(rs, paths, {p1: k1})
                    for p2 in hot_after(i1, p1):
                        for k2 in range(1, n):
                            i2 = node(rs, paths, {p1: k1, p2: k2})
                            for p3 in hot_after(i2, p2):
                                for k3 in range(1, n):
                                    leaf(rs, paths, {p1: k1, p2: k2, p3: k3})
                            rec_cache.pop((rs, tuple(paths), tuple(sorted({p1: k1, p2: k2}.items()))), None)
                ctx.count('race_window_trees_explored_completely', int(deep_runs[0] <= deep_budget))
    ctx.count('race_window_leaf_schedules', deep_runs[0])

    # ---- self-test of that exploration, and the tie of the model Ll's lazy half: the same walks against a lock that is created on first use
    #      (put in place of whatever lock objects the router has); they must find two threads inside `with <lock>` at once, as Ll.lazy_lock_witness says
    before = deep_runs[0]
    lazy_bad = 0
    rec_cache.clear()
    for w in range(ctx.n(200, 3000) * (20 if _DEV.get('lazy_many') else 1)):
        rs = rnd.choice([3, 4, 0])
        if w % 10 == 0:
            lz_paths = [rnd.choice(MATCHING[rs]) for _ in range(rnd.choice([3, 3, 2]))]
            lz_rs = rs
            rec_cache.clear()
        lazy_bad += walk(lz_rs, lz_paths, selftest='lazy', fan2=2, fan3=3)
    ctx.notes.append(f'shard {i0}: self-test with a lock created on first use in place of the router\'s lock(s): {lazy_bad} of {deep_runs[0] - before} '
                     f'three-preemption schedules of the window exploration give a non-serial outcome or a second compile')
    deep_runs[0] = before
    for _, _, why, case in sorted(pending_failures, key=lambda x: x[:2]):
        ctx.oracle(O_A, False, why, case)
    sess_ll.finish()
    sess.finish()
    sess_nl.finish()


def _norm_nolock(x):
    # without the lock the real threads may die inside _compile (the model has no exceptions): compare the number of compiles,
    # the order in which the threads passed the `_find == stub` test, and which way each thread went
    keep = []
    for p in x.split(' '):
        if p.startswith('ncomp=') or p.startswith('paths='):
            keep.append(p)
        elif p.startswith('ev='):
            keep.append('S=' + ','.join(e for e in p[3:].split(',') if e.startswith('S')))
    return ' '.join(keep)


# ------------------------------------------------------------------ (b) generated apps, used by the ASGI and the WSGI part

APP_SRC = r"""
import json
import falcon

class Boom(Exception):
    def __init__(self, tok):
        self.tok = tok

def _kw(resp, extra):
    # what the responder was called with beyond its declared fields (arguments injected by resource middleware), rendered late:
    # a mutable value among them that is shared with another request shows what that request did to it meanwhile
    resp.set_header('X-Kw', json.dumps(extra, sort_keys=True, default=str))

class Mw:
    def __init__(self, k):
        self.k = k
    ASYNC def process_request(self, req, resp):
        AWAIT yp()
        setattr(req.context, 'mw%d' % self.k, req.get_header('X-Tok') or '-')
        AWAIT yp()
    ASYNC def process_resource(self, req, resp, resource, params):
        AWAIT yp()
        setattr(req.context, 'pref%d' % self.k, params)          # the dict itself, read again later
        setattr(resp.context, 'pcopy%d' % self.k, dict(params))
    ASYNC def process_response(self, req, resp, resource, req_succeeded):
        AWAIT yp()
        resp.set_header('X-Mw%d' % self.k, '%s|%s|%s' % (getattr(req.context, 'mw%d' % self.k, None), req.path, req_succeeded))
        pref = getattr(req.context, 'pref%d' % self.k, None)
        resp.set_header('X-P%d' % self.k, json.dumps([pref, getattr(resp.context, 'pcopy%d' % self.k, None)], default=str, sort_keys=True))

class Inject:
    # resource middleware that USES what the framework hands it: it injects responder arguments through `params` (the documented way),
    # completes the parsed request document in place and keeps notes in req.context / resp.context - each followed by a suspension point
    ASYNC def process_resource(self, req, resp, resource, params):
        tok = req.get_header('X-Tok') or '-'
        params['tenant'] = 'tenant-of-' + tok
        params.setdefault('trail', []).append('res:' + tok)
        AWAIT yp()
        req.context.notes = getattr(req.context, 'notes', [])
        req.context.notes.append(tok)
        resp.context.seen = getattr(resp.context, 'seen', {})
        resp.context.seen[tok] = req.path
        AWAIT yp()
        if req.method in ('PUT', 'POST', 'PATCH') and 'json' in (req.content_type or ''):
            doc = AWAIT req.get_media(default_when_empty=None)
            if isinstance(doc, dict):
                doc['seen_by'] = tok
                doc.setdefault('stamps', []).append(tok)
            elif isinstance(doc, list):
                doc.append(tok)
            AWAIT yp()
        params['checked'] = tok
    ASYNC def process_response(self, req, resp, resource, req_succeeded):
        AWAIT yp()
        resp.set_header('X-Inj', json.dumps([sorted(vars(req.context).items()), sorted(vars(resp.context).items())], default=str, sort_keys=True))

class Item:
    ASYNC def on_get(self, req, resp, item_id, **extra):
        AWAIT yp()
        q = req.get_param('q')
        AWAIT yp()
        h = req.get_header('X-Tok')
        n = req.get_param_as_int('n', default=-1)
        AWAIT yp()
        resp.media = {'id': item_id, 'q': q, 'tok': h, 'n': n, 'path': req.path, 'ctx': getattr(req.context, 'mw0', None), 'qs': req.query_string}
        AWAIT yp()
        resp.set_header('X-Item', str(item_id))
        _kw(resp, extra)
    ASYNC def on_put(self, req, resp, item_id, **extra):
        AWAIT yp()
        body = AWAIT req.get_media()
        tok = req.get_header('X-Tok')
        # the parsed document belongs to this request: complete it in place, as responders do
        if isinstance(body, dict):
            body['owner'] = tok
            body.setdefault('log', []).append(tok)
        elif isinstance(body, list):
            body.append({'owner': tok})
        AWAIT yp()
        resp.media = {'got': body, 'id': item_id, 'ct': req.content_type, 'len': req.content_length}
        resp.status = falcon.HTTP_201
        AWAIT yp()
        _kw(resp, extra)

class Lit:
    # a route without any field: `params` starts out empty
    ASYNC def on_get(self, req, resp, **extra):
        AWAIT yp()
        tok = req.get_header('X-Tok')
        AWAIT yp()
        resp.media = {'lit': req.path, 'tok': tok, 'tenant': extra.get('tenant'), 'uri_template': req.uri_template}
        _kw(resp, extra)
    ASYNC def on_post(self, req, resp, **extra):
        doc = AWAIT req.get_media()
        tok = req.get_header('X-Tok')
        if isinstance(doc, dict):
            doc['customer'] = tok
        elif isinstance(doc, list):
            doc.insert(0, tok)
        AWAIT yp()
        resp.media = {'doc': doc, 'tenant': extra.get('tenant')}
        _kw(resp, extra)

class Echo:
    ASYNC def on_post(self, req, resp, name, **extra):
        data = b''
        while True:
            AWAIT yp()
            chunk = AWAIT STREAM.read(5)
            if not chunk:
                break
            data += chunk
        AWAIT yp()
        resp.data = data + b'|' + name.encode()
        resp.content_type = 'text/plain'
        resp.set_header('X-Len', str(len(data)))
        resp.append_header('X-Tokens', name)
        AWAIT yp()
        resp.append_header('X-Tokens', req.get_header('X-Tok') or '-')
        _kw(resp, extra)

class Err:
    ASYNC def on_get(self, req, resp, code, **extra):
        AWAIT yp()
        tok = req.get_header('X-Tok')
        AWAIT yp()
        if code == 400:
            raise falcon.HTTPBadRequest(title='bad', description=tok)
        if code == 404:
            raise falcon.HTTPNotFound(description=tok)
        if code == 409:
            raise falcon.HTTPConflict(description=tok, headers={'X-Conflict': tok})
        raise Boom(tok)

class Ctx:
    ASYNC def on_get(self, req, resp, name, key, **extra):
        AWAIT yp()
        hdr = {k: v for k, v in req.headers.items() if k.lower().startswith('x-')}
        AWAIT yp()
        params = dict(req.params)
        AWAIT yp()
        resp.media = {'params': params, 'hdr': hdr, 'cookies': req.cookies, 'name': name, 'key': key,
                      'accepts_json': req.client_accepts_json, 'host': req.host, 'uri_template': req.uri_template}
        resp.set_cookie('c', name)
        resp.context.name = name
        AWAIT yp()
        resp.set_header('X-Ctx-Name', resp.context.name)
        _kw(resp, extra)

class Conv:
    # fields of the remaining built-in converters (their instances are created by the router's compile and shared by all requests)
    ASYNC def on_get(self, req, resp, **fields):
        AWAIT yp()
        tok = req.get_header('X-Tok')
        AWAIT yp()
        resp.media = {'fields': {k: (v.isoformat() if hasattr(v, 'isoformat') else v) for k, v in sorted(fields.items())}, 'tok': tok, 'path': req.path}

class Chunks:
    ASYNC def on_get(self, req, resp, gid, **extra):
        tok = req.get_header('X-Tok') or '-'
        ASYNC def gen():
            for i in range(3):
                AWAIT yp()
                yield ('%s:%d:%s;' % (tok, i, gid)).encode()
        AWAIT yp()
        resp.stream = gen()
        resp.content_type = 'application/octet-stream'
        _kw(resp, extra)

class Typed:
    # the media type of the response (GET) / of the request body (POST) is spelled by the client: spellings that are not literal keys of the
    # handler mapping (parameters, other letter case) go through the best-match fallback of the handlers' resolver - for a fresh app the FIRST time
    ASYNC def on_get(self, req, resp, n, **extra):
        AWAIT yp()
        resp.content_type = req.get_param('ct') or 'application/json'
        AWAIT yp()
        resp.media = {'typed': n, 'tok': req.get_header('X-Tok'), 'ct': resp.content_type}
        _kw(resp, extra)
    ASYNC def on_post(self, req, resp, n, **extra):
        AWAIT yp()
        doc = AWAIT req.get_media()
        AWAIT yp()
        resp.content_type = req.get_param('ct') or req.content_type
        resp.media = {'typed': n, 'doc': doc, 'tok': req.get_header('X-Tok'), 'req_ct': req.content_type}
        _kw(resp, extra)

ASYNC def sink(req, resp, **kw):
    AWAIT yp()
    resp.media = {'sink': req.path, 'kw': kw, 'tok': req.get_header('X-Tok')}

def _amend(req, ex, params):
    # what an error handler does with the error object the framework hands it: it writes per-request data into it
    tok = req.get_header('X-Tok') or '-'
    ex.description = '%s %s cannot be served for %s (%s)' % (req.method, req.path, tok, json.dumps(params, sort_keys=True, default=str))
    ex.title = (ex.title or '') + ' / ' + tok
    if not isinstance(ex.headers, dict):
        ex.headers = dict(ex.headers or ())
    ex.headers['X-Err-For'] = tok
    ex.headers.setdefault('X-Err-First', tok)
    return tok

ASYNC def amend_and_reraise(req, resp, ex, params):
    # the documented way of adjusting an error and still letting falcon render it: amend it, do some more work, raise it again
    tok = _amend(req, ex, params)
    AWAIT yp()
    ex.headers['X-Err-Path'] = req.path
    ex.code = len(req.path) * 1000 + len(tok)
    AWAIT yp()
    raise ex

ASYNC def amend_and_render(req, resp, ex, params):
    _amend(req, ex, params)
    AWAIT yp()
    ex.headers['X-Err-Path'] = req.path
    AWAIT yp()
    resp.status = ex.status
    resp.set_headers(ex.headers)
    AWAIT yp()
    resp.media = ex.to_dict()

ASYNC def on_boom(req, resp, ex, params):
    AWAIT yp()
    resp.status = falcon.HTTP_503
    resp.media = {'boom': ex.tok, 'path': req.path, 'params': params}

def make_app(App, n_mw, independent, inject=False, amend=0):
    mw = [Mw(k) for k in range(n_mw)]
    if inject:
        mw.insert(min(1, len(mw)), Inject())
    app = App(middleware=mw, independent_middleware=independent)
    app.add_route('/items/{item_id:int}', Item())
    app.add_route('/echo/{name}', Echo())
    app.add_route('/err/{code:int}', Err())
    app.add_route('/u/{name}/k/{key}', Ctx())
    app.add_route('/g/{gid:uuid}', Chunks())
    app.add_route('/events/{when:dt}', Conv())
    app.add_route('/ratio/{x:float}/of/{rest:path}', Conv())
    app.add_route('/health', Lit())
    app.add_route('/reports/summary', Lit())
    app.add_sink(sink, '/sink/')
    app.add_route('/typed/{n:int}', Typed())
    app.add_error_handler(Boom, on_boom)
    # error handlers that AMEND the error object they are handed (description, title, code, the headers dict) between suspension points:
    # 1 = every HTTPError, raised again; 2 = every HTTPError, rendered by the handler itself; 3 = only the errors of the framework's default
    # responders (405 of a route, 404 of an unknown path), raised again
    if amend == 1:
        app.add_error_handler(falcon.HTTPError, amend_and_reraise)
    elif amend == 2:
        app.add_error_handler(falcon.HTTPError, amend_and_render)
    elif amend == 3:
        app.add_error_handler((falcon.HTTPMethodNotAllowed, falcon.HTTPNotFound), amend_and_reraise)
    return app
"""


def _build_apps(asgi, yp):
    """exec the app template in its async or sync reading; `yp` is the explicit interleaving point."""
    src = APP_SRC
    if asgi:
        src = src.replace('ASYNC ', 'async ').replace('AWAIT ', 'await ').replace('STREAM', 'req.stream')
    else:
        src = src.replace('ASYNC ', '').replace('AWAIT ', '').replace('STREAM', 'req.bounded_stream')
    ns = {'yp': yp}
    exec(compile(src, '<c19-app-asgi>' if asgi else '<c19-app-wsgi>', 'exec'), ns)
    return ns


_TOKEN_RX = __import__('re').compile(r'T\d+x\d+')


_DEFAULT_ROUTES = [('/items/<n>', ['DELETE', 'PATCH', 'POST']), ('/echo/<t>', ['GET', 'PUT', 'DELETE']), ('/health', ['PUT', 'DELETE', 'PATCH']),
                   ('/u/<t>/k/k<n>', ['POST', 'PUT']), ('/typed/<n>', ['PUT', 'DELETE'])]
_CT_SPELLINGS = ['application/json; charset=utf-8', 'Application/JSON', 'application/json; rev=<r>', 'APPLICATION/JSON; Charset=UTF-8', 'application/json;v=<r>',
                 'application/json ; rev=<r>', 'application/json']


def _gen_request(rnd, idx, side=None, kind=None, route=None):
    """One request with a token that appears nowhere else.  With `side` (a tag shared by a group of twins) the token travels in
    headers only: method, path, query string and body are a function of (kind, side, PRNG) and can be repeated byte for byte."""
    import json
    tok = f'T{idx}x{rnd.randrange(10**6)}'
    ptok = side or tok
    pidx = 0 if side else idx
    kind = kind or rnd.choice(_KINDS)
    hdrs = {'X-Tok': tok}
    method, path, qs, body = 'GET', '/', '', b''
    if kind == 'item_get':
        path, qs = f'/items/{rnd.randrange(1000)}', f'q={ptok}&n={rnd.randrange(100)}'
    elif kind == 'item_put':
        method, path = 'PUT', f'/items/{rnd.randrange(1000)}'
        doc = {'tok': ptok, 'l': [pidx] * rnd.randint(0, 4)}
        if rnd.random() < 0.3:
            doc = rnd.choice([[ptok, {'n': pidx}], {'tok': ptok, 'inner': {'a': [1, 2]}}, [], {}])
        body = json.dumps(doc).encode()
        hdrs['Content-Type'] = 'application/json'
    elif kind == 'echo':
        method, path = 'POST', f'/echo/{ptok}'
        body = (ptok * rnd.randint(0, 3)).encode()
        hdrs['Content-Type'] = 'application/octet-stream'
    elif kind == 'err':
        path = f'/err/{rnd.choice([400, 404, 409, 500])}'
    elif kind == 'ctx':
        path, qs = f'/u/{ptok}/k/k{pidx}', f'a={ptok}&b={pidx}&a=2'
        hdrs['X-Other'] = f'o-{tok}'
        hdrs['Cookie'] = f'sid={tok}; z={idx}'
    elif kind == 'chunks':
        path = f'/g/{rnd.randrange(16**8):08x}-0000-4000-8000-{pidx:012d}'
    elif kind == 'sink':
        path = f'/sink/{ptok}/x'
    elif kind == 'missing':
        path = f'/nothing/{ptok}'
    elif kind in ('notallowed', 'options'):
        # the framework's own responders: the 405 responder made for the route at add_route(), the default OPTIONS responder
        tmpl, methods = _DEFAULT_ROUTES[rnd.randrange(len(_DEFAULT_ROUTES)) if route is None else route]
        method = 'OPTIONS' if kind == 'options' else rnd.choice(methods)
        path = tmpl.replace('<n>', str(pidx)).replace('<t>', ptok)
    elif kind in ('typed_get', 'typed_post'):
        # a media type spelled so that it is not a literal key of the handler mapping; `rev` makes the spelling new to this process as well
        ct = rnd.choice(_CT_SPELLINGS).replace('<r>', str(rnd.randrange(10**6)))
        path, qs = f'/typed/{rnd.randrange(1000)}', 'ct=' + __import__('urllib.parse').parse.quote(ct, safe='')
        if kind == 'typed_post':
            method = 'POST'
            body = json.dumps({'ref': ptok, 'n': [pidx, 2]}).encode()
            hdrs['Content-Type'] = rnd.choice(_CT_SPELLINGS).replace('<r>', str(rnd.randrange(10**6)))
            if rnd.random() < 0.5:
                qs = ''
    elif kind == 'conv':
        if rnd.random() < 0.6:
            path = '/events/2024-0%d-1%dT0%d:00:00Z' % (rnd.randint(1, 9), rnd.randint(0, 9), rnd.randint(0, 9))
        else:
            path = f'/ratio/{rnd.randint(0, 99)}.{rnd.randint(0, 9)}/of/{ptok}/x'
    elif kind == 'lit_get':
        path = rnd.choice(['/health', '/reports/summary'])
        qs = rnd.choice(['', f'v={ptok}'])
    elif kind == 'lit_post':
        method, path = 'POST', rnd.choice(['/health', '/reports/summary'])
        body = json.dumps(rnd.choice([{'sku': 'A-1', 'qty': rnd.randint(1, 3)}, {'ref': ptok, 'lines': [{'n': 1}]}, [1, 2, ptok]])).encode()
        hdrs['Content-Type'] = 'application/json'
    else:
        path = f'/items/{ptok}'
    if body:
        hdrs['Content-Length'] = str(len(body))
    return {'kind': kind, 'tok': tok, 'method': method, 'path': path, 'qs': qs, 'headers': hdrs, 'body': body}


_KINDS = ['item_get', 'item_get', 'item_put', 'item_put', 'echo', 'err', 'ctx', 'chunks', 'sink', 'missing', 'notallowed', 'badint', 'lit_get', 'lit_get', 'lit_post', 'conv',
          'options', 'typed_get', 'typed_post']
_DEFAULT_PATH_KINDS = ['notallowed', 'notallowed', 'notallowed', 'options', 'missing', 'badint']


def _gen_requests(rnd, n, ctx=None):
    """n concurrent requests: independent ones (50%), all of one kind (17%), all to the SAME ROUTE and answered by one of the framework's
    default responders - 405, OPTIONS, 404 (15%), or TWINS (18%): identical method, path, query string and body bytes - they differ only in the
    side channel (the X-Tok header and headers derived from it)"""
    u = rnd.random()
    if u < 0.5:
        mode, specs = 'mixed', [_gen_request(rnd, i) for i in range(n)]
    elif u < 0.67:
        k0 = rnd.choice(_KINDS)
        mode, specs = 'same_kind', [_gen_request(rnd, i, kind=k0) for i in range(n)]
    elif u < 0.82:
        k0, r0 = rnd.choice(_DEFAULT_PATH_KINDS), rnd.randrange(len(_DEFAULT_ROUTES))
        mode, specs = 'same_route_default_responder', [_gen_request(rnd, i, kind=k0, route=r0) for i in range(n)]
        if ctx is not None:
            ctx.count('same_route_default_responder_' + k0)
    else:
        mode = 'twins'
        first = _gen_request(rnd, 0, side=f'S{rnd.randrange(10**6)}', kind=rnd.choice(_KINDS + ['item_put', 'lit_get', 'lit_post']))
        specs = [first]
        for i in range(1, n):
            tok = f'T{i}x{rnd.randrange(10**6)}'
            hd = {k: v.replace(first['tok'], tok) for k, v in first['headers'].items()}
            specs.append(dict(first, tok=tok, headers=hd))
    if ctx is not None:
        ctx.count('requests_' + mode)
        if mode == 'twins':
            ctx.count('twins_kind_' + specs[0]['kind'])
            ctx.count('twins_with_identical_nonempty_body', int(bool(specs[0]['body'])))
    return specs


_AMEND_NAMES = ['none', 'every HTTPError: amended (description, title, code, headers dict) across two suspension points, raised again',
                'every HTTPError: amended across suspension points, rendered by the handler (status, headers, to_dict())',
                'HTTPMethodNotAllowed / HTTPNotFound only: amended across suspension points, raised again']


def _asgi_tasks(ctx):
    import asyncio
    import contextvars
    import falcon.asgi
    import falcon.testing as ft
    rnd = ctx.rng
    me_var = contextvars.ContextVar('c19_me', default=None)

    class Gate:
        def __init__(s, serial):
            s.serial, s.waiting, s.turns = serial, {}, 0
        async def turn(s):
            if s.serial:
                return
            me = me_var.get()
            fut = asyncio.get_running_loop().create_future()
            s.waiting[me] = fut
            await fut

    gate_box = [None]

    async def yp():
        await gate_box[0].turn()
    ns = _build_apps(True, yp)

    async def call(app, i, spec, chunking):
        me_var.set(i)
        gate = gate_box[0]
        await gate.turn()
        scope = ft.create_scope(method=spec['method'], path=spec['path'], query_string=spec['qs'], headers=spec['headers'])
        body = spec['body']
        evs = []
        pos = 0
        for c in chunking:
            evs.append({'type': 'http.request', 'body': body[pos:pos + c], 'more_body': True}); pos += c
        evs.append({'type': 'http.request', 'body': body[pos:], 'more_body': False})
        sent = []

        async def receive():
            await gate.turn()
            if evs:
                return evs.pop(0)
            return {'type': 'http.disconnect'}

        async def send(ev):
            await gate.turn()
            sent.append(ev)
        await app(scope, receive, send)
        status, headers, out = None, [], b''
        for ev in sent:
            if ev['type'] == 'http.response.start':
                status = ev['status']; headers = sorted((bytes(k).decode('latin-1'), bytes(v).decode('latin-1')) for k, v in ev['headers'])
            elif ev['type'] == 'http.response.body':
                out += ev.get('body', b'')
        return (status, tuple(headers), out, len([e for e in sent if e['type'] == 'http.response.body']))

    async def concurrent(app, specs, chunkings, policy, prnd):
        gate = gate_box[0] = Gate(False)
        tasks = [asyncio.ensure_future(call(app, i, specs[i], chunkings[i])) for i in range(len(specs))]
        order = []
        last = None
        while True:
            for _ in range(20000):
                if all(t.done() or i in gate.waiting for i, t in enumerate(tasks)):
                    break
                await asyncio.sleep(0)
            else:
                for t in tasks:
                    t.cancel()
                return None, order, 'a request neither finished nor reached an interleaving point (stuck)'
            parked = sorted(gate.waiting)
            if not parked:
                break
            if policy == 'uniform' or last not in parked:
                i = prnd.choice(parked)
            elif policy == 'sticky':
                i = last if prnd.random() < 0.8 else prnd.choice(parked)
            else:   # round robin
                i = parked[(parked.index(last) + 1) % len(parked)]
            last = i
            order.append(i)
            gate.waiting.pop(i).set_result(None)
        res = []
        for t in tasks:
            try:
                res.append(('ok', t.result()))
            except BaseException as e:  # noqa
                res.append(('exc', type(e).__name__, str(e)[:120]))
        return res, order, None

    async def serial(app, specs, chunkings):
        gate_box[0] = Gate(True)
        out = []
        for i in range(len(specs)):
            try:
                out.append(('ok', await asyncio.wait_for(call(app, i, specs[i], chunkings[i]), 120)))
            except BaseException as e:  # noqa
                out.append(('exc', type(e).__name__, str(e)[:120]))
        return out

    O_B = 'ASGI: every interleaving of 2-3 concurrent requests gives each request exactly its serial response; no response carries another request\'s token'

    serial_apps = {}

    async def main():
        for ci in range(ctx.n(2400, 40000)):
            n = rnd.choice([2, 2, 3])
            n_mw, indep = rnd.choice([0, 1, 2]), rnd.random() < 0.5
            inj = rnd.random() < 0.5
            amend = rnd.choice([0, 0, 1, 2, 3, 3])
            specs = _gen_requests(rnd, n, ctx)
            chunkings = [[rnd.randint(0, 7) for _ in range(rnd.choice([0, 0, 1, 2]))] for _ in range(n)]
            policy = rnd.choice(['uniform', 'uniform', 'sticky', 'rr'])
            seed = rnd.randrange(2**32)
            prnd = __import__('random').Random(seed)
            if (n_mw, indep, inj, amend) not in serial_apps:
                serial_apps[(n_mw, indep, inj, amend)] = ns['make_app'](falcon.asgi.App, n_mw, indep, inj, amend)
            want = await serial(serial_apps[(n_mw, indep, inj, amend)], specs, chunkings)     # one at a time, on an app of its own
            app = ns['make_app'](falcon.asgi.App, n_mw, indep, inj, amend)       # fresh: these are its first-ever requests
            got, order, why = await concurrent(app, specs, chunkings, policy, prnd)
            if why is None:
                for i in range(n):
                    if got[i] != want[i]:
                        why = f'request {i} ({specs[i]["method"]} {specs[i]["path"]}) got {got[i]!r}, alone it gets {want[i]!r}'
                        break
                    blob = repr(got[i])
                    for j in range(n):
                        if j != i and specs[j]['tok'] in blob:
                            why = f'the response of request {i} contains the token of request {j}'
                    foreign = set(_TOKEN_RX.findall(blob)) - {specs[i]['tok']}
                    if why is None and foreign:
                        why = f'the response of request {i} contains {sorted(foreign)[0]}, the token of a request processed earlier by this process'
            if why is None and rnd.random() < 0.3:
                again = await serial(app, specs, chunkings)               # the same app, now warm, one at a time
                if again != want:
                    why = 'after the concurrent round the same app answers the same requests differently when run one at a time'
            switches = sum(1 for a, b in zip(order, order[1:]) if a != b)
            ctx.oracle(O_B, why is None, why, {'interface': 'asgi', 'middleware': n_mw, 'independent_middleware': indep, 'injecting_resource_middleware': inj,
                                               'error_handler_amending_the_error': _AMEND_NAMES[amend], 'requests': specs,
                                               'body_chunking': chunkings, 'policy': policy, 'schedule_seed': seed, 'order': order})
            ctx.seen(('b', n_mw, indep, inj, amend, str(specs), seed), switches > 0)
            ctx.count(f'asgi_{n}req')
            ctx.count('asgi_apps_with_injecting_resource_middleware', int(inj))
            ctx.count('asgi_apps_with_error_handler_amending_the_error', int(amend > 0))
            if amend and len({(sp['path'].split('/')[1]) for sp in specs}) == 1 and all(sp['kind'] in _DEFAULT_PATH_KINDS for sp in specs):
                ctx.count('asgi_same_route_default_responder_with_amending_handler')
            ctx.count('asgi_turns', len(order))
            for sp in specs:
                ctx.count('asgi_kind_' + sp['kind'])
            if ci < 2:
                ctx.sample({'asgi_requests': [f"{sp['method']} {sp['path']}?{sp['qs']}" for sp in specs], 'order': order[:40]})
    asyncio.run(main())


# ------------------------------------------------------------------ (b') a NOT thread-safe synchronous component behind wrap_sync_to_async(threadsafe=False)

WRAP_MODES = ['one wrapper per entry point, made when the app is built', 'wrapped anew inside the responder / middleware method for every request',
              'one wrapper for the whole component (dispatching on the entry point\'s name)', 'mixed: transfer wrapped once, the others per request']
O_S = ('ASGI, synchronous component that is not thread-safe, every entry point wrapped with falcon.util.wrap_sync_to_async(..., threadsafe=False) and each request '
       'making exactly one call into it: 2-3 concurrent requests get the responses of SOME one-at-a-time order')


def _asgi_wrapped_sync(ctx):
    """The guarantee an ASGI application builds on when it calls blocking, not thread-safe code: everything wrapped with threadsafe=False runs serially -
    whichever wrapper object the call goes through (several entry points of one component wrapped separately, a function wrapped anew per request,
    responders and middleware of one app).  The component below keeps a few accounts and a journal; every method reads, blocks (releasing the GIL, as I/O
    does) and writes, so two calls inside it at once produce balances / totals / sequence numbers that no serial order of the requests produces."""
    import asyncio
    import itertools
    import json
    import threading
    import time
    import falcon
    import falcon.asgi
    import falcon.testing as ft
    rnd = ctx.rng
    wrap = falcon.util.wrap_sync_to_async

    class Ledger:
        def __init__(s, pause):
            s.bal, s.journal, s.seq, s.pause = {'a': 100, 'b': 100, 'c': 100}, [], 0, pause
            s.inside = s.max_inside = 0
            s.threads = set()

        def _io(s, k=1.0):
            if s.pause:
                time.sleep(s.pause * k)

        def _enter(s):
            s.inside += 1
            s.max_inside = max(s.max_inside, s.inside)
            s.threads.add(threading.get_ident())

        def transfer(s, src, dst, amt):
            s._enter()
            try:
                have = s.bal[src]
                s._io(0.5)
                s.bal[src] = have - amt             # debit
                s._io()                             # journal I/O between debit and credit
                s.journal.append([src, dst, amt])
                s.bal[dst] = s.bal[dst] + amt       # credit
                return {'moved': amt, 'balances': dict(s.bal), 'entries': len(s.journal)}
            finally:
                s.inside -= 1

        def total(s):
            s._enter()
            try:
                t = 0
                for k in sorted(s.bal):
                    t += s.bal[k]
                    s._io(0.3)
                return {'total': t, 'entries': len(s.journal)}
            finally:
                s.inside -= 1

        def stamp(s, who):
            s._enter()
            try:
                n = s.seq
                s._io(0.7)
                s.seq = n + 1
                s.journal.append(['stamp', who, n])
                return {'stamp': n, 'who': who, 'entries': len(s.journal)}
            finally:
                s.inside -= 1

    def make(mode, pause):
        led = Ledger(pause)
        once = {name: wrap(getattr(led, name), threadsafe=False) for name in ('transfer', 'total', 'stamp')}
        one = wrap(lambda name, *a: getattr(led, name)(*a), threadsafe=False)

        def entry(name):
            """the awaitable through which this request reaches the component"""
            if mode == 0 or (mode == 3 and name == 'transfer'):
                return once[name]
            if mode == 2:
                return lambda *a: one(name, *a)
            return wrap(getattr(led, name), threadsafe=False)

        class Transfers:
            async def on_post(self, req, resp, src, dst):
                resp.media = dict(await entry('transfer')(src, dst, req.get_param_as_int('amount', default=10)), tok=req.get_header('X-Tok'))

        class Audit:
            async def on_get(self, req, resp):
                resp.media = dict(await entry('total')(), tok=req.get_header('X-Tok'))

        class Ping:
            async def on_get(self, req, resp):
                resp.media = {'ping': getattr(req.context, 'stamped', None), 'tok': req.get_header('X-Tok')}

        class Stamping:
            # middleware of the same app uses the same component (through a wrapper of its own)
            async def process_request(self, req, resp):
                if req.get_header('X-Audit'):
                    req.context.stamped = await entry('stamp')(req.get_header('X-Tok'))

        app = falcon.asgi.App(middleware=[Stamping()])
        app.add_route('/transfers/{src}/{dst}', Transfers())
        app.add_route('/audit', Audit())
        app.add_route('/ping', Ping())
        return app, led

    def gen(i):
        tok = f'T{i}x{rnd.randrange(10**6)}'
        k = rnd.choice(['transfer', 'transfer', 'audit', 'audit', 'stamp'])
        if k == 'transfer':
            src, dst = rnd.sample('abc', 2)
            return {'kind': k, 'tok': tok, 'method': 'POST', 'path': f'/transfers/{src}/{dst}', 'qs': f'amount={rnd.choice([5, 10, 30, 70])}', 'headers': {'X-Tok': tok}}
        if k == 'audit':
            return {'kind': k, 'tok': tok, 'method': 'GET', 'path': '/audit', 'qs': '', 'headers': {'X-Tok': tok}}
        return {'kind': k, 'tok': tok, 'method': 'GET', 'path': '/ping', 'qs': '', 'headers': {'X-Tok': tok, 'X-Audit': '1'}}

    async def call(app, spec, delay=0.0):
        if delay:
            await asyncio.sleep(delay)
        scope = ft.create_scope(method=spec['method'], path=spec['path'], query_string=spec['qs'], headers=spec['headers'])
        evs = [{'type': 'http.request', 'body': b'', 'more_body': False}]
        sent = []

        async def receive():
            return evs.pop(0) if evs else {'type': 'http.disconnect'}

        async def send(ev):
            sent.append(ev)
        await app(scope, receive, send)
        status = next((e['status'] for e in sent if e['type'] == 'http.response.start'), None)
        body = b''.join(e.get('body', b'') for e in sent if e['type'] == 'http.response.body')
        try:
            return (status, json.dumps(json.loads(body), sort_keys=True))
        except ValueError:
            return (status, body.decode('latin-1'))

    async def outcome(coro):
        try:
            return ('ok', await asyncio.wait_for(coro, 60))
        except BaseException as e:  # noqa
            return ('exc', type(e).__name__, str(e)[:120])

    async def main():
        for ci in range(ctx.n(260, 4000)):
            n = rnd.choice([2, 2, 3])
            mode = rnd.randrange(len(WRAP_MODES))
            specs = [gen(i) for i in range(n)]
            # one at a time, in every order (the component is state shared by design: which order is up to the scheduler, that it IS an order is the property)
            serial_outcomes = {}
            for perm in itertools.permutations(range(n)):
                app, _ = make(mode, 0)
                res = [None] * n
                for i in perm:
                    res[i] = await outcome(call(app, specs[i]))
                serial_outcomes.setdefault(tuple(res), perm)
            pause = rnd.choice([0.002, 0.003, 0.004])
            delays = [0.0] + [rnd.choice([0.0, pause * 0.4, pause * 0.9]) for _ in range(n - 1)]
            app, led = make(mode, pause)
            got = tuple(await asyncio.gather(*[outcome(call(app, specs[i], delays[i])) for i in range(n)]))
            why = None
            if got not in serial_outcomes:
                why = (f'the concurrent responses {got!r} are not the responses of any one-at-a-time order; the orders give {sorted(serial_outcomes)!r}'
                       f' (calls inside the component at once: {led.max_inside}, worker threads that entered it: {len(led.threads)})')
            ctx.oracle(O_S, why is None, why, {'interface': 'asgi', 'wrapping': WRAP_MODES[mode], 'requests': specs, 'start_delays_s': delays,
                                               'blocking_time_inside_the_component_s': pause, 'calls_inside_the_component_at_once': led.max_inside,
                                               'component': 'Ledger(a=b=c=100): transfer(src,dst,amount) = read, block, debit, block, journal, credit; total() = sum with blocking reads; stamp(who) = read seq, block, write seq+1'})
            ctx.seen(('s', mode, str(specs), tuple(delays), pause), len({sp['kind'] for sp in specs}) > 1 or mode in (1, 3))
            ctx.count('asgi_wrapped_sync_cases')
            ctx.count('asgi_wrapped_sync_mode_%d' % mode)
            ctx.count('asgi_wrapped_sync_distinct_serial_outcomes', len(serial_outcomes))
            ctx.count('asgi_wrapped_sync_calls_overlapped_inside_the_component', int(led.max_inside > 1))
            ctx.count('asgi_wrapped_sync_more_than_one_worker_thread', int(len(led.threads) > 1))
    asyncio.run(main())


O_AT = ('ASGI, one event loop per thread (2-3 threads) over ONE app, requests reading headers through the memoised accessor req.get_header() with spellings '
        'the process has / has not seen before: under every explored schedule (preemption at line events inside falcon/asgi/request.py) every request '
        'gets the response it gets in SOME one-at-a-time order (all orders tried)')
_AT_HEADERS = ['ETag', 'If-Match', 'X-Request-Id', 'X-Trial', 'Accept-Language', 'X-Forwarded-For']
_AT_ACCESS = ['req.get_header(name)', 'req.get_header(name, default=...)', 'req.get_header(name, required=True) for a header that is present']


def _asgi_threads(ctx):
    """Threads x the ASGI request object.  ASGI requests do run on several threads over one app object (one loop per worker thread; sync responders
    behind wrap_sync_to_async).  The per-process state they share here is the header-name memo of get_header(); dimensions: how full the memo is when
    the requests arrive (0 .. cap-1, cap; cap taken from the inventory table), whether a request's spelling is memoised already / a first-time
    spelling / the same header spelled differently / the twin of the other request's spelling, where the reading happens (middleware + responder),
    and the schedule: EVERY single preemption of thread 0 at a line event in falcon/asgi/request.py with the other request(s) processed in the window,
    plus PRNG double preemptions with 3 threads."""
    import asyncio
    import itertools
    import json
    import os
    import threading
    import falcon
    import falcon.asgi
    import falcon.testing as ft
    import lib_sched
    rnd = ctx.rng
    REQ_FILE = os.path.join(os.path.dirname(falcon.__file__), 'asgi', 'request.py')
    cap = next((r[5].get('cap') for r in INVENTORY if r[1] == 'Request.get_header(_name_cache=)'), None) or 64
    memo = _name_cache_of(falcon.asgi.Request)
    ctx.count('asgi_threads_header_name_memo_located', int(memo is not None))
    tls = threading.local()

    class Reader:
        async def on_get(self, req, resp):
            how = req.get_param_as_int('how', default=0)
            out = {}
            for name in req.get_param_as_list('ask', default=[]):
                if how == 1:
                    out[name] = req.get_header(name, default='<absent>')
                elif how == 2 and name.lower() in req.headers:
                    out[name] = req.get_header(name, required=True)
                else:
                    out[name] = req.get_header(name)
            resp.media = {'got': out, 'tok': req.context.tok}

    class Tok:
        async def process_request(self, req, resp):
            req.context.tok = req.get_header('X-Tok')

    app = falcon.asgi.App(middleware=[Tok()])
    app.add_route('/read', Reader())

    async def acall(spec):
        scope = ft.create_scope(method='GET', path='/read', query_string=spec['qs'], headers=spec['headers'])
        evs = [{'type': 'http.request', 'body': b'', 'more_body': False}]
        sent = []

        async def receive():
            return evs.pop(0) if evs else {'type': 'http.disconnect'}

        async def send(ev):
            sent.append(ev)
        await app(scope, receive, send)
        status = next((e['status'] for e in sent if e['type'] == 'http.response.start'), None)
        body = b''.join(e.get('body', b'') for e in sent if e['type'] == 'http.response.body')
        try:
            return (status, json.dumps(json.loads(body), sort_keys=True))
        except ValueError:
            return (status, body.decode('latin-1'))

    def call(spec):
        loop = getattr(tls, 'loop', None)
        if loop is None:
            loop = tls.loop = asyncio.new_event_loop()
        return loop.run_until_complete(acall(spec))

    warm_req = falcon.asgi.Request(ft.create_scope(path='/read', headers={}), None)

    def prepare(fill_names):
        """the state of the process when the requests arrive: exactly these spellings memoised (as after that much earlier traffic)"""
        if memo is not None:
            memo.clear()
        for nm in fill_names:
            warm_req.get_header(nm)

    def respell(name, r):
        return ''.join(c.upper() if r.random() < 0.5 else c.lower() for c in name)

    def gen(i, pool):
        tok = f'T{i}x{rnd.randrange(10**6)}'
        k = rnd.choice([1, 1, 1, 2, 3])
        asked = [rnd.choice(pool) for _ in range(k)]
        hdrs = {'X-Tok': tok}
        for nm in asked:
            if rnd.random() < 0.85:
                hdrs[nm] = f'v{i}-{rnd.randrange(1000)}'
        how = rnd.randrange(len(_AT_ACCESS))
        return {'tok': tok, 'method': 'GET', 'path': '/read', 'qs': '&'.join(['how=%d' % how] + ['ask=' + nm for nm in asked]), 'headers': hdrs,
                'asks': asked, 'accessor': _AT_ACCESS[how]}

    def outcome(f):
        try:
            return ('ok', f())
        except BaseException as e:  # noqa
            return ('exc', type(e).__name__, str(e)[:120])

    ev_rec = {}

    def tracer_for(s, i, record):
        def local(frame, event, arg):
            if event == 'line':
                s.point(i)
                if record and i == 0:
                    ev_rec[s.ev] = '%s:%d (%s)' % ('falcon/asgi/request.py', frame.f_lineno, frame.f_code.co_name)
            return local

        def tr(frame, event, arg):
            return local if frame.f_code.co_filename == REQ_FILE else None
        return tr

    def run_sched(specs, fill_names, sw, record=False):
        prepare(fill_names)
        s = lib_sched.Sched(len(specs), sw)
        got = lib_sched.run_threads(s, [(lambda sp=sp: call(sp)) for sp in specs], lambda i: tracer_for(s, i, record))
        return s, tuple(got)

    # CPython 3.12 delivers no line events for the first frame of a freshly instrumented code object: number the events on a warmed-up interpreter
    for _ in range(2):
        run_sched([gen(0, ['X-Warm']), gen(1, ['X-Warm'])], [], {})
    fills = sorted({0, 1, 1, 2, 3, 5, cap // 2, cap - 2, cap - 1, cap, cap + 1})
    budget = ctx.n(6000, 120000)
    runs = fails = 0
    while runs < budget:
        n = rnd.choice([2, 2, 2, 3])
        fill = rnd.choice(fills + [1, 2, 3, cap - 1])
        fill_names = ['X-Tok'][:fill] + ['X-Seen-%d' % j for j in range(max(0, fill - 1))]
        base = rnd.sample(_AT_HEADERS, 2)
        mode = rnd.choice(['distinct first-time spellings', 'distinct first-time spellings', 'the same header spelled differently', 'twins: the same first-time spelling',
                           'one memoised spelling, one first-time'])
        if mode == 'distinct first-time spellings':
            pools = [[respell(base[i % 2], rnd) + ('-%d' % i if i > 1 else '')] for i in range(n)]
        elif mode == 'the same header spelled differently':
            pools = [[respell(base[0], rnd), base[0].lower()] for i in range(n)]
        elif mode.startswith('twins'):
            sp_ = respell(base[0], rnd)
            pools = [[sp_] for i in range(n)]
        else:
            pools = [[fill_names[-1] if fill_names else 'X-Tok'] if i == 0 else [respell(base[1], rnd)] for i in range(n)]
        specs = [gen(i, pools[i]) for i in range(n)]
        serial_outcomes = {}
        for perm in itertools.permutations(range(n)):
            prepare(fill_names)
            res = [None] * n
            for i in perm:
                res[i] = outcome(lambda: call(specs[i]))
            serial_outcomes.setdefault(tuple(res), perm)
        ev_rec.clear()
        s0, got0 = run_sched(specs, fill_names, {}, record=True)
        E0 = max(ev_rec) if ev_rec else 0
        first_time = sum(1 for sp in specs for nm in sp['asks'] if nm not in fill_names)
        ctx.count('asgi_threads_cases')
        ctx.count('asgi_threads_%dthr' % n)
        ctx.count('asgi_threads_memo_fill_%s' % ('0' if fill == 0 else 'cap-1' if fill == cap - 1 else 'at_or_over_cap' if fill >= cap else 'cap-2' if fill == cap - 2 else '1..cap/2'))
        ctx.count('asgi_threads_mode_' + mode.split(':')[0].replace(' ', '_').replace(',', ''))
        ctx.count('asgi_threads_first_time_spellings', first_time)
        ctx.count('asgi_threads_line_events_of_thread_0_in_asgi_request_py', E0)
        scheds = [{}] + [{p_: 1} for p_ in range(1, E0 + 1)]
        if n == 3:
            scheds += [{p_: 1, p_ + rnd.randrange(1, E0 + 1): rnd.choice([1, 2])} for p_ in rnd.sample(range(1, E0 + 1), min(E0, 12))]
            scheds += [{p_: 2} for p_ in range(1, E0 + 1, 3)]
        for sw in scheds:
            s, got = (s0, got0) if not sw else run_sched(specs, fill_names, sw)
            runs += 1
            why = None
            if s.dead or any(g[0] == 'deadlock' for g in got):
                why = 'deadlock / a thread did not finish'
            elif got not in serial_outcomes:
                bad = [i for i in range(n) if all(got[i] != so[i] for so in serial_outcomes)]
                why = (f'request(s) {bad} got {[got[i] for i in bad]!r}; one at a time (every order) they get {[sorted({so[i] for so in serial_outcomes}) for i in bad]!r}' if bad else
                       f'the responses {got!r} are not the responses of any one-at-a-time order: {sorted(serial_outcomes)!r}')
            ctx.oracle(O_AT, why is None, why, {'interface': 'asgi', 'mode': 'one event loop per thread, deterministic scheduler, preemption at line events inside falcon/asgi/request.py',
                                                'requests': specs, 'spellings': mode, 'header_names_memoised_before_the_requests': len(fill_names),
                                                'memoised_spellings': fill_names[:4] + (['...'] if len(fill_names) > 4 else []), 'memo_cap': cap,
                                                'switch_points (global line event -> pass to the k-th next runnable thread)': sorted(sw.items()),
                                                'thread_0_preempted_before': [ev_rec.get(p_) for p_ in sorted(sw)],
                                                'app': 'falcon.asgi.App(middleware=[Tok: req.context.tok = req.get_header("X-Tok")]); GET /read?ask=<name>.. -> {name: req.get_header(name)}'})
            ctx.seen(('at', str(specs), len(fill_names), tuple(sorted(sw.items()))), s.preemptions > 0 and first_time > 0)
            ctx.count('asgi_threads_schedules')
            ctx.count('asgi_threads_preemptions', s.preemptions)
            if why is not None:
                fails += 1
                ctx.count('asgi_threads_failures')
        if fails >= 20:
            break
    prepare([])


def _wsgi_threads(ctx):
    import io
    import sys
    import threading
    import falcon
    import falcon.testing as ft
    import lib_sched
    rnd = ctx.rng
    FALCON_DIR = __import__('os').path.dirname(falcon.__file__)
    cur = {'sched': None}
    tls = threading.local()
    falcon_modules = [m for name, m in list(sys.modules.items()) if m is not None and (name == 'falcon' or name.startswith('falcon.'))]
    locks = lib_sched.LockPatch(falcon_modules, lambda fn: fn.startswith(FALCON_DIR))

    def yp():
        s = cur['sched']
        if s is not None:
            s.point(tls.i)
    ns = _build_apps(False, yp)

    def call(app, spec):
        env = ft.create_environ(method=spec['method'], path=spec['path'], query_string=spec['qs'], headers=spec['headers'], body=spec['body'])
        box = {}

        def start_response(status, headers, exc_info=None):
            box['status'] = status; box['headers'] = tuple(sorted(headers))
        it = app(env, start_response)
        chunks = list(it)
        if hasattr(it, 'close'):
            it.close()
        return (box.get('status'), box.get('headers'), b''.join(chunks), len(chunks))

    def serial(app, specs):
        cur['sched'] = None
        out = []
        for sp in specs:
            try:
                out.append(('ok', call(app, sp)))
            except BaseException as e:  # noqa
                out.append(('exc', type(e).__name__, str(e)[:120]))
        return out

    O_W = 'WSGI: 2-3 threads calling one app concurrently (first-ever requests included) get exactly their serial responses; no response carries another request\'s token'

    def verdict(specs, got, want):
        for i in range(len(specs)):
            if got[i] != want[i]:
                return f'request {i} ({specs[i]["method"]} {specs[i]["path"]}) got {got[i]!r}, alone it gets {want[i]!r}'
            blob = repr(got[i])
            for j in range(len(specs)):
                if j != i and specs[j]['tok'] in blob:
                    return f'the response of request {i} contains the token of request {j}'
            foreign = set(_TOKEN_RX.findall(blob)) - {specs[i]['tok']}
            if foreign:
                return f'the response of request {i} contains {sorted(foreign)[0]}, the token of a request processed earlier by this process'
        return None

    # ---- deterministic scheduler: PRNG preemption points at line events inside falcon/ and at the explicit points of the app
    def tracer_for(s, i):
        def local(frame, event, arg):
            if event == 'line':
                s.point(i)
            return local

        def tr(frame, event, arg):
            fn = frame.f_code.co_filename
            if fn.startswith(FALCON_DIR) or fn == '<string>':
                return local
            return None
        return tr

    serial_apps = {}

    def serial_app(n_mw, indep, inj, amend=0):
        if (n_mw, indep, inj, amend) not in serial_apps:
            serial_apps[(n_mw, indep, inj, amend)] = ns['make_app'](falcon.App, n_mw, indep, inj, amend)
        return serial_apps[(n_mw, indep, inj, amend)]

    events_seen = []
    for ci in range(ctx.n(500, 10000)):
        n = rnd.choice([2, 2, 3])
        n_mw, indep = rnd.choice([0, 1, 2]), rnd.random() < 0.5
        inj = rnd.random() < 0.5
        amend = rnd.choice([0, 0, 1, 2, 3, 3])
        specs = _gen_requests(rnd, n, ctx)
        want = serial(serial_app(n_mw, indep, inj, amend), specs)
        E = events_seen[-1] if events_seen else 900
        k = rnd.choice([1, 2, 3, 4, 6, 10])
        sw = {p: rnd.choice([1, 2]) for p in rnd.sample(range(1, max(E, 50)), k)}
        s = lib_sched.Sched(n, sw)
        # whatever locks the app, its router and the modules behind them create or hold become scheduler-aware (no attribute name assumed)
        locks.activate(s, lambda: tls.i)
        app = ns['make_app'](falcon.App, n_mw, indep, inj, amend)
        locks.adopt(app, depth=3)
        cur['sched'] = s

        def body(i):
            def b():
                tls.i = i
                return call(app, specs[i])
            return b
        try:
            got = lib_sched.run_threads(s, [body(i) for i in range(n)], lambda i: tracer_for(s, i))
        finally:
            locks.deactivate()
        cur['sched'] = None
        events_seen.append(s.ev)
        ctx.count('wsgi_sched_locks_made_scheduler_aware', len(locks.created))
        why = 'deadlock / a thread did not finish' if (s.dead or any(g[0] == 'deadlock' for g in got)) else verdict(specs, got, want)
        ctx.oracle(O_W, why is None, why, {'interface': 'wsgi', 'mode': 'deterministic scheduler', 'middleware': n_mw, 'independent_middleware': indep,
                                           'injecting_resource_middleware': inj, 'error_handler_amending_the_error': _AMEND_NAMES[amend],
                                           'requests': specs, 'switch_points': sorted(sw.items()), 'events': s.ev})
        ctx.seen(('w', n_mw, indep, inj, amend, str(specs), tuple(sorted(sw.items()))), s.preemptions > 0)
        ctx.count(f'wsgi_sched_{n}thr')
        ctx.count('wsgi_sched_preemptions', s.preemptions)

    # ---- FIRST-TIME EVENTS x every preemption point, systematically: two requests to a fresh app - one (mostly) answered by an error response or a
    #      framework-default responder, one (mostly) spelling a media type the app has not resolved before (parameters, letter case: the best-match
    #      fallback of the handlers' resolver) - under EVERY single-preemption schedule: thread 0 is preempted before its p-th line event inside falcon/
    #      (whatever function that is in: router, request/response objects, media layer, error serializer ...), thread 1 runs to completion in that
    #      window, thread 0 continues.  What a first request does once per app (compile the router, fill a cache, ...) thus happens inside every
    #      window of the other request, and vice versa.
    A_KINDS = ['missing', 'missing', 'notallowed', 'notallowed', 'badint', 'err', 'err', 'options', 'item_get']
    B_KINDS = ['typed_get', 'typed_get', 'typed_get', 'typed_post', 'typed_post', 'item_put', 'lit_post', 'ctx']
    ev_of = [0, 0]
    in_router = {}          # recording run: event number -> the line belongs to the router's compile / generated finder (explored by part (a))
    ROUTER_FILE = __import__('falcon.routing.compiled', fromlist=['x']).__file__

    def tracer2_for(s, i):
        def local(frame, event, arg):
            if event == 'line':
                s.point(i)
                ev_of[i] = s.ev
                if i == 0 and not s.sw:
                    in_router[s.ev] = frame.f_code.co_filename in (ROUTER_FILE, '<string>')
            return local

        def tr(frame, event, arg):
            fn = frame.f_code.co_filename
            if fn.startswith(FALCON_DIR) or fn == '<string>':
                return local
            return None
        return tr

    def run_pair(specs, cfg, sw):
        s = lib_sched.Sched(2, sw)
        locks.activate(s, lambda: tls.i)
        app = ns['make_app'](falcon.App, *cfg)
        locks.adopt(app, depth=3)
        cur['sched'] = s

        def body(i):
            def b():
                tls.i = i
                return call(app, specs[i])
            return b
        try:
            got = lib_sched.run_threads(s, [body(i) for i in range(2)], lambda i: tracer2_for(s, i))
        finally:
            locks.deactivate()
        cur['sched'] = None
        return s, got

    pair_budget = ctx.n(3200, 60000)
    stride = 3 if ctx.quick else 1          # quick: every third point (PRNG offset) - a window of three or more consecutive line events is still entered
    pair_runs = 0
    pi = 0
    while pair_runs < pair_budget:
        pi += 1
        a = _gen_request(rnd, 0, kind=rnd.choice(A_KINDS) if rnd.random() < 0.85 else None)
        b = _gen_request(rnd, 1, kind=rnd.choice(B_KINDS) if rnd.random() < 0.85 else None)
        specs = [a, b] if rnd.random() < 0.7 else [b, a]
        cfg = (rnd.choice([0, 0, 1]), rnd.random() < 0.5, rnd.random() < 0.25, rnd.choice([0, 0, 0, 1, 3]))
        want = serial(serial_app(*cfg), specs)
        ev_of[0] = ev_of[1] = 0
        in_router.clear()
        s0, got0 = run_pair(specs, cfg, {})
        E0 = ev_of[0]
        ctx.count('wsgi_pair_explorations')
        ctx.count('wsgi_pair_kinds_%s+%s' % (specs[0]['kind'], specs[1]['kind']))
        ctx.count('wsgi_pair_line_events_of_thread_0', E0)
        # every point outside the router's lazy compile (the ~2000 lines of which are the subject of part (a)), every 40th inside it
        rt = [e for e in range(1, E0 + 1) if in_router.get(e)]
        pts = sorted([e for e in range(1, E0 + 1) if not in_router.get(e)][rnd.randrange(stride)::stride] + rt[::40])
        ctx.count('wsgi_pair_line_events_of_thread_0_outside_the_router', E0 - len(rt))
        if len(pts) > pair_budget - pair_runs:
            pts = sorted(rnd.sample(pts, max(1, pair_budget - pair_runs)))
        for p_ in [None] + pts:
            sw = {} if p_ is None else {p_: 1}
            s, got = (s0, got0) if p_ is None else run_pair(specs, cfg, sw)
            pair_runs += 1
            why = 'deadlock / a thread did not finish' if (s.dead or any(g[0] == 'deadlock' for g in got)) else verdict(specs, got, want)
            ctx.oracle(O_W, why is None, why, {'interface': 'wsgi', 'mode': 'deterministic scheduler, every single preemption of thread 0 (request 0), request 1 processed completely in the window',
                                               'middleware': cfg[0], 'independent_middleware': cfg[1], 'injecting_resource_middleware': cfg[2],
                                               'error_handler_amending_the_error': _AMEND_NAMES[cfg[3]], 'requests': specs,
                                               'switch_points': sorted(sw.items()), 'line_events_of_request_0': E0})
            ctx.seen(('wp', cfg, str(specs), p_), s.preemptions > 0)
            ctx.count('wsgi_pair_single_preemption_schedules')
            if why is not None:
                ctx.count('wsgi_pair_failures')
                if ctx.dist.get('wsgi_pair_failures', 0) >= 30:
                    pair_runs = pair_budget
                    break

    # ---- free-running threads on the real lock
    old = sys.getswitchinterval()
    sys.setswitchinterval(1e-6)
    try:
        for ci in range(ctx.n(240, 5000)):
            n = rnd.choice([2, 3, 3])
            n_mw, indep = rnd.choice([0, 1, 2]), rnd.random() < 0.5
            inj = rnd.random() < 0.5
            amend = rnd.choice([0, 0, 1, 2, 3, 3])
            specs = _gen_requests(rnd, n, ctx)
            want = serial(serial_app(n_mw, indep, inj, amend), specs)
            app = ns['make_app'](falcon.App, n_mw, indep, inj, amend)
            got = [None] * n
            bar = threading.Barrier(n)

            def work(i):
                try:
                    bar.wait(120)
                    got[i] = ('ok', call(app, specs[i]))
                except BaseException as e:  # noqa
                    got[i] = ('exc', type(e).__name__, str(e)[:120])
            ts = [threading.Thread(target=work, args=(i,), daemon=True) for i in range(n)]
            for t in ts:
                t.start()
            for t in ts:
                t.join(180)
            why = 'a thread did not finish' if any(t.is_alive() for t in ts) else verdict(specs, got, want)
            ctx.oracle(O_W, why is None, why, {'interface': 'wsgi', 'mode': 'free-running threads', 'middleware': n_mw, 'independent_middleware': indep,
                                               'injecting_resource_middleware': inj, 'error_handler_amending_the_error': _AMEND_NAMES[amend], 'requests': specs})
            ctx.seen(('wf', n_mw, indep, inj, amend, str(specs)), True)
            ctx.count(f'wsgi_free_{n}thr')
    finally:
        sys.setswitchinterval(old)


# ------------------------------------------------------------------ (c) inventory of process-wide mutable state

K_MEMO = 'memo-of-pure-function-with-immutable-result'
K_MEMO_MUT = 'memo-of-pure-function-with-mutable-result'      # needs the mutable-result oracle (see `escape`)
K_LAZY = 'lazily-initialised-idempotent'
K_CONF = 'configuration-written-before-serving-only'
K_LOCK = 'lock-protected'
K_REQ = 'per-request'                                         # false positive of the scan: not shared between requests
K_RO = 'read-only'                                            # bound at import, never written afterwards (scan finds no mutation)
K_OTHER = 'OTHER'

# which theorem / assumption covers a kind (the driver's `inv` command holds the same table on the Lean side)
KIND_COVER = {
    K_MEMO: 'Sm.memo_transparent',
    K_MEMO_MUT: 'Sm.memo_transparent+mutable-result-oracle',
    K_LAZY: 'Lz.lazy_init_idempotent',
    K_LOCK: 'Sc.every_thread_gets_serial_result',
    K_CONF: 'assumption:no-configuration-during-traffic',
    K_REQ: 'none-needed:not-shared',
    K_RO: 'none-needed:never-written',
    K_OTHER: 'unproved:validated-by-interleaved-vs-serial-runs',
}

# classes whose instances live for one request / connection / body part / inspection: `self.X = ...` outside __init__ is not
# process-wide state there (stores through `self.X.Y` are still reported, because the object behind self.X may be shared)
PER_REQUEST_CLASSES = {
    'Request': 'falcon/request.py, falcon/asgi/request.py: one instance per WSGI call / ASGI http|websocket scope (app.py:379, asgi/app.py:455)',
    'Response': 'falcon/response.py, falcon/asgi/response.py: one instance per request',
    'BodyPart': 'falcon/media/multipart.py, falcon/asgi/multipart.py: one per part of one request body',
    'BoundedStream': 'falcon/stream.py, falcon/asgi/stream.py: wraps the input of one request',
    'BufferedReader': 'falcon/util/reader.py, falcon/asgi/reader.py: buffers the input of one request',
    'WebSocket': 'falcon/asgi/ws.py: one per websocket connection',
    '_BufferedReceiver': 'falcon/asgi/ws.py: one per websocket connection',
    '_BoundedFile': 'falcon/routing/static.py: one per served file response',
    'Context': 'falcon/util/structures.py: req.context / resp.context, one per request object',
}

# (file, qualified name, shape reported by harness/lib_inventory.scan, kind, one-line justification, extras)
#   extras: cap = maxsize of the memo; probe = name of the argument generator used by the oracles / the model tie;
#           escape = for a memo with a mutable result: 'direct' (callers receive the object: the direct oracle applies) or the
#           list of functions that are the only ones allowed to touch it (then the oracle is applied at that boundary);
#           manual = not found by the scan (aliasing), listed by hand
INVENTORY = [
    # ---- falcon/app.py: the App object (lives as long as the process)
    ('falcon/app.py', 'App._error_handlers', 'inst-attr:store[]', K_CONF, 'written by add_error_handler() only', {}),
    ('falcon/app.py', 'App._middleware', 'inst-attr:rebind', K_CONF, 'rebuilt by add_middleware() only', {}),
    ('falcon/app.py', 'App._serialize_error', 'inst-attr:rebind', K_CONF, 'set_error_serializer() only', {}),
    ('falcon/app.py', 'App._sink_and_static_routes', 'inst-attr:iter:for,rebind', K_CONF, '_update_sink_and_static_routes(), called from add_sink()/add_static_route() only; a tuple (immutable: the per-request loop over it in _get_responder iterates an object nobody can change)', {}),
    ('falcon/app.py', 'App._sinks', 'inst-attr:.insert', K_CONF, 'add_sink() only', {}),
    ('falcon/app.py', 'App._static_routes', 'inst-attr:.insert', K_CONF, 'add_static_route() only', {}),
    ('falcon/app.py', 'App._unprepared_middleware', 'inst-attr:aug', K_CONF, 'add_middleware() only', {}),
    ('falcon/asgi/app.py', 'App._error_handlers', 'inst-attr:store[]', K_CONF, 'add_error_handler() only', {}),
    ('falcon/asgi/app.py', 'App._middleware_ws', 'inst-attr:rebind', K_CONF, '_prepare_middleware(), called from __init__/add_middleware() only', {}),
    ('falcon/asgi/app.py', '_EVT_RESP_EOF', 'module-state:bound:container', K_RO, 'the one dict sent as the final empty body event of every response; falcon never writes to it', {}),
    # ---- memoised functions
    ('falcon/asgi/_asgi_helpers.py', '_validate_asgi_scope', 'memo:@lru_cache(maxsize=16)|refs=falcon/asgi/app.py:App.__call__', K_MEMO, 'str result; unsupported scopes raise (exceptions are not cached)', {'cap': 16, 'probe': 'scope'}),
    ('falcon/asgi/request.py', 'Request.get_header(_name_cache=)', 'default-arg:{}|store[]', K_MEMO, 'kwarg cache name -> name.lower().encode(): bytes; at most 64 entries, never evicted (store skipped when full)', {'cap': 64}),
    ('falcon/asgi/ws.py', '_supports_reason', 'memo:@_lru_cache_for_simple_logic(maxsize=16)|refs=falcon/asgi/app.py:App._handle_websocket;falcon/asgi/ws.py:WebSocket.__init__;falcon/asgi/ws.py:WebSocket.close', K_MEMO, 'bool result', {'cap': 16, 'probe': 'asgi_ver'}),
    ('falcon/media/handlers.py', 'Handlers._create_resolver.resolve', 'memo:@_lru_cache_for_simple_logic(maxsize=64)', K_MEMO,
     'one memo per Handlers object; a tuple (handler, serialize, deserialize) of long-lived configuration objects, a function of the key while Handlers.data is unchanged', {'cap': 64, 'probe': 'resolve'}),
    ('falcon/media/handlers.py', 'Handlers._resolve', 'inst-attr:.cache_clear', K_CONF, 'cache_clear() from __setitem__/__delitem__/__ior__, i.e. when the handler mapping is reconfigured (the model\'s `clear` action)', {}),
    ('falcon/media/handlers.py', '_best_match', 'memo:=lru_cache(maxsize=64)<-_best_match|refs=falcon/media/handlers.py:Handlers._create_resolver.resolve', K_MEMO, 'PyPy only (guarded by `if PYPY`); Optional[str] result', {'cap': 64, 'probe': 'best_match'}),
    ('falcon/util/mediatypes.py', '_parse_media_range', 'memo:=lru_cache<-_MediaRange.parse|refs=', K_MEMO_MUT,
     '_MediaRange has a mutable dict field; the name is referenced nowhere (dead code)', {'cap': 128, 'probe': 'media_range', 'escape': []}),
    ('falcon/util/mediatypes.py', '_parse_media_ranges', 'memo:@lru_cache()|refs=falcon/util/mediatypes.py:quality', K_MEMO_MUT,
     'tuple of _MediaRange objects (mutable dict field); only quality() touches them and only reads', {'cap': 128, 'probe': 'accept', 'escape': ['falcon/util/mediatypes.py:quality']}),
    ('falcon/util/mediatypes.py', '_parse_media_type', 'memo:=lru_cache<-_MediaType.parse|refs=falcon/util/mediatypes.py:quality', K_MEMO_MUT,
     '_MediaType has a mutable dict field; only quality() touches it and only reads', {'cap': 128, 'probe': 'media_type', 'escape': ['falcon/util/mediatypes.py:quality']}),
    ('falcon/util/mediatypes.py', 'quality', 'memo:@lru_cache()', K_MEMO, 'float result', {'cap': 128, 'probe': 'quality'}),
    ('falcon/util/misc.py', 'code_to_http_status', 'memo:@_lru_cache_for_simple_logic(maxsize=64)', K_MEMO, 'str result', {'cap': 64, 'probe': 'code'}),
    ('falcon/util/misc.py', 'http_status_to_code', 'memo:@_lru_cache_for_simple_logic(maxsize=64)', K_MEMO, 'int result', {'cap': 64, 'probe': 'status'}),
    # ---- constants that happen to be mutable containers / shared default objects
    ('falcon/constants.py', 'FALCON_CUSTOM_HTTP_METHODS', 'module-state:bound:container', K_RO, 'list read from the environment at import', {}),
    ('falcon/constants.py', 'HTTP_METHODS', 'module-state:bound:container', K_RO, 'list constant', {}),
    ('falcon/constants.py', 'WEBDAV_METHODS', 'module-state:bound:container', K_RO, 'list constant', {}),
    ('falcon/constants.py', '_META_METHODS', 'module-state:bound:container', K_RO, 'list constant', {}),
    ('falcon/util/uri.py', '_HEX_TO_BYTE', 'module-state:bound:container', K_RO, 'lookup table built at import', {}),
    ('falcon/inspect.py', 'MiddlewareTreeItemInfo._symbols', 'class-attr:class-literal', K_RO, 'dict constant of the inspect module', {}),
    ('falcon/media/handlers.py', 'MultipartParseOptions._DEFAULT_HANDLERS', 'module-state:bound:instance:Handlers', K_RO,
     'template Handlers object; MultipartParseOptions.__init__ takes a .copy() of it', {}),
    ('falcon/media/json.py', '_DEFAULT_JSON_HANDLER', 'module-state:bound:instance:JSONHandler', K_RO,
     'shared JSONHandler used by get_param_as_json / error serialisation / SSE; its attributes are set in __init__ only', {}),
    ('falcon/media/json.py', 'http_error._DEFAULT_JSON_HANDLER', 'module-state:bound:instance:JSONHandler', K_RO, 'the same object, published to falcon.http_error at import', {}),
    # ---- configuration
    ('falcon/inspect.py', '_supported_routers', 'module-state:bound:container,store[]', K_CONF, 'register_router() decorator; read by inspect_routes() only (not on the request path)', {}),
    ('falcon/request.py', 'RequestOptions._auto_parse_form_urlencoded', 'inst-attr:rebind', K_CONF, 'option setter', {}),
    ('falcon/routing/compiled.py', 'CompiledRouter._roots', 'inst-attr:passed-to:insert', K_CONF, 'add_route() only (mutated through the local helper insert())', {}),
    # ---- the lazily compiled router: every write happens inside _compile(), reached from add_route() (configuration) or from
    #      _compile_and_find() under _compile_lock (model Sc)
    ('falcon/routing/compiled.py', 'CompiledRouter._ast', 'inst-attr:rebind', K_LOCK, '_compile() only', {}),
    ('falcon/routing/compiled.py', 'CompiledRouter._converters', 'inst-attr:.append,rebind', K_LOCK, '_compile() / _generate_ast() only', {}),
    ('falcon/routing/compiled.py', 'CompiledRouter._find', 'inst-attr:lazy-init:call:_compile,rebind', K_LOCK,
     'add_route() (configuration) and the lazy initialisation `if self._find == self._compile_and_find: self._find = self._compile()` in _compile_and_find(), '
     'inside `with self._compile_lock` - a lock created in __init__ (a lazily created lock would be an item of shape lazy-init:lock, which no proved kind admits)', {}),
    ('falcon/routing/compiled.py', 'CompiledRouter._finder_src', 'inst-attr:rebind', K_LOCK, '_compile() only', {}),
    ('falcon/routing/compiled.py', 'CompiledRouter._patterns', 'inst-attr:rebind', K_LOCK, '_compile() only (reset, then filled through the alias `patterns`)', {}),
    ('falcon/routing/compiled.py', 'CompiledRouter._return_values', 'inst-attr:rebind', K_LOCK, '_compile() only (reset, then filled through the alias `return_values`)', {}),
    ('falcon/routing/compiled.py', '_CxParent._children', 'inst-attr:.append,iter:comp', K_LOCK, 'code-generation tree built inside _compile() and rendered by src() in the same call, under the compile lock of the router (not lexically: _compile_and_find holds it)', {}),
    # ---- false positives: objects that are not shared between requests
    ('falcon/inspect.py', 'StringVisitor.indent', 'inst-attr:aug,rebind', K_REQ, 'one visitor per inspect call; not on the request path', {}),
    ('falcon/util/structures.py', 'CaseInsensitiveDict._store', 'inst-attr:del[],iter:comp.items(),iter:comp.values(),store[]', K_REQ, 'generic mapping type; an instance belongs to whoever created it (falcon itself only uses it in falcon.testing)', {}),
    # ---- closure cells: objects created once by a factory function and kept alive by the function it returns (a responder made per route at
    #      add_route(), a wrapper made per decorated responder ...).  Not one of them is a fresh container/instance that the inner function
    #      raises or returns (that shape - a pre-built exception handed to every request - is admitted by no proved kind)
    ('falcon/app.py', 'App.add_error_handler.<cell>.handler', 'closure-cell:bound:call:getattr+call:wrap_old_handler|return', K_RO,
     'a function object (the handler, possibly re-wrapped by the compatibility shim); functions are not written to', {}),
    ('falcon/hooks.py', '_wrap_with_after.<cell>.async_action', 'closure-cell:bound:call:_wrap_non_coroutine_unsafe|call', K_RO, 'the hook function, captured once per decorated responder and only called', {}),
    ('falcon/hooks.py', '_wrap_with_after.<cell>.async_responder', 'closure-cell:bound:alias-of:responder|arg+call', K_RO, 'the decorated responder function (also handed to functools.wraps)', {}),
    ('falcon/hooks.py', '_wrap_with_after.<cell>.extra_argnames', 'closure-cell:bound:expr|arg', K_RO, 'slice of the responder\'s argument names; _merge_responder_args only reads it', {}),
    ('falcon/hooks.py', '_wrap_with_after.<cell>.sync_action', 'closure-cell:bound:alias-of:action|call', K_RO, 'the hook function', {}),
    ('falcon/hooks.py', '_wrap_with_after.<cell>.sync_responder', 'closure-cell:bound:alias-of:responder|arg+call', K_RO, 'the decorated responder function', {}),
    ('falcon/hooks.py', '_wrap_with_before.<cell>.async_action', 'closure-cell:bound:call:_wrap_non_coroutine_unsafe|call', K_RO, 'the hook function', {}),
    ('falcon/hooks.py', '_wrap_with_before.<cell>.async_responder', 'closure-cell:bound:alias-of:responder|arg+call', K_RO, 'the decorated responder function', {}),
    ('falcon/hooks.py', '_wrap_with_before.<cell>.extra_argnames', 'closure-cell:bound:expr|arg', K_RO, 'slice of the responder\'s argument names; only read', {}),
    ('falcon/hooks.py', '_wrap_with_before.<cell>.sync_action', 'closure-cell:bound:alias-of:action|call', K_RO, 'the hook function', {}),
    ('falcon/hooks.py', '_wrap_with_before.<cell>.sync_responder', 'closure-cell:bound:alias-of:responder|arg+call', K_RO, 'the decorated responder function', {}),
    ('falcon/inspect.py', 'inspect_compiled_router.<cell>.routes', 'closure-cell:bound:container|mutate', K_REQ, 'result list of one inspect call, filled by the local helper _traverse; not on the request path', {}),
    ('falcon/routing/compiled.py', 'CompiledRouter.add_route.<cell>.method_map', 'closure-cell:bound:call:map_http_methods|read', K_CONF, 'used by the local helper insert() while add_route() runs; the helper does not outlive the call', {}),
    ('falcon/routing/compiled.py', 'CompiledRouter.add_route.<cell>.path', 'closure-cell:bound:call:split|arg+attr', K_CONF, 'the template segments, read by the local helper insert() while add_route() runs', {}),
    ('falcon/util/sync.py', 'wrap_sync_to_async.<cell>.executor', 'closure-cell:bound:alias-of:_one_thread_to_rule_them_all|arg', K_OTHER,
     'threadsafe=False: every wrapper refers to the ONE module-level single-thread executor (an executor created per wrapper would be shape bound:instance), '
     'so calls through different wrappers of one non-thread-safe component never overlap - validated by the wrapped-component runs', {}),
    ('falcon/util/uri.py', '_create_str_encoder.<cell>.allowed_chars', 'closure-cell:bound:alias-of:_ALL_ALLOWED+alias-of:_UNRESERVED|arg', K_RO, 'a str constant', {}),
    ('falcon/util/uri.py', '_create_str_encoder.<cell>.encode_char', 'closure-cell:bound:call:_create_char_encoder|arg', K_RO, 'bound method __getitem__ of a lookup table built once at import and never written', {}),
    # ---- other
    ('falcon/util/sync.py', '_ActiveRunner._runner', 'inst-attr:rebind', K_OTHER, 'async_to_sync() helper: the asyncio Runner is re-created when its loop was closed; used by falcon.testing and by applications, not by request processing', {}),
    ('falcon/util/sync.py', '_active_runner', 'module-state:bound:instance:_ActiveRunner', K_OTHER, 'the holder of that Runner', {}),
    ('falcon/util/sync.py', '_one_thread_to_rule_them_all', 'module-state:bound:instance:ThreadPoolExecutor', K_OTHER,
     'sync_to_async(threadsafe=False): a one-thread executor (stdlib, internally locked queue) that serialises non-thread-safe sync callables; results travel through per-call futures', {}),
]


def _tok(s):
    return s.replace(' ', '')


_SCAN = []


def _scan_inventory():
    """scan + the `refs=` refinement of the shape of private memo names"""
    import lib_inventory as L
    if _SCAN:
        return _SCAN[0]
    items = L.scan(None, per_request_classes=set(PER_REQUEST_CLASSES))
    out = {}
    for key, it in items.items():
        shape = it.shape_str()
        name = key[1].split('.')[-1]
        if it.detector == 'memo' and name.startswith('_') and '.' not in key[1]:
            refs = sorted(f'{f}:{q}' for f, q in L.references(name) if not (f == key[0] and q == '<module>'))
            shape += '|refs=' + ';'.join(refs)
        out[key] = (_tok(shape), it.lines)
    _SCAN.append(out)
    return out


def _inventory(ctx):
    """Translator-style tie: the AST scan of $FALCON_REPO/falcon must coincide with the hand-classified table."""
    if ctx.shard[0] != 0:
        return
    import lib_inventory as L
    scanned = _scan_inventory()
    table = {(r[0], r[1]): r for r in INVENTORY}
    assert len(table) == len(INVENTORY), 'duplicate row in INVENTORY'
    sess = ctx.session('AST inventory of process-wide mutable state in falcon/ = classification table (every item classified, same shape, no stale row)', 'smdriver')
    for key in sorted(set(scanned) | set(table)):
        row = table.get(key)
        item = _tok(f'{key[0]}:{key[1]}')
        if key in scanned:
            shape, lines = scanned[key]
            if row is None:
                kind = 'UNLISTED'
            elif _tok(row[2]) != shape:
                kind = 'SHAPE-CHANGED(was:' + _tok(row[2]) + ')'
            else:
                kind = row[3]
        else:
            shape, lines = ('manual' if row[5].get('manual') else 'GONE'), []
            kind = row[3]
        sess.case({'file': key[0], 'name': key[1], 'shape_in_source': shape, 'lines': lines[:6], 'table_kind': row[3] if row else None,
                   'table_shape': row[2] if row else None})
        sess.op(f'inv {item} {shape} {kind}', 'ok:' + KIND_COVER.get(row[3] if row else '', '?'))
        ctx.seen(('inv', key), True)
        ctx.count('inventory_items')
        ctx.count('inventory_kind_' + (row[3] if row else 'UNLISTED'))
    # the per-request classes named in the table must exist
    base, files = L.source_files()
    src = '\n'.join(open(p, encoding='utf-8').read() for p in files)
    for cname in sorted(PER_REQUEST_CLASSES):
        present = ('class %s(' % cname) in src or ('class %s:' % cname) in src
        sess.case({'per_request_class': cname})
        sess.op(f'inv class:{cname} {"class:exists" if present else "GONE"} {K_REQ}', 'ok:' + KIND_COVER[K_REQ])
        ctx.count('inventory_per_request_classes')
    sess.finish()
    ctx.notes.append(f'inventory: {len(scanned)} items found by the AST scan of {len(files)} files, {len(INVENTORY)} table rows')


# ---- argument generators for the memoised functions (used by the oracles and by the model tie)

_MEDIA_TYPES = ['application/json', 'text/html', 'text/plain; charset=utf-8', 'application/x-www-form-urlencoded', 'application/msgpack',
                'image/png', 'application/json; version=2', 'text/*', '*/*', 'application/vnd.c19+json', 'application/xml', 'multipart/form-data; boundary=x']
_ACCEPTS = ['*/*', 'application/json', 'text/html, application/json;q=0.8', 'text/*;q=0.3, text/html;q=0.7, */*;q=0.1', 'application/xml;q=0.9,text/plain',
            'application/json; version=2, application/json;q=0.5', 'image/*', 'text/html;level=1', 'application/msgpack, */*;q=0']


def _probe_args(name, rnd, n):
    """n argument tuples (hashable) for the memoised function with probe name `name`; about one in seven makes it raise"""
    import http
    out = []
    for _ in range(n):
        bad = rnd.random() < 0.15
        if name == 'status':
            c = rnd.randrange(100, 600)
            out.append((rnd.choice(['ab', 'abc def', b'zz ' + bytes([97 + rnd.randrange(26)]), 'x%d' % rnd.randrange(9)]),) if bad else
                       (rnd.choice([c, c, f'{c} Text {rnd.randrange(50)}', f'{c} X'.encode(), rnd.choice(list(http.HTTPStatus))]),))
        elif name == 'code':
            c = rnd.randrange(100, 1000)
            out.append((rnd.choice([rnd.randrange(1000, 1100), rnd.randrange(0, 100), 'x', b'y']),) if bad else
                       (rnd.choice([c, c, rnd.choice(list(http.HTTPStatus)), f'{c} Reason{rnd.randrange(40)}', f'{c} B'.encode()]),))
        elif name == 'media_type':
            out.append((rnd.choice(['nonsense', '', 'a;b']),) if bad else (rnd.choice(_MEDIA_TYPES + ['c19/t%d' % rnd.randrange(300), 'a/b; p=%d' % rnd.randrange(300)]),))
        elif name == 'media_range':
            out.append((rnd.choice(['text/html;q=7', 'bogus', 'a/b;q=x']),) if bad else (rnd.choice(_MEDIA_TYPES + ['c19/r%d;q=0.%d' % (rnd.randrange(300), rnd.randrange(10))]),))
        elif name == 'accept':
            out.append((rnd.choice(['text/html;q=2', 'garbage', '', 'a/b, nope']),) if bad else
                       (rnd.choice(_ACCEPTS + ['c19/a%d, text/html;q=0.%d' % (rnd.randrange(300), rnd.randrange(10)) for _ in range(4)]),))
        elif name == 'quality':
            out.append((rnd.choice(_MEDIA_TYPES + ['nonsense']), rnd.choice(['text/html;q=2', 'junk'])) if bad else
                       (rnd.choice(_MEDIA_TYPES + ['c19/q%d' % rnd.randrange(60)]), rnd.choice(_ACCEPTS + ['c19/q%d;q=0.5, */*;q=0.1' % rnd.randrange(60)])))
        elif name == 'scope':
            out.append((rnd.choice(['http', 'websocket', 'lifespan', 'c19']), rnd.choice(['3.0', '1.0', '4.%d' % rnd.randrange(9)]), rnd.choice(['1.1', '0.9', '1.%d' % rnd.randrange(2, 30)])) if bad else
                       (rnd.choice(['http', 'http', 'websocket', 'lifespan']), rnd.choice([None, '2.0', '2.1', '2.%d' % rnd.randrange(30)]), rnd.choice(['1.1', '2', '3'])))
        elif name == 'asgi_ver':
            out.append((rnd.choice(['x.y', '2.', 'v2']),) if bad else (rnd.choice(['2.0', '2.1', '2.2', '2.3', '2.4', '3.0', '2'] + ['%d.%d' % (rnd.randrange(1, 5), rnd.randrange(0, 12)) for _ in range(8)]),))
        elif name == 'resolve':
            out.append((rnd.choice(_MEDIA_TYPES + [None, '', 'c19/x%d' % rnd.randrange(80)] + ['application/json; v=%d' % rnd.randrange(200) for _ in range(6)]),
                        rnd.choice(['application/json', 'text/plain', 'application/x-www-form-urlencoded']), rnd.random() < 0.7))
        elif name == 'best_match':
            out.append((rnd.choice(_MEDIA_TYPES + ['c19/b%d' % rnd.randrange(80)]), ('application/json', 'application/x-www-form-urlencoded', 'multipart/form-data')))
        else:       # an item that is not in the table: a battery of plausible arguments, most calls will raise
            out.append(rnd.choice([('{"a": [1, {"b": 2}], "c19": "%d"}' % rnd.randrange(10),), ('[1, [2, 3], {"k": "v"}]',), ('application/json',), ('text/html;q=0.5, */*',),
                                   ('200 OK',), (200,), (b'abc',), ('/items/7',), ('a=1&b=2',), ('X-Header',), ('2.3',), ('text/plain', '*/*'),
                                   ('http', '2.0', '1.1'), (('a', 'b'),), ()]))
    return out


def _locate_memo(row_or_key):
    """live callable for a memo item, and a fresh-computation callable (the undecorated function) if there is one"""
    import lib_inventory as L
    file, qual = row_or_key[0], row_or_key[1]
    parts = qual.split('.')
    if (file, qual) == ('falcon/media/handlers.py', 'Handlers._create_resolver.resolve'):
        from falcon.media import Handlers
        fn = Handlers()._resolve
    elif 'self' in parts[1:-1]:
        # a memo created by a call expression and stored on an instance (`self.x = ... lru_cache(...)(f)` in a method of a class):
        # take it from a default-constructed instance
        fn = None
        cls = L.locate(file, parts[0])
        try:
            fn = getattr(cls(), parts[parts.index('self') + 1])
        except Exception:  # noqa
            fn = None
    else:
        fn = L.locate(file, qual)
    if fn is None or not callable(fn):
        return None, None
    return fn, getattr(fn, '__wrapped__', None)


def _call(fn, args):
    from runner import alarm, Hang
    try:
        with alarm(3):
            return ('ok', fn(*args))
    except Hang:
        return ('hang', None)
    except Exception as e:  # noqa
        return ('exc', type(e).__name__)


O_MEMO_DIRECT = ('memoised function: called twice with equal arguments, the first result mutated in place (deeply) - the next call returns a value equal to a fresh, '
                 'uncached computation (a memo must not hand out a shared mutable document)')
O_MEMO_PRIVATE = ('memo with a mutable result that is private to its module: the cached objects stay equal to a fresh computation across uses of the functions that '
                  'are allowed to touch them, and those functions return immutable values')
O_MEMO_AUDIT = 'after all the generated traffic: the cached objects of the mutable-result memos and the header-name cache still hold (k, f k) only'


def _memo_oracles(ctx):
    """The mutable-result oracle on every memo item the scan finds - listed in the table or not."""
    import lib_inventory as L
    rnd = ctx.rng
    scanned = _scan_inventory()
    table = {(r[0], r[1]): r for r in INVENTORY}
    memo_keys = [k for k, (shape, _) in scanned.items() if shape.startswith('memo:')]
    for key in sorted(memo_keys):
        row = table.get(key)
        fn, wrapped = _locate_memo(key)
        label = f'{key[0]}:{key[1]}'
        if fn is None:
            ctx.count('memo_oracle_item_not_reachable_by_import')
            ctx.notes.append(f'memo item {label} cannot be reached by attribute lookup; only the inventory tie covers it')
            continue
        probe = (row[5].get('probe') if row else None) or '?'
        private = bool(row and row[3] == K_MEMO_MUT and row[5].get('escape') != 'direct')
        argsets = _probe_args(probe, rnd, ctx.n(120, 1200) if row else ctx.n(400, 2000))
        shared = 0
        for args in argsets:
            base = _call(wrapped, args) if wrapped is not None else None
            r1 = _call(fn, args)
            if r1[0] != 'ok':
                ctx.count('memo_oracle_call_raises')
                continue
            r2 = _call(fn, args)
            before = L.snap(r2[1])
            nmut = L.deep_mutate(r1[1], depth=3)
            r3 = _call(fn, args)
            fresh = _call(wrapped, args) if wrapped is not None else None
            want = L.snap(fresh[1]) if (fresh is not None and fresh[0] == 'ok') else before
            why = None
            if r3[0] != 'ok':
                why = f'the call after the mutation ends with {r3}'
            elif L.snap(r3[1]) != want:
                why = (f'{label}{args!r}: after the first result was mutated in place ({nmut} changes) the next call returns {r3[1]!r}, '
                       f'a fresh computation gives {fresh[1] if fresh else "(the value before the mutation)"!r}')
            if hasattr(fn, 'cache_clear'):
                fn.cache_clear()            # do not leave the mutated object behind
            ctx.count('memo_oracle_result_' + ('immutable' if nmut == 0 else 'mutable'))
            if private:
                # the object is shared by design; what matters is that nobody outside the declared boundary can reach it (below)
                shared += (why is not None)
                continue
            ctx.oracle(O_MEMO_DIRECT, why is None, why, {'item': label, 'args': args, 'in_table': row is not None,
                                                          'kind': row[3] if row else None, 'mutations_made': nmut})
            ctx.seen(('memo-direct', label, args), nmut > 0)
        if private:
            ctx.count('memo_private_mutable_results_confirmed_shared', shared)
            _private_boundary(ctx, key, row, fn, wrapped)


def _private_boundary(ctx, key, row, fn, wrapped):
    import lib_inventory as L
    rnd = ctx.rng
    label = f'{key[0]}:{key[1]}'
    boundary = []
    for b in row[5].get('escape') or []:
        f, q = b.split(':')
        bf, bw = _locate_memo((f, q))
        brow = next((r for r in INVENTORY if (r[0], r[1]) == (f, q)), None)
        boundary.append((b, bf, (brow[5].get('probe') if brow else None) or '?'))
    probe = row[5].get('probe')
    for args in _probe_args(probe, rnd, ctx.n(60, 600)):
        r = _call(fn, args)
        if r[0] != 'ok':
            continue
        fresh = _call(wrapped, args)
        why = None
        if fresh[0] != 'ok' or L.snap(r[1]) != L.snap(fresh[1]):
            why = f'{label}{args!r}: the cached object {r[1]!r} differs from a fresh computation {fresh!r}'
        for bname, bf, bprobe in boundary:
            if why:
                break
            for bargs in _probe_args(bprobe, rnd, 6) + [a for a in [(args[0], rnd.choice(_ACCEPTS)), (rnd.choice(_MEDIA_TYPES), args[0])] if bprobe == 'quality']:
                br = _call(bf, bargs)
                if br[0] != 'ok':
                    continue
                nm = L.deep_mutate(br[1])
                if nm:
                    why = f'{bname}{bargs!r} returns a mutable value {br[1]!r}'
                    break
            after = _call(fn, args)
            if why is None and (after[0] != 'ok' or L.snap(after[1]) != L.snap(fresh[1])):
                why = f'{label}{args!r}: after calls of {bname} the cached object is {after!r}, a fresh computation gives {fresh[1]!r}'
        ctx.oracle(O_MEMO_PRIVATE, why is None, why, {'item': label, 'args': args, 'boundary': [b[0] for b in boundary]})
        ctx.seen(('memo-private', label, args), True)


_AUDIT_KEYS = {
    'media_type': [(m,) for m in _MEDIA_TYPES],
    'accept': [(a,) for a in _ACCEPTS],
    'media_range': [(m,) for m in _MEDIA_TYPES],
}


def _audit_after_traffic(ctx):
    """coherence of the real tables at the end of the run (the invariant of Sm.memo_transparent, observed)"""
    import lib_inventory as L
    import falcon.asgi
    for row in INVENTORY:
        if row[3] != K_MEMO_MUT:
            continue
        fn, wrapped = _locate_memo(row)
        if fn is None or wrapped is None:
            continue
        for args in _AUDIT_KEYS.get(row[5].get('probe'), []):
            r, fresh = _call(fn, args), _call(wrapped, args)
            ok = (r[0] == fresh[0]) and (r[0] != 'ok' or L.snap(r[1]) == L.snap(fresh[1]))
            ctx.oracle(O_MEMO_AUDIT, ok, None if ok else f'{row[0]}:{row[1]}{args!r} holds {r!r}, a fresh computation gives {fresh!r}', {'item': f'{row[0]}:{row[1]}', 'args': args})
    cache = _name_cache_of(falcon.asgi.Request)
    if cache is not None:
        bad = [(k, v) for k, v in list(cache.items()) if type(v) is not bytes or v != k.lower().encode('latin1')]
        ok = not bad and len(cache) <= 64
        ctx.oracle(O_MEMO_AUDIT, ok, None if ok else f'the header-name cache of falcon.asgi.Request.get_header holds {bad[:3]!r} ({len(cache)} entries)', {'item': 'falcon/asgi/request.py:Request.get_header(_name_cache=)', 'entries': len(cache)})
        ctx.count('name_cache_entries_at_end', len(cache))


def _name_cache_of(Request):
    d = (Request.get_header.__defaults__ or ())
    return d[-1] if d and isinstance(d[-1], dict) else None


# ------------------------------------------------------------------ (d) the shared-memo model Sm against the real memoised functions

def _memo_tie(ctx):
    import threading
    import lib_sched
    from runner import hx
    import falcon.asgi
    import falcon.testing as ft
    rnd = ctx.rng

    def vtok(r):
        return ('!' + str(r[1])) if r[0] != 'ok' else 'v' + hx(repr(r[1]).encode())

    sess = ctx.session('real functools.lru_cache around falcon\'s memoised functions (one thread; 2-3 threads under the deterministic scheduler) = Sm model replay (LRU policy): '
                       'value, hits, misses, size after every call', 'smdriver')
    sess_nc = ctx.session('header-name kwarg cache of falcon.asgi.Request.get_header = Sm model replay (skip-when-full policy)', 'smdriver')

    targets = []
    for row in INVENTORY:
        if not row[2].startswith('memo:') or not row[5].get('probe'):
            continue
        fn, wrapped = _locate_memo(row)
        if fn is None or wrapped is None or not hasattr(fn, 'cache_info'):
            ctx.count('memo_tie_target_inactive')     # e.g. _best_match outside PyPy
            continue
        targets.append((f'{row[0]}:{row[1]}', fn, wrapped, row[5]['probe'], row[5].get('cap')))
    for label, fn, wrapped, probe, cap in targets:
        # (the replay uses the capacity recorded in the table: a changed maxsize shows up as a changed shape and as a replay mismatch)
        ctx.count('memo_tie_maxsize_as_in_table', int(fn.cache_info().maxsize == cap))

    class Keys:
        """token per Python-equal key (the equality lru_cache itself uses), fresh value per token"""
        def __init__(s, wrapped):
            s.tok, s.fresh, s.wrapped = {}, {}, wrapped
        def __call__(s, args):
            t = s.tok.get(args)
            if t is None:
                t = s.tok[args] = f'k{len(s.tok)}'
                s.fresh[t] = vtok(_call(s.wrapped, args))
            return t
        def table(s):
            return ';'.join(f'{t}={v}' for t, v in s.fresh.items()) or '-'

    # ---- one thread: long call sequences with hits, misses, evictions, exceptions and cache_clear()
    for label, fn, wrapped, probe, cap in targets:
        for _ in range(ctx.n(16, 200)):
            pool = list(dict.fromkeys(_probe_args(probe, rnd, 6 * cap)))[:cap + rnd.randint(max(1, cap // 4), cap)]
            if rnd.random() < 0.25:
                pool = pool[:max(2, cap // 2)]            # everything fits: hits only after the first round
            keys = Keys(wrapped)
            fn.cache_clear()
            evs, done = [], []
            ncalls = rnd.randint(2 * cap, 6 * cap) if rnd.random() < 0.7 else rnd.randint(2, cap)
            hot = pool[:max(1, len(pool) // 4)]
            clear_at = set(rnd.sample(range(ncalls), rnd.choice([0, 0, 0, 1, 2])))
            for _c in range(ncalls):
                if _c in clear_at:
                    fn.cache_clear()
                    evs.append('x')
                    continue
                args = rnd.choice(hot) if rnd.random() < 0.35 else rnd.choice(pool)
                t = keys(args)
                r = _call(fn, args)
                ci = fn.cache_info()
                evs += [f'c0:{t}', 's0', 's0', 's0']
                done.append(f'0:{t}:{vtok(r)}:h{ci.hits}m{ci.misses}z{ci.currsize}')
            ci = fn.cache_info()
            sess.case({'function': label, 'maxsize': cap, 'calls': ncalls, 'distinct_keys': len(keys.tok), 'threads': 1})
            sess.op(f'memo lru {cap} {keys.table()} {",".join(evs) or "-"}',
                    (' '.join(done) or '-') + f' size={ci.currsize} hits={ci.hits} misses={ci.misses} agree=1')
            ctx.seen(('memo-seq', label, tuple(evs[:60]), len(evs)), ci.hits > 0 and ci.misses > cap)
            ctx.count('memo_tie_sequences_1thr')
            ctx.count('memo_tie_calls', ncalls)
            ctx.count('memo_tie_evicting_sequences', int(ci.misses > ci.currsize and ci.currsize == cap))
            fn.cache_clear()

    # ---- 2-3 threads under the deterministic scheduler: preemption inside the Python body of the memoised function, i.e. between
    #      lookup and store; the same key is computed concurrently, stores race, the cache is full
    tls = threading.local()
    for label, fn, wrapped, probe, cap in targets:
        code = getattr(wrapped, '__code__', None)
        if code is None:
            ctx.count('memo_tie_race_skipped_not_a_python_function')
            continue
        for _ in range(ctx.n(24, 300)):
            n = rnd.choice([2, 2, 3])
            small = list(dict.fromkeys(a for a in _probe_args(probe, rnd, 4)))[:rnd.choice([1, 2, 3])]
            plans = [[rnd.choice(small) for _ in range(rnd.randint(1, 3))] for _ in range(n)]
            keys = Keys(wrapped)
            for p in plans:
                for a in p:
                    keys(a)
            fn.cache_clear()
            evs, done = [], []
            # preload: fill the cache (almost) completely so that the racing stores have to evict
            pre = []
            if rnd.random() < 0.6:
                cand = [a for a in dict.fromkeys(_probe_args(probe, rnd, 3 * cap)) if a not in small]
                pre = cand[:rnd.choice([cap, cap - 1, cap - 2, cap // 2])]
            for a in pre:
                t = keys(a)
                r = _call(fn, a)
                ci = fn.cache_info()
                evs += [f'c0:{t}', 's0', 's0', 's0']
                done.append(f'0:{t}:{vtok(r)}:h{ci.hits}m{ci.misses}z{ci.currsize}')
            E = 12 * sum(len(p) for p in plans)
            sw = {p: rnd.choice([1, 2]) for p in rnd.sample(range(1, E + 1), rnd.choice([1, 2, 3, 4]))}
            s = lib_sched.Sched(n, sw)
            cur = {}

            def tracer_for(i):
                def local(frame, event, arg):
                    if event == 'line':
                        s.point(i)
                    elif event == 'return':
                        evs.extend([f's{i}', f's{i}'])          # compute finished; the store follows atomically (C code, no trace event)
                    return local

                def tr(frame, event, arg):
                    if frame.f_code is code:
                        t, st = cur[i]
                        st['miss'] = True
                        evs.extend([f'c{i}:{t}', f's{i}'])      # the call and its lookup (a miss) happened atomically just now
                        return local
                    return None
                return tr

            def body(i):
                def b():
                    tls.i = i
                    for a in plans[i]:
                        s.point(i)
                        t = keys.tok[a]
                        st = {'miss': False}
                        cur[i] = (t, st)
                        try:
                            r = ('ok', fn(*a))
                        except Exception as e:  # noqa
                            r = ('exc', type(e).__name__)
                        if not st['miss']:
                            evs.extend([f'c{i}:{t}', f's{i}'])   # a hit: call, lookup and return in one atomic stretch
                        ci = fn.cache_info()
                        done.append(f'{i}:{t}:{vtok(r)}:h{ci.hits}m{ci.misses}z{ci.currsize}')
                    return True
                return b
            res = lib_sched.run_threads(s, [body(i) for i in range(n)], tracer_for)
            ci = fn.cache_info()
            okrun = all(r == ('ok', True) for r in res) and not s.dead
            ctx.oracle('memoised function under racing threads: no thread dies or deadlocks', okrun, None if okrun else f'{label}: {res}',
                       {'function': label, 'plans': plans, 'switch_points': sorted(sw.items())})
            sess.case({'function': label, 'maxsize': cap, 'threads': n, 'plans': plans, 'preloaded': len(pre), 'switch_points': sorted(sw.items())})
            sess.op(f'memo lru {cap} {keys.table()} {",".join(evs) or "-"}',
                    (' '.join(done) or '-') + f' size={ci.currsize} hits={ci.hits} misses={ci.misses} agree=1')
            same_key_race = ci.misses > len(set(keys.tok[a] for p in plans for a in p) | set(keys.tok[a] for a in pre))
            ctx.seen(('memo-race', label, str(plans), tuple(sorted(sw.items())), len(pre)), s.preemptions > 0)
            ctx.count(f'memo_tie_races_{n}thr')
            ctx.count('memo_tie_races_with_preemption', int(s.preemptions > 0))
            ctx.count('memo_tie_races_same_key_computed_twice', int(same_key_race))
            fn.cache_clear()
    sess.finish()

    # ---- the kwarg cache of falcon.asgi.Request.get_header: at most 64 names, never evicted
    cache = _name_cache_of(falcon.asgi.Request)
    ctx.count('name_cache_found', int(cache is not None))      # (if it is gone the inventory tie reports a stale row)
    if cache is not None:
        for _ in range(ctx.n(12, 120)):
            names = [rnd.choice(['X-', 'x-', 'Accept-', 'CONTENT-', 'If-', 'c19-']) + ''.join(rnd.choice('abcdefGHIJ') for _ in range(rnd.randint(1, 5))) + str(rnd.randrange(30))
                     for _ in range(rnd.choice([20, 70, 90]))]
            names = list(dict.fromkeys(names))
            hdrs = {nm.lower(): nm.lower() for nm in names}
            req = falcon.asgi.Request(ft.create_scope(headers=hdrs), None)
            cache.clear()
            tok, fresh, evs, done = {}, {}, [], []
            h = m = 0
            for _c in range(rnd.randint(len(names), 3 * len(names))):
                nm = rnd.choice(names)
                t = tok.setdefault(nm, f'k{len(tok)}')
                fresh[t] = 'v' + hx(nm.lower().encode('latin1'))
                hit = nm in cache
                h, m = h + hit, m + (not hit)
                val = req.get_header(nm)
                evs += [f'c0:{t}', 's0', 's0', 's0']
                done.append(f'0:{t}:v{hx((val or "").encode("latin1"))}:h{h}m{m}z{len(cache)}')
            sess_nc.case({'names': len(names), 'calls': len(done)})
            sess_nc.op(f'memo skip 64 {";".join(f"{t}={v}" for t, v in fresh.items())} {",".join(evs)}',
                       ' '.join(done) + f' size={len(cache)} hits={h} misses={m} agree=1')
            ctx.seen(('name-cache', tuple(names[:8]), len(done)), len(names) > 64)
            ctx.count('name_cache_sequences')
            ctx.count('name_cache_sequences_overflowing', int(len(names) > 64))
        cache.clear()
    sess_nc.finish()


LEVEL_TEXT = ('Machine-checked proofs (Lean 4): (a) the lazy-compile protocol of CompiledRouter (find / _compile_and_find / _compile as a small-step system at attribute-load granularity, any number of threads, '
              'any schedule, any table size): every finished thread ran the finder of the one and only compile on that compile\'s complete tables, nobody re-enters the stub, at most one compile '
              '(every_thread_gets_serial_result, via the invariant run_inv and the monotonicity lemma Good_mono); without the lock the statement fails on a 17-step schedule (no_lock_witness). '
              '(b) a generic non-interference theorem: tasks that touch only their own component and consult shared state through memoised pure functions end, under any interleaving and any memo eviction, '
              'exactly where they end alone (noninterference_of_local_steps, memo_transparent). '
              '(c) the kinds of process-wide mutable state that exist in falcon/: a shared bounded memo table at lookup/compute/store granularity with racing computations of one key, overwriting stores, arbitrary eviction and '
              'cache_clear() (Sm.memo_transparent, via the invariant Sm.step_inv), a lazily initialised cell written by racing threads (Lz.lazy_init_idempotent), and their composition with the locked router compile and '
              'per-request programs through safe protocols and products of protocols (Cp.noninterference, Cp.memo_safe/lazy_safe/router_safe/prod_safe, Cp.falcon_shared_noninterference). '
              'Tie for (c): an AST inventory of every piece of state in falcon/ that outlives a request (memo decorators and memo applications written as call expressions, partial objects binding containers, module-level containers/instances, mutable default arguments, class attributes, instance attributes of '
              'long-lived objects written outside __init__ directly or through a local alias, lazy initialisations with the kind of value they create) is compared on every run with a hand-classified table (63 items: 8+3 memos, 7 lock-protected, 15 configuration, 23 read-only, 3 false positives / per-call, 4 other; 17 of them closure cells of factory functions); every memoised '
              'function found is probed for shared mutable results; the real lru_cache-wrapped functions and the header-name cache are replayed through the Sm model (single-thread sequences and scheduled thread races). '
              '(d) where the lock comes from (Ll): a lock created together with the object gives mutual exclusion for any number of threads under every schedule and is the only lock object ever (eager_lock_mutual_exclusion, via run_inv); '
              'a lock created on first use lets two threads into the critical section with different locks (lazy_lock_witness). '
              'Tie: the real CompiledRouter runs under a deterministic thread scheduler (sys.settrace; opcode events inside find/_compile_and_find, line events elsewhere; every lock the router creates or holds is replaced by a scheduler-aware one, whatever attribute it lives in); '
              'every explored schedule (all single preemptions, targeted and PRNG 2-3 preemptions, and the tree of 3 threads x 3 preemptions over the lazy-compile window) is mapped step by step onto the 12 step kinds of the model and replayed by the compiled model, comparing per-thread outcome, '
              'number of compiles, order of compile starts/publishes, which way each thread went and how many lock objects exist (all of them before the first request); the lock protocol of the same runs, and of runs with a lazily created lock put in its place, is replayed through Ll; 2-3 concurrent ASGI requests over generated apps are interleaved at every receive/send/await by a scripted gate and '
              '2-3 WSGI threads are run under the same deterministic scheduler and free-running, all compared with serial execution by an independent oracle.')
LEVEL_NOTE = ('PARTIAL (proof, partial): the hypothesis of the composition theorem - every write after import goes to the request\'s own objects or to an inventoried memo / lazy cell / lock-protected item - rests on a '
              'syntactic inventory (AST detectors + hand classification, tied to the source on every run) and on interleaved-vs-serial execution, not on a semantic analysis of the Python code; configuration items assume '
              'no reconfiguration during traffic; CPython\'s true atomicity and C-level GIL releases are not exhibited. Trusted: Lean kernel + standard axioms, sys.settrace events as preemption points, the scheduler-aware lock, '
              'the asyncio gate, the AST detectors and the classification table, lru_cache\'s atomic lookup/store, the oracles.')
TECHNIQUE = ('Lean 4 invariant proofs over all schedules (small-step LTS: locked lazy compile, shared bounded memo, lazy cell) + compositional non-interference through safe protocols + checked AST inventory of process-wide state '
             '+ schedule-replay correspondence under a deterministic thread/task scheduler + serial-equivalence and mutable-result oracles')

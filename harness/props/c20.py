"""C20 - the built-in CORS policy grants exactly the configured origins.

Per-call time limits are 30 s: the code under test has no loops, the limit only keeps the harness from blocking.
(A 3 s limit fired spuriously on a machine with load average > 100, and SIGALRM raised inside falcon's generic
exception handler turned into a 500 response.)
"""
import re

PROP = 'C20'
LEAN_MODULES = ['FalconModel.Cors', 'FalconModel.CorsProofs', 'FalconModel.CorsConfig', 'FalconModel.CorsConfigProofs', 'FalconModel.CorsCall',
                'FalconModel.Pipeline', 'FalconModel.PipelineProofs', 'FalconModel.PipelineSpec',
                'FalconModel.Dispatch', 'FalconModel.DispatchProofs', 'FalconModel.CorsDispatch', 'FalconModel.CorsDispatchProofs']
DRIVERS = ['crdriver', 'cddriver']
THEOREMS = [
    # header-map algebra the policy proofs rest on
    'Co.get_set_self', 'Co.get_set_ne', 'Co.get_del_self', 'Co.get_del_ne', 'Co.find_filter_ne', 'Co.get_del_any', 'Co.get_del_absent',
    # processF = process_response as it is in the tree (with the F12 repair a822153)
    'Co.processF_stages', 'Co.grantStage_get', 'Co.exposeStage_get',
    'Co.noOriginF_untouched', 'Co.disallowedF_untouched', 'Co.changed_only_for_allowed_origin', 'Co.others_untouched',
    'Co.allow_untouched_unless_preflight',
    'Co.credentialsF_only_configured', 'Co.credentialsF_imply_echo', 'Co.wildcard_never_with_credentials',
    'Co.preflight_approved_iff', 'Co.approved_preflight_exact', 'Co.preflight_removes_allow',
    'Co.denied_preflight_grants_nothing',
    # the same first four statements for the pinned function, and the regression witness of F12
    'Co.no_origin_untouched', 'Co.disallowed_untouched', 'Co.credentials_only_configured', 'Co.credentials_imply_echo',
    'Co.f12_witness',
    # --- Cg: CORSMiddleware.__init__ (normalise) -------------------------------------------------------------------------
    'Cg.mem_frozenset', 'Cg.has_frozenset', 'Cg.normOrigins_str', 'Cg.normOrigins_iter', 'Cg.normOrigins_none',
    'Cg.normCredentials_none', 'Cg.normCredentials_str', 'Cg.normCredentials_iter', 'Cg.normalise_eq', 'Cg.normalise_ok_iff',
    'Cg.normalise_has', 'Cg.processF_congr', 'Cg.normalise_depends_only_on_set', 'Cg.policy_depends_only_on_set',
    'Cg.normalise_order_irrelevant', 'Cg.normalise_duplicates_irrelevant', 'Cg.normalise_string_is_singleton',
    'Cg.string_membership_is_equality', 'Cg.wildcard_in_iterable_rejected', 'Cg.normalise_error_iff',
    'Cg.expose_join_exact', 'Cg.joinComma_toList', 'Cg.raw_expose_header_exact',
    # the policy theorems restated from the RAW constructor arguments
    'Cg.names_iff', 'Cg.origin_match_is_exact_equality', 'Cg.raw_changed_only_for_allowed_origin',
    'Cg.raw_credentials_only_configured', 'Cg.raw_no_credentials_by_default', 'Cg.raw_credentials_imply_echo',
    'Cg.raw_wildcard_never_with_credentials', 'Cg.raw_preflight_approved_iff', 'Cg.raw_wildcard_only_from_literal',
    # --- Cg: cors_enable wiring (App.__init__ / add_middleware) and the CORS component inside App.__call__ (Pl.run) -------
    'Cg.addMiddleware_eq', 'Cg.cors_enable_adds_exactly_one', 'Cg.no_cors_enable_verbatim', 'Cg.addMiddleware_keeps_one',
    'Cg.cors_enable_invariant',
    'Pl.run_eq_spec', 'Cg.run_response_phase', 'Cg.respOrder_decreasing', 'Cg.response_call_of_member',
    'Cg.mem_respOrder_independent', 'Cg.reached_append', 'Cg.mem_respOrder_dependent', 'Cg.cors_response_exactly_once',
    'Cg.cors_response_dependent_count', 'Cg.cors_process_response_independent', 'Cg.cors_process_response_dependent',
    'Cg.cors_enable_process_response', 'Cg.req_succeeded_by_target', 'Cg.req_failed_in_middleware',
    'Cg.req_failed_in_resource_middleware',
    # --- Cg: the call CORSMiddleware(*positional, **keyword) (argument binding of the signature, then __init__) ---------------------
    # --- Cd: the producers of the Allow header (Dp dispatch over the registration history, generated OPTIONS responder, 405 / 404,
    #     StaticRoute, application code) composed with process_response -----------------------------------------------------------
    'Cd.responder_routed', 'Cd.responder_auto_options', 'Cd.responder_own_options', 'Cd.responder_not_found_iff',
    'Cd.get_allow_auto', 'Cd.get_other_auto', 'Cd.grant_ne', 'Cd.respond_own_grants',
    'Cd.preflight_methods_exact', 'Cd.preflight_methods_history',
    'Cd.exchange_app_code', 'Cd.app_code_preflight_approved', 'Cd.app_code_preflight_denied', 'Cd.app_code_raised', 'Cd.static_preflight',
    'Cd.ungranted_untouched', 'Cd.ungranted_no_grants', 'Cd.ungranted_keeps_allow', 'Cd.not_found_exchange',
    'Cd.exchangeMw_eq', 'Cd.exchangeMw_meta',
    'Dp.reregistered_route_exact', 'Dp.options_allow_exact', 'Dp.latest_registration_wins', 'Dp.not_found_iff', 'Dp.lookup_resource_iff',
    'Cg.bindArgs_split', 'Cg.bindArgs_positional_order', 'Cg.bindArgs_two_positional', 'Cg.bindArgs_defaults', 'Cg.construct_defaults',
    'Cg.construct_star_star', 'Cg.construct_split',
]
STATEMENTS = {
    'Cd.preflight_methods_exact': 'for every add_route / add_sink / add_static_route history, every template the history left routed to a resource without on_options, every configuration and every state of the response before the responder: a preflight (OPTIONS + non-empty Access-Control-Request-Method) from a granted origin ends with Access-Control-Allow-Methods = exactly ", ".join of the Allow list Dp computes for that resource, Allow-Headers = the requested headers or *, Max-Age 86400, and WITHOUT the Allow header',
    'Cd.preflight_methods_history': '... and the members of that list are exactly the methods m of COMBINED_METHODS for which the resource had a callable on_<m>[_<suffix>] at the latest accepted add_route call for the template, without WEBSOCKET (rejected calls and earlier registrations do not count)',
    'Cd.app_code_preflight_approved': 'when a resource\'s own on_options or a sink answers, returns and leaves an Allow header v: the preflight of a granted origin is approved with exactly v and Allow is removed',
    'Cd.app_code_preflight_denied': 'when it returns without an Allow header: all six grant headers (also Access-Control-Allow-Origin, also ones the application code set) and Allow are absent from the final response',
    'Cd.app_code_raised': 'when it raises, the preflight patch does not run: Allow and the three preflight headers stay as the application code left them',
    'Cd.static_preflight': 'a static route answers OPTIONS itself with Allow: GET, so a preflight of a granted origin to it is approved with exactly GET and loses Allow',
    'Cd.ungranted_untouched': 'a request without Origin or with an Origin the configuration does not allow gets the responder\'s header map unchanged - for every history, route, sink, static route, method',
    'Cd.ungranted_no_grants': '... so when falcon itself answers the OPTIONS request (generated responder, 404, static route) each of the six grant headers has the value earlier stages had put there (absent on a fresh response)',
    'Cd.ungranted_keeps_allow': '... and the Allow header of the generated OPTIONS responder is then kept with exactly Dp\'s list',
    'Cd.not_found_exchange': 'unrouted path (404) from a granted origin: the exchange is not successful, so only the origin / credentials grant and Expose-Headers are written (they ARE added to the 404); Allow and the three preflight headers stay as earlier stages left them; Access-Control-Allow-Origin is the echo (credentials) or * / the echo',
    'Cd.respond_own_grants': 'falcon\'s own answers (generated OPTIONS responder, 405, 400, 404, a static route answering OPTIONS) never write one of the six grant headers',
    'Cd.exchangeMw_eq': 'with process_request components in front of the policy, for every HTTP method the exchange is Cd.exchange on the header map those components left',
    'Cd.exchangeMw_meta': 'the meta method WEBSOCKET used as HTTP method is answered 400 before any process_request ran: the policy sees the response as constructed, in an unsuccessful exchange',
    'Cd.responder_not_found_iff': 'without a route the answer is 404 iff no registered sink / static route matches the path',
    'Co.noOriginF_untouched': 'a request without Origin leaves the whole response header map unchanged, for every configuration, pre-existing headers and outcome',
    'Co.disallowedF_untouched': 'a request whose Origin the configuration does not allow leaves the whole header map unchanged',
    'Co.changed_only_for_allowed_origin': 'if process_response changes anything at all, the request carried an Origin that allow_origins admits',
    'Co.others_untouched': 'headers other than the six Access-Control-* grant headers and Allow are never modified',
    'Co.allow_untouched_unless_preflight': 'Allow is modified only in a successful OPTIONS exchange carrying Access-Control-Request-Method',
    'Co.credentialsF_only_configured': 'if the responder had not set Access-Control-Allow-Credentials and the result carries it, the Origin is allowed and is configured in allow_credentials',
    'Co.credentialsF_imply_echo': 'whenever the middleware grants credentials the Access-Control-Allow-Origin it leaves is the request\'s own Origin',
    'Co.wildcard_never_with_credentials': 'for a request Origin other than the literal "*": a credentials grant of the middleware never coexists with Access-Control-Allow-Origin: *',
    'Co.preflight_approved_iff': 'Access-Control-Allow-Methods is present afterwards (responder had not set it) iff the Origin is allowed and req_succeeded and method = OPTIONS and Access-Control-Request-Method is non-empty and the response carried an Allow header',
    'Co.approved_preflight_exact': 'an approved preflight gets Allow-Methods = the advertised Allow value, Allow-Headers = the requested headers (or *), Max-Age = 86400, and loses Allow',
    'Co.preflight_removes_allow': 'a successful preflight from an allowed origin never keeps its Allow header',
    'Co.denied_preflight_grants_nothing': 'a successful preflight from an allowed origin whose response advertises no Allow ends with none of the six grant headers, whatever the configuration and whatever the responder had set',
    'Co.f12_witness': 'the pre-repair function kept Access-Control-Allow-Credentials: true on a denied preflight (regression witness of F12, by decide)',
    'Cg.normalise_has': 'if the constructor succeeds, membership in the normalised allow_origins / allow_credentials is exactly: the argument is the bare string "*", or is that very string, or is an iterable containing that very string; allow_origins is the wildcard iff the argument was the bare "*"; expose_headers is the string given or the ", "-join',
    'Cg.normalise_string_is_singleton': 'for strings other than "*", passing a single string for allow_origins / allow_credentials yields the very same configuration as passing the one-element list',
    'Cg.string_membership_is_equality': 'with single-string arguments s, t (not "*") an Origin o is allowed iff o = s and gets credentials iff o = t: whole-string equality, never a substring test',
    'Cg.normalise_depends_only_on_set': 'two constructor calls whose allow_origins / allow_credentials iterables have the same members (any order, any repetitions) fail with the same error or give configurations that agree on every membership test, on wildcard-ness and on expose_headers',
    'Cg.policy_depends_only_on_set': '... and then process_response computes the same header map for every request, pre-existing headers and outcome',
    'Cg.normalise_order_irrelevant': 'permuting the allow_origins / allow_credentials iterables does not change the outcome (same error / policy-equivalent configuration)',
    'Cg.normalise_duplicates_irrelevant': 'repeating an item of the allow_origins / allow_credentials iterables does not change the outcome',
    'Cg.wildcard_in_iterable_rejected': 'an allow_origins iterable containing "*" makes the constructor fail (ValueError, origins); with acceptable allow_origins, an allow_credentials iterable containing "*" makes it fail (ValueError, credentials)',
    'Cg.normalise_error_iff': 'the constructor fails iff allow_origins is None, or allow_origins / allow_credentials is a non-string iterable containing "*"',
    'Cg.expose_join_exact': 'expose_headers is stored as None, as the string given, or as the items joined with ", " in iteration order',
    'Cg.joinComma_toList': 'the characters of the joined value are the items\' characters with ", " between consecutive items and nothing else',
    'Cg.raw_expose_header_exact': 'for an Origin named by allow_origins, outside a successful preflight, Access-Control-Expose-Headers is exactly the ", "-join of the expose_headers iterable (when non-empty)',
    'Cg.origin_match_is_exact_equality': 'an Origin is allowed (resp. credentialed) iff the allow_origins (resp. allow_credentials) argument is the bare "*", or equals the Origin as a whole string, or is an iterable with an item equal to it (case-sensitive string equality)',
    'Cg.raw_changed_only_for_allowed_origin': 'if process_response of a successfully constructed middleware changes anything, the request carried an Origin named by the allow_origins argument',
    'Cg.raw_credentials_only_configured': 'if the middleware adds Access-Control-Allow-Credentials, the Origin is named by BOTH the allow_origins and the allow_credentials argument',
    'Cg.raw_no_credentials_by_default': 'with allow_credentials=None the middleware never adds Access-Control-Allow-Credentials',
    'Cg.raw_credentials_imply_echo': 'Co.credentialsF_imply_echo for every successfully constructed middleware',
    'Cg.raw_wildcard_never_with_credentials': 'Co.wildcard_never_with_credentials for every successfully constructed middleware',
    'Cg.raw_preflight_approved_iff': 'Access-Control-Allow-Methods appears iff the Origin is named by the allow_origins argument and the exchange is a successful OPTIONS with Access-Control-Request-Method whose response advertises Allow',
    'Cg.raw_wildcard_only_from_literal': 'if the middleware itself answers Access-Control-Allow-Origin: * (Origin other than "*"), then allow_origins was the bare string "*" and the Origin is not named by allow_credentials',
    'Cg.cors_enable_adds_exactly_one': 'App(cors_enable=True, middleware=M): either M holds no CORSMiddleware and the stack is M followed by exactly one CORSMiddleware (the last component), or M holds one and the constructor raises',
    'Cg.no_cors_enable_verbatim': 'without cors_enable the stack is the caller\'s list verbatim and construction never fails on account of CORS components',
    'Cg.addMiddleware_keeps_one': 'with cors_enable, add_middleware is accepted iff its argument holds no CORSMiddleware; a refused call changes nothing',
    'Cg.cors_enable_invariant': 'after any sequence of add_middleware calls (accepted or refused) a cors_enable app still has exactly one CORSMiddleware and the earlier stack is a prefix of the new one',
    'Cg.response_call_of_member': 'a component on the response stack has process_response called with (resource is not None, req_succeeded = nothing raised before the response phase), provided no process_response of a later-registered component raised',
    'Cg.mem_respOrder_dependent': 'dependent mode: the CORS component is on the response stack iff no process_request of a component registered before it raised',
    'Cg.cors_response_exactly_once': 'independent mode: the CORS process_response is called exactly once per request, whatever any method does',
    'Cg.cors_response_dependent_count': 'dependent mode: it is called once, or not at all when an earlier process_request raised',
    'Cg.cors_enable_process_response': 'for an app built with cors_enable=True over any caller middleware, any routing outcome and responder behaviour: the CORS process_response call (index = number of caller components) is in the call trace with the documented req_succeeded - always in independent mode, in dependent mode unless a caller process_request raised',
    'Cg.req_succeeded_by_target': 'when no process_request / process_resource raises or completes: resource is set iff a route matched; req_succeeded iff the target is a routed responder or a sink / static route and that responder did not raise (404 / 405: False)',
    'Cg.bindArgs_split': 'passing the first k (0..3) of the three settings positionally and the others by keyword binds allow_origins, expose_headers, allow_credentials to the same values for every k: the positional order is (allow_origins, expose_headers, allow_credentials)',
    'Cg.construct_split': 'the calling convention is irrelevant: every positional / keyword split constructs the configuration (or raises the error) of the all-keyword call',
    'Cg.construct_star_star': 'CORSMiddleware("*", "*") is every origin + expose "*" with NO credentials configured',
    'Cg.construct_defaults': 'CORSMiddleware() - what cors_enable=True builds - allows every origin, exposes nothing and configures no credentials',
    'Cg.req_failed_in_middleware': 'a request rejected by a process_request reaches process_response with resource None and req_succeeded False',
}
TRUSTED = [
    'falcon.Response header map (C15) and Request.get_header as the interface between the middleware and the message',
    'the twin application without the CORS middleware as the meaning of "untouched" in the full-stack oracle',
]
ASSUMPTIONS = [
    'the configuration of a policy is what was handed to its constructor - objects the caller keeps and mutates afterwards (the list / set passed as allow_origins, ...) do not re-configure it - until the application '
    'assigns one of the public attributes allow_origins / allow_credentials / expose_headers of the live object (in the normalised form the constructor itself stores: "*", a frozenset of origins, None / the joined expose string): '
    'from then on the assigned value is the configuration, and every request is judged by the configuration current at that request; '
    'the Origin of a request is its Origin FIELD VALUE (RFC 9110, 5.3: all field lines combined in order, comma-separated - what a WSGI server hands over in HTTP_ORIGIN): a field of several lines is not one origin, so it is granted only by the wildcard; '
    'the address the request arrived at (scheme, Host, port) is not part of the configuration, so an Origin equal to it is allowed iff it is configured',
    'the request Origin is not the literal string "*" (echoing it would be indistinguishable from the wildcard; browsers never send it)',
    'the wildcard rule speaks about credentials granted by the middleware: a responder that itself pre-sets Access-Control-Allow-Credentials or -Origin is left alone (stated explicitly in DESIGN.md C20)',
    '"withdrawn otherwise" is read as: a successful OPTIONS exchange with Access-Control-Request-Method whose response advertises no Allow (the reading under which F12 was found); a failed exchange keeps the origin grant',
    'constructor arguments are None, a str, or an iterable of str (the documented types); an iterable is modelled by the list of items it yields, frozenset() by a duplicate-free list - every later use is a membership test (Cg.has_frozenset)',
    'a positional constructor call means what the published signature CORSMiddleware(allow_origins=\'*\', expose_headers=None, allow_credentials=None) says; the oracle has this order written down',
    'a successful exchange is one in which nothing raised before the CORS process_response ran (req_succeeded as documented: "True if no exceptions were raised while the framework processed and routed the request"); raising HTTPStatus - of any status - is raising, returning with an error status is not',
    'in the wiring model a static route is a sink-shaped target (responder found in _sink_and_static_routes, resource None); other middleware components are modelled by what each of their methods does (return / complete / raise) as in the C03 model Pl.run',
]
RULE = ('(0) constructor: allow_origins / expose_headers / allow_credentials drawn independently from None, the bare "*", a single string, and list / tuple / set / frozenset / generator / dict-keys '
        'of 0-4 strings with repetitions (universe with look-alikes: a prefix pair http://a / http://a.example, case variant, trailing slash, empty string; "*" inserted into 12 % of the iterables; values legal '
        'for several parameters - the wildcard, origins as exposed-header names, header names as origins - so that a setting bound to the wrong parameter is visible). CALLING CONVENTION: the first k = 0..3 settings '
        'are passed positionally in the documented order (allow_origins, expose_headers, allow_credentials - written down in the check, not read from the tree), the others by keyword in random order or not at all '
        '(then the documented default is meant); CORSMiddleware() and App(cors_enable=True) are the call without arguments; 2 % malformed calls (fourth positional, setting bound twice). The object is used directly or '
        'installed through App(middleware=[mw] / mw / (mw,) / [other, mw]), add_middleware(mw / [mw]) of falcon.App or falcon.asgi.App. The real call is compared with Cg.construct (Cg.bindArgs, Cg.normalise: attributes or '
        'error); every accepted object is probed - through the real process_response(_async), or with GET requests through the app it was installed in - with the strings of all three settings and their proper substrings, '
        'superstrings and case variants, and judged by the documented reading of the call. Levels (1) and (2) build their middleware with the same random calling convention. (0b) wiring: real falcon.App / falcon.asgi.App(cors_enable on/off, independent on/off, middleware = None / bare component / list / '
        'tuple / generator of recording components and CORSMiddleware subclass instances) followed by 0-3 add_middleware calls; one clean request gives the stack, one planned request (routed / 405 / sink / static / '
        'unrouted, preflight or not; ENDING: the responder returns or raises, and 0-2 of process_request / process_resource / process_response of the other components raise - what is raised is HTTPError, HTTPError carrying Allow, '
        'a plain exception with a registered handler, or HTTPStatus 200 / 204 / 401 / 503 with or without an Allow header; the model sees all of them as "raise") gives the process_response calls with their (resource, req_succeeded); '
        'the framework-built CORSMiddleware is observed through a logging Response type and must patch the preflight iff nothing raised before its process_response. (1) unit level: random configurations over the origin universe {http://a, http://b, http://c} (allow_origins: *, str, list/tuple/set/frozenset/generator; allow_credentials: None, *, str, iterables; '
        'expose_headers: None, "", str, list) x request views (Origin absent / allowed / disallowed / case variant / empty / look-alike; any method; Access-Control-Request-Method/-Headers absent, empty, set) x '
        'random pre-existing response headers (any subset of the six grant headers, Allow and other headers, random name case) x req_succeeded: the real CORSMiddleware.process_response / '
        'process_response_async is called on real falcon Request/Response objects of both stacks and compared with the model. '
        '(2) full stack: real falcon.App / falcon.asgi.App with the middleware alone, before/after/between other middleware (one of which may fail in process_request), independent_middleware on/off, cors_enable=True; '
        'targets: routed resource (auto-OPTIONS / custom on_options with and without Allow / custom on_options behind before+after hooks), sinks with/without Allow, static route without and with fallback_filename '
        '(existing and missing file), unrouted; responders that pre-set CORS headers. '
        'OUTSIDE AN APPROVED PREFLIGHT every exchange (any method x Origin absent / disallowed / allowed x Access-Control-Request-Method absent / empty / set x every target kind) is also judged by an ABSOLUTE rule that does not '
        'use the twin: the Access-Control-* headers of the response of the twin WITHOUT any CORS policy must be a subset of what the harness responder itself pre-set (nothing at all on static / unrouted / framework-answered targets); with a policy the same '
        'for requests without Origin / from disallowed origins, and for allowed origins no Allow-Methods / Allow-Headers / Max-Age unless the request is OPTIONS with Access-Control-Request-Method - so a grant written by any other built-in part '
        '(static route, default responders) is seen even when twin and app agree. '
        'HOW THE EXCHANGE ENDS is an input: in 55 % of the requests one (8 %: two) of the stages responder / before hook / after hook / process_request, process_resource, process_response of a component before or after the CORS one '
        'ends by raising HTTPStatus (200, 204, 302, 401, 503; with an Allow header, without, or after setting Allow on the response itself), HTTPError (400, 405 carrying Allow, 401/429/503 with or without Allow) or a plain exception whose '
        'registered handler answers 500 / sets Allow / raises HTTPStatus 204 with Allow itself; a responder may also RETURN after choosing a status (200, 202, 204, 503). The oracle counts the exchange as successful iff nothing raised '
        'before the CORS process_response ran (every raise of a harness stage is recorded at the raise; the framework\'s own 404 / 405 show as an error status where no harness responder ran) - the status code plays no role; each request also runs against a twin app without the CORS middleware; every process_response call observed inside the app is also fed to the model. '
        'THE REQUEST\'S OWN ADDRESS is an input at levels (0), (1), (2): scheme http / https x Host (a, b, c, d, A, a.example, a.evil, 127.0.0.1, ...) x port default / 80 / 443 / 8080 (Host header with and without an explicit default port), '
        'correlated with the Origin: in 45 % of the requests whose Origin is scheme://host[:port] the request arrived at exactly that address (Origin == the request\'s own scheme://Host), in 25 % at an address differing only in scheme / port / letter case / '
        'explicit default port, otherwise at an unrelated one; origins include https and explicit-port variants of the configured ones; the oracle and the model do not look at the address at all (the statement: exactly the configured origins). '
        'THE ARGUMENT OBJECTS of the constructor stay the caller\'s: in 50 % of the accepted constructor cases (0), 30 % of the unit cases (1) and 35 % of the apps (2; right after building the app or between two requests) the caller mutates the list / set / dict '
        '(behind a keys view) they passed - add an item (another origin, "*", a header name), remove one, clear() - after construction; the attributes are read again (second correspondence op of the same call line) and the policy is probed with the added / removed items: '
        'the configuration is what was passed at construction. '
        '(3) Allow producers: real falcon.App / falcon.asgi.App with a random policy (constructor as in (0) or cors_enable=True), optionally a process_request component that pre-sets Allow / grant headers, sink_before_static_route default / False / True, '
        'a history of 0-5 add_route calls over three templates (re-registrations, suffix None / "" / alt / nosuch - rejected calls included -, resources with random on_<method>[_alt] sets incl. on_options, WebDAV and on_websocket, each responder setting '
        'a random subset of Allow / grant headers and returning or raising HTTPForbidden), 0-3 of two overlapping sinks and one static route in random order; 6 requests per app (72 % OPTIONS with Access-Control-Request-Method absent / empty / set, else GET / POST / DELETE / PROPFIND / HEAD / FOO / WEBSOCKET) '
        'to routed, sink, static and unrouted paths from granted / ungranted / absent origins; final status, the seven headers and the responder that ran are compared with Cd.exchange, and judged by an oracle that knows the implemented methods of the latest accepted registration. '
        '(4) HISTORIES OF ONE MIDDLEWARE OBJECT (both stacks): a CORSMiddleware built as in (1) (or the object App(cors_enable=True) built) serves 4-10 requests - direct process_response(_async) calls on real Request / Response objects with random pre-set headers, '
        'or requests through a real app (alone / behind another component / cors_enable) with a twin app lacking the policy; targets auto-OPTIONS route, own on_options with / without Allow, 405, unrouted. BETWEEN REQUESTS (probability 0 / 0.25 / 0.45 / 0.6 per history, repeated) '
        'the application ASSIGNS allow_origins / allow_credentials ("*" or a frozenset of 0-3 origins; a wildcard is narrowed to a set in 85 % of its assignments, a set widened to "*" in 40 %) or expose_headers (None, "", a name, a joined list) on the live object; '
        'each request is fed to Co.processF with the configuration CURRENT AT THAT REQUEST and judged by the statement against that configuration (counters hist_assign_<attribute>_<wildcard|set>_to_<wildcard|set>, hist_*_request_after_reassignment_across_the_wildcard_boundary). '
        'THE ORIGIN FIELD IN SEVERAL FIELD LINES: 20 % of the requests with an Origin carry the field line 2-3 times (a not-granted origin then a granted one, the reverse, two granted ones, the same line twice), placed by the harness the way a server does - ASGI: one (b"origin", value) pair per line anywhere in scope["headers"]; '
        'WSGI: one HTTP_ORIGIN joined with ", " or "," - not through falcon.testing; the oracle and the model get the combined field value computed by the harness from the lines (never req.get_header): not exactly one granted origin = no grant on either stack. '
        'non-trivial = request carries an Origin; distinct = distinct (level, stack, configuration, arrangement, request, plan)')
PARTIAL = ('Modelled and proved: process_response (Co), CORSMiddleware.__init__ (Cg.normalise) and the cors_enable wiring of App.__init__ / add_middleware with the CORS component inside the C03 call '
           'discipline (Cg + Pl.run_eq_spec), and the producers of the Allow header composed with the policy (Cd.exchange: Dp dispatch over the registration history, generated OPTIONS responder, 405 / 400 / 404, '
           'StaticRoute answering OPTIONS, application code as a sequence of set_header calls + return / raise) with CORSMiddleware as the only policy component (other middleware: Cg / Pl). '
           'Not modelled in Lean: which template the router resolves a path to and which sinks / static routes match it (inputs of Cd.exchange; C01 / C02), StaticRoute serving files (application-code shaped: no header the policy reads), '
           'the text order of the Allow list beyond Dp.sortM (tied by the correspondence, not restated); hooks and error handlers (in the C03 model every raise that a registered handler takes is the one action "raise"; that HTTPStatus of any status, HTTPError and handled exceptions all are '
           'such raises is tied by the wiring correspondence and judged by the full-stack oracle); constructor arguments outside the documented types (non-string items, unhashable items); the flag theorem Cg.response_call_of_member assumes that no process_response '
           'of a later-registered component raised (otherwise req_succeeded is False by then, as Pl.withFlags_flag states).')
JOBS = {'quick': 4, 'thorough': 16}

NAMED = [('acao', 'Access-Control-Allow-Origin'), ('acac', 'Access-Control-Allow-Credentials'), ('acam', 'Access-Control-Allow-Methods'),
         ('acah', 'Access-Control-Allow-Headers'), ('acma', 'Access-Control-Max-Age'), ('aceh', 'Access-Control-Expose-Headers'),
         ('allow', 'Allow')]
GRANTS = [n.lower() for k, n in NAMED if k != 'allow']
UNIVERSE = ['http://a', 'http://b', 'http://c']


def S(s):
    return '~' if s is None else '.' + s.encode('latin-1').hex()


def enc_origins(v):
    """normalised configuration value ('*' or a set) -> driver syntax"""
    if v == '*':
        return '*'
    return ','.join(S(x) for x in sorted(v)) or '-'


def randcase(rnd, name):
    r = rnd.random()
    return name if r < 0.6 else name.lower() if r < 0.8 else name.upper() if r < 0.9 else ''.join(c.upper() if rnd.random() < 0.5 else c.lower() for c in name)


# The DOCUMENTED signature (falcon API reference, "class falcon.CORSMiddleware(allow_origins='*', expose_headers=None,
# allow_credentials=None)"; the class docstring lists the settings in this order).  It is written down here, not read from the
# tree under test: a positional call means what the published signature says it means.
DOCUMENTED_ORDER = ('allow_origins', 'expose_headers', 'allow_credentials')
DOCUMENTED_DEFAULTS = {'allow_origins': '*', 'expose_headers': None, 'allow_credentials': None}


def call_documented(rnd, cls, kw):
    """Construct cls from the three settings in kw the way callers do: the first k (0..3) positionally in the documented order,
    the others by keyword (shuffled), a setting equal to its documented default sometimes not passed at all. -> (object, text)"""
    k = rnd.choice([0, 0, 1, 1, 2, 2, 3, 3])
    pos = [kw[n] for n in DOCUMENTED_ORDER[:k]]
    rest = [n for n in DOCUMENTED_ORDER[k:]
            if not ((kw[n] is None or isinstance(kw[n], str)) and kw[n] == DOCUMENTED_DEFAULTS[n] and rnd.random() < 0.5)]
    rnd.shuffle(rest)
    text = f'{k} positional' + (', keywords ' + ','.join(rest) if rest else '')
    try:
        return cls(*pos, **{n: kw[n] for n in rest}), text
    except Exception as e:              # every configuration generated here is legal: a refusal is reported by the caller
        return None, text + f' -> raised {type(e).__name__}: {e}'


def gen_config(rnd):
    """-> (kwargs for CORSMiddleware, normalised (ao, ac, ex) as the documentation defines them, JSON description)"""
    def shape(vals):
        k = rnd.choice(['list', 'tuple', 'set', 'frozenset', 'gen'])
        return {'list': list, 'tuple': tuple, 'set': set, 'frozenset': frozenset, 'gen': lambda v: (x for x in list(v))}[k](vals)
    r = rnd.random()
    if r < 0.3:
        ao_arg, ao = '*', '*'
    elif r < 0.5:
        o = rnd.choice(UNIVERSE)
        ao_arg, ao = o, {o}
    else:
        vals = rnd.sample(UNIVERSE, rnd.choice([0, 1, 2, 2, 3, 3]))
        ao_arg, ao = shape(vals), set(vals)
    r = rnd.random()
    if r < 0.25:
        ac_arg, ac = None, set()
    elif r < 0.5:
        ac_arg, ac = '*', '*'
    elif r < 0.65:
        o = rnd.choice(UNIVERSE)
        ac_arg, ac = o, {o}
    else:
        vals = rnd.sample(UNIVERSE, rnd.randint(0, 3))
        ac_arg, ac = shape(vals), set(vals)
    r = rnd.random()
    if r < 0.4:
        ex_arg, ex = None, None
    elif r < 0.5:
        ex_arg, ex = '', ''
    elif r < 0.7:
        ex_arg, ex = 'X-One', 'X-One'
    elif r < 0.8:
        ex_arg, ex = [], ''
    else:
        vals = rnd.sample(['X-One', 'X-Two', 'X-Three'], rnd.randint(1, 3))
        ex_arg, ex = rnd.choice([list, tuple])(vals), ', '.join(vals)
    kw = {'allow_origins': ao_arg, 'allow_credentials': ac_arg, 'expose_headers': ex_arg}
    desc = describe_cfg(kw)             # (a description: the caller's later mutations of the objects do not show in it)
    desc['normalised'] = {'allow_origins': ao if ao == '*' else sorted(ao), 'allow_credentials': ac if ac == '*' else sorted(ac), 'expose_headers': ex}
    return kw, (ao, ac, ex), desc


def caller_mutates(rnd, kw, p=1.0):
    """the caller goes on using the objects they passed: -> list of what was done (the policy must not notice)"""
    done = []
    for n in ('allow_origins', 'allow_credentials', 'expose_headers'):
        if isinstance(kw[n], (list, set)) and rnd.random() < p:
            extra = rnd.choice(UNIVERSE + ['http://d', 'http://zzz']) if n != 'expose_headers' else 'X-Late'
            for _ in range(rnd.choice([1, 1, 2])):
                m = mutate_arg(rnd, kw[n], extra if rnd.random() < 0.7 else None)
                if m:
                    done.append({n: m})
    return done


def describe_cfg(kw):
    out = {}
    for k, v in kw.items():
        if v is None or isinstance(v, str):
            out[k] = v
        elif isinstance(v, (set, frozenset)):
            out[k] = {type(v).__name__: sorted(v)}
        elif isinstance(v, (list, tuple)):
            out[k] = {type(v).__name__: list(v)}
        else:
            out[k] = 'generator (see normalised)'
    return out


def gen_origin(rnd):
    return rnd.choice([None, None, None, 'http://a', 'http://a', 'http://a', 'http://a', 'http://b', 'http://b', 'http://b', 'http://c', 'http://c',
                       'HTTP://A', 'http://A', 'http://a.evil', 'http://a/', '', 'null', 'http://d',
                       'http://', 'ttp://a', 'p://b', 'a',       # proper substrings of configured origins
                       'https://a', 'http://a:8080', 'http://b:80', 'https://c:443', 'http://d', 'http://127.0.0.1'])   # scheme / port variants (the request's own address may be any of them)


# ---- the request's OWN address (scheme, Host, port) is an input, correlated with the Origin: "exactly the configured origins" must hold
# whatever name / scheme / port the client used to reach the server - in particular when the Origin is that very address
ADDR_HOSTS = ['a', 'b', 'c', 'd', 'A', 'a.example', 'a.evil', 'falconframework.org', '127.0.0.1']
_ORIGIN_RE = re.compile(r'^(https?)://([^/:@?#\s]+)(?::(\d{1,5}))?$')


def own_origin(addr):
    """the origin of a page served from this address, as a browser writes it: default ports omitted (or exactly the Host header the
    client sent, when that spells the port out)"""
    if addr.get('hosthdr') is not None:
        return addr['scheme'] + '://' + addr['hosthdr']
    dflt = 443 if addr['scheme'] == 'https' else 80
    return addr['scheme'] + '://' + addr['host'] + ('' if addr['port'] in (None, dflt) else ':%d' % addr['port'])


def addr_of_origin(origin):
    """the address whose own origin is textually `origin` (None when the text is not scheme://host[:port] with a lower-case http(s) scheme)"""
    m = _ORIGIN_RE.match(origin or '')
    if not m:
        return None
    scheme, host, port = m.group(1), m.group(2), m.group(3)
    addr = {'scheme': scheme, 'host': host, 'port': None if port is None else int(port), 'hosthdr': None}
    if port is not None and (int(port) == (443 if scheme == 'https' else 80) or str(int(port)) != port):
        addr['hosthdr'] = host + ':' + port            # the client spelled the default port out
    return addr


def gen_addr(rnd, origin):
    """-> (address, relation of the Origin to it): the Origin IS the request's own scheme://host[:port] (45 % when it can be), differs from it
    only in scheme / port / letter case / an explicit default port (25 %), or is unrelated (random host x http/https x default / 80 / 443 / 8080)"""
    base = addr_of_origin(origin)
    r = rnd.random()
    if base is not None and r < 0.45:
        return base, 'own'
    if base is not None and r < 0.70:
        a = dict(base, hosthdr=None)
        k = rnd.randrange(4)
        if k == 0:
            a['scheme'] = 'https' if a['scheme'] == 'http' else 'http'
        elif k == 1:
            a['port'] = rnd.choice([8080, 8000, 81]) if a['port'] is None else None
        elif k == 2:
            a['host'] = a['host'].swapcase() if a['host'].swapcase() != a['host'] else a['host'] + '.'
        else:
            a['port'] = None
            a['hosthdr'] = a['host'] + (':443' if a['scheme'] == 'https' else ':80')
        return a, 'near'
    scheme = rnd.choice(['http', 'http', 'https'])
    return {'scheme': scheme, 'host': rnd.choice(ADDR_HOSTS), 'port': rnd.choice([None, None, None, 80, 443, 8080]), 'hosthdr': None}, 'unrelated'


def addr_kwargs(addr, hdrs):
    """keyword arguments of falcon.testing.create_environ / create_scope for a request that arrived at `addr`"""
    h = dict(hdrs)
    if addr.get('hosthdr') is not None:
        h['Host'] = addr['hosthdr']
    return {'scheme': addr['scheme'], 'host': addr['host'], 'port': addr['port'], 'headers': h}


DEFAULT_ADDR = {'scheme': 'http', 'host': 'falconframework.org', 'port': None, 'hosthdr': None}

# ---- the ARGUMENT OBJECTS of the constructor stay the caller's: after construction the caller goes on using (mutating) them
MUT_EXTRA = ['http://zzz', 'http://d', 'http://b', 'http://c', 'https://a', 'X-Late', '*']


def mutate_arg(rnd, target, extra=None):
    """one thing a caller does to a list / set / dict of their own after having passed it to CORSMiddleware: add an item, remove one, empty it.
    -> description (None: nothing mutable)"""
    if not isinstance(target, (list, set, dict)):
        return None
    r = rnd.random()
    if r < 0.55 or not target:
        x = extra if extra is not None else rnd.choice(MUT_EXTRA)
        if isinstance(target, list):
            target.append(x)
        elif isinstance(target, set):
            target.add(x)
        else:
            target[x] = None
        return {'added': x}
    if r < 0.8:
        x = rnd.choice(sorted(target))
        if isinstance(target, list):
            target.remove(x)
        elif isinstance(target, set):
            target.discard(x)
        else:
            del target[x]
        return {'removed': x}
    target.clear()
    return {'cleared': True}


def cfg_words(norm):
    ao, ac, ex = norm
    return f'ao={enc_origins(ao)} ac={enc_origins(ac)} ex={S(ex)}'


def snapshot(resp):
    """The CORS-relevant view of a real falcon Response: the seven named headers + every other header."""
    named = {k: resp.get_header(n) for k, n in NAMED}
    low = {n.lower() for _, n in NAMED}
    other = {k: v for k, v in resp.headers.items() if k.lower() not in low}
    return named, other


def model_io(norm, origin, method, acrm, acrh, ok, pre, post):
    """Render one process_response call as (driver line, expected reply)."""
    pnamed, pother = pre
    qnamed, qother = post
    names = sorted(set(pother))
    idx = {n: i for i, n in enumerate(names)}
    hd = [f'{k}:{S(v)}' for k, v in pnamed.items() if v is not None] + [f'o{idx[n]}:{S(pother[n])}' for n in names]
    line = (f"p {cfg_words(norm)} origin={S(origin)} opt={1 if method == 'OPTIONS' else 0} acrm={S(acrm)} acrh={S(acrh)} "
            f"ok={1 if ok else 0} hdrs={';'.join(hd) or '-'}")
    extra = sorted(set(qother) - set(pother))
    oth = [f'o{idx[n]}:{S(qother[n])}' for n in names if n in qother]
    exp = ' '.join(f'{k}={S(qnamed[k])}' for k, _ in NAMED) + ' other=' + (';'.join(oth) or '-')
    if extra:
        exp += ' UNEXPECTED-NEW-HEADERS=' + ','.join(extra)
    return line, exp


def run(ctx):
    import os
    part = os.environ.get('VERIF_C20_PART', 'ctor,wire,unit,apps,disp,hist')      # debugging knob: run only some of the levels
    if 'ctor' in part:
        _ctor(ctx)
    if 'wire' in part:
        _wire(ctx, asgi=False)
        _wire(ctx, asgi=True)
    if 'unit' in part:
        _unit(ctx, asgi=False)
        _unit(ctx, asgi=True)
    if 'apps' in part:
        _apps(ctx, asgi=False)
        _apps(ctx, asgi=True)
    if 'disp' in part:
        _dispatch(ctx, asgi=False)
        _dispatch(ctx, asgi=True)
    if 'hist' in part:
        _hist(ctx, asgi=False)
        _hist(ctx, asgi=True)


# ------------------------------------------------------------------ (0) CORSMiddleware.__init__ = Cg.normalise

CT_UNIVERSE = ['http://a', 'http://b', 'http://a.example', 'https://a', 'HTTP://A', 'http://a/', 'null', 'a', '']
EX_UNIVERSE = ['X-One', 'X-Two', 'X-Three', 'ETag', '']


def enc_arg(kind, val):
    """constructor argument -> driver syntax: ~ | s<S> | l- | l<S>,<S>,..  (val = the string, or the list of yielded items)"""
    if kind == 'none':
        return '~'
    if kind == 'str':
        return 's' + S(val)
    return 'l' + (','.join(S(x) for x in val) or '-')


def enc_set_attr(v):
    """a normalised attribute of the real object -> driver syntax (anything but '*' / a (frozen)set shows up as a mismatch)"""
    if isinstance(v, str):
        return '*' if v == '*' else f'NOT-A-SET:str:{v!r}'
    if isinstance(v, (set, frozenset)):
        return ','.join(sorted(S(x) for x in v)) or '-'
    return f'NOT-A-SET:{type(v).__name__}'


def gen_ctor_arg(rnd, universe, allow_none, p_none, may_star):
    """-> (kind, python value to pass, items as the model sees them / the string, JSON description)"""
    r = rnd.random()
    if allow_none and r < p_none:
        return 'none', None, None, None
    if r < 0.22 and may_star:
        return 'str', '*', '*', '*'
    if r < 0.45:
        s = rnd.choice(universe)
        return 'str', s, s, s
    k = rnd.choice([0, 1, 1, 2, 2, 3, 4])
    items = [rnd.choice(universe) for _ in range(k)]            # repetitions on purpose
    if may_star and rnd.random() < 0.12:
        items.insert(rnd.randint(0, len(items)), '*')
    shape = rnd.choice(['list', 'tuple', 'set', 'set', 'frozenset', 'gen', 'dictkeys'])
    if shape == 'list':
        obj = list(items)
        CALLER_OBJECT[id(obj)] = obj
    elif shape == 'tuple':
        obj = tuple(items)
    elif shape == 'gen':
        obj = (x for x in list(items))
    elif shape == 'dictkeys':
        d = dict.fromkeys(items)
        obj = d.keys()
        items = list(obj)
        CALLER_OBJECT[id(obj)] = d                              # the caller's dict behind the keys view
    else:
        obj = set(items) if shape == 'set' else frozenset(items)
        items = list(obj)                                       # the order this very object iterates in
        if shape == 'set':
            CALLER_OBJECT[id(obj)] = obj
    return 'iter', obj, items, {shape: list(items)}


CALLER_OBJECT = {}      # id(argument object) -> the caller's own mutable container behind it (list / set / dict), for the current case


def named_by(kind, val, p):
    """the documented reading of an argument: the wildcard literal, that very string, or an iterable holding that very string"""
    if kind == 'none':
        return False
    if kind == 'str':
        return val == '*' or val == p
    return any(x == p for x in val)


def _probe_rules(ak, aitems, ek, eitems, ck, citems, p_, acao, acac, aceh):
    """the statement for one probe Origin p_ against the INTENDED settings (documented reading of the call)"""
    allowed = named_by(ak, aitems, p_)
    cred = allowed and named_by(ck, citems, p_)
    why = None
    if not allowed:
        if (acao, acac, aceh) != (None, None, None):
            why = f'Origin {p_!r} is not named by allow_origins but got ACAO={acao!r} ACAC={acac!r} ACEH={aceh!r}'
    elif cred:
        if acac != 'true' or acao != p_:
            why = f'Origin {p_!r} is configured for credentials but got ACAO={acao!r} ACAC={acac!r}'
    else:
        if acac is not None:
            why = f'Origin {p_!r} is not named by allow_credentials but got Access-Control-Allow-Credentials={acac!r}'
        elif acao != ('*' if (ak == 'str' and aitems == '*') else p_):
            why = f'allowed Origin {p_!r} got Access-Control-Allow-Origin={acao!r}'
    if why is None and allowed:
        want = None if ek == 'none' else eitems if ek == 'str' else ', '.join(eitems)
        if (aceh or None) != (want or None):
            why = f'Access-Control-Expose-Headers={aceh!r}, configured {want!r}'
    return why, allowed, cred


HOWS = ['direct'] * 10 + ['App(middleware=[mw])', 'App(middleware=mw)', 'App(middleware=(mw,))', 'add_middleware(mw)', 'add_middleware([mw])',
                          'App(middleware=[other, mw])']


def _ctor(ctx):
    import asyncio
    import falcon
    import falcon.asgi
    import falcon.testing as ft
    rnd = ctx.rng
    sess = ctx.session('CORSMiddleware(*positional, **keyword) (argument binding, normalised attributes / constructor errors, every argument shape) = Cg.construct (Cg.bindArgs, Cg.normalise)', 'crdriver')
    loop = asyncio.new_event_loop()

    class ThingW:
        def on_get(self, req, resp):
            resp.text = 'thing'

    class ThingA:
        async def on_get(self, req, resp):
            resp.text = 'thing'

    class OtherW:
        def process_request(self, req, resp):
            pass

    class OtherA:
        async def process_request(self, req, resp):
            pass

    def mkapp(asgi, how, mw):
        AppT, Thing, Other = (falcon.asgi.App, ThingA, OtherA) if asgi else (falcon.App, ThingW, OtherW)
        if how == 'App(cors_enable=True)':
            app = AppT(cors_enable=True)
        elif how == 'App(middleware=[mw])':
            app = AppT(middleware=[mw])
        elif how == 'App(middleware=mw)':
            app = AppT(middleware=mw)
        elif how == 'App(middleware=(mw,))':
            app = AppT(middleware=(mw,))
        elif how == 'App(middleware=[other, mw])':
            app = AppT(middleware=[Other(), mw], independent_middleware=rnd.random() < 0.5)
        elif how == 'add_middleware(mw)':
            app = AppT()
            app.add_middleware(mw)
        else:
            app = AppT(middleware=[Other()])
            app.add_middleware([mw])
        app.add_route('/x', Thing())
        return app

    try:
        for ci in range(ctx.n(6000, 40000)):
            CALLER_OBJECT.clear()
            # settings legal for several parameters (the wildcard, origins as exposed-header names and the other way round), so that
            # a setting that lands in the wrong parameter is visible
            ak, aobj, aitems, adesc = gen_ctor_arg(rnd, CT_UNIVERSE if rnd.random() < 0.9 else EX_UNIVERSE, True, 0.03, True)
            ek, eobj, eitems, edesc = gen_ctor_arg(rnd, EX_UNIVERSE if rnd.random() < 0.6 else CT_UNIVERSE, True, 0.3, True)
            ck, cobj, citems, cdesc = gen_ctor_arg(rnd, CT_UNIVERSE if rnd.random() < 0.85 else EX_UNIVERSE, True, 0.2, True)
            vals = {'allow_origins': (ak, aobj, aitems, adesc), 'expose_headers': (ek, eobj, eitems, edesc), 'allow_credentials': (ck, cobj, citems, cdesc)}
            # ---- the call: k settings positionally (documented order), the others by keyword or - when that is what the documented
            #      default says anyway - left out; App(cors_enable=True) is the call without arguments
            how = rnd.choice(HOWS)
            r = rnd.random()
            if r < 0.04:
                how, k, passed = 'App(cors_enable=True)', 0, []
            elif r < 0.07:
                k, passed = 0, []                                                  # CORSMiddleware()
            else:
                k = rnd.choice([0, 0, 1, 1, 2, 2, 2, 3, 3])
                passed = [n for n in DOCUMENTED_ORDER[k:] if rnd.random() < 0.7]
            for n in DOCUMENTED_ORDER[k:]:
                if n not in passed:                                                # not passed: the documented default is meant
                    d = DOCUMENTED_DEFAULTS[n]
                    vals[n] = ('none', None, None, None) if d is None else ('str', d, d, d)
            bad_call = None
            if how != 'App(cors_enable=True)' and rnd.random() < 0.02:
                bad_call = 'fourth positional argument' if (k == 3 and rnd.random() < 0.5) else 'parameter bound twice' if k else None
            (ak, aobj, aitems, adesc), (ek, eobj, eitems, edesc), (ck, cobj, citems, cdesc) = (vals[n] for n in DOCUMENTED_ORDER)
            pos = [vals[n][1] for n in DOCUMENTED_ORDER[:k]]
            pos_enc = [enc_arg(vals[n][0], vals[n][2]) for n in DOCUMENTED_ORDER[:k]]
            kws = list(passed)
            rnd.shuffle(kws)
            kw = {n: vals[n][1] for n in kws}
            kw_enc = {n: enc_arg(vals[n][0], vals[n][2]) for n in kws}
            if bad_call == 'fourth positional argument':
                pos.append(None)
                pos_enc.append('~')
            elif bad_call == 'parameter bound twice':
                n = rnd.choice(DOCUMENTED_ORDER[:k])
                kw[n] = None
                kw_enc[n] = '~'
            case = {'level': 'constructor', 'call': {'how': how, 'positional': [vals[n][3] for n in DOCUMENTED_ORDER[:k]] + (['None'] if bad_call == 'fourth positional argument' else []),
                                                       'keyword': {n: (vals[n][3] if n in kws else None) for n in kw}},
                    'documented_meaning': {'allow_origins': adesc, 'expose_headers': edesc, 'allow_credentials': cdesc}}
            sess.case(case)
            mw = None
            asgi = rnd.random() < 0.5
            app = None
            try:
                if how == 'App(cors_enable=True)':
                    app = mkapp(asgi, how, None)
                    mw = next(m for m in app._unprepared_middleware if isinstance(m, falcon.CORSMiddleware))
                else:
                    mw = falcon.CORSMiddleware(*pos, **kw)
                    if how != 'direct':
                        app = mkapp(asgi, how, mw)
                got = f'cfg ao={enc_set_attr(mw.allow_origins)} ac={enc_set_attr(mw.allow_credentials)} ex={S(mw.expose_headers)}'
                outcome = 'accepted'
            except ValueError as e:
                m = str(e)
                outcome = 'wildcard-origins' if 'allow_origins' in m else 'wildcard-credentials' if 'allow_credentials' in m else 'ValueError'
                got = 'err ' + outcome
            except TypeError:
                outcome = 'origins-not-iterable' if (ak == 'none' and not bad_call) else 'TypeError'
                got = 'err ' + outcome
            case['constructor_outcome'] = outcome
            call_line = f"call pos={'/'.join(pos_enc) or '-'} kao={kw_enc.get('allow_origins', '!')} kex={kw_enc.get('expose_headers', '!')} kac={kw_enc.get('allow_credentials', '!')}"
            sess.op(call_line, got)
            # ---- the argument objects are the caller's: after construction the caller goes on using them (add / remove / clear); the configuration
            #      is what was passed at construction, so the attributes - and the policy, probed below - are those of the original call
            forced = []
            if mw is not None and not bad_call and rnd.random() < 0.5:
                mutated = []
                for n in DOCUMENTED_ORDER:
                    tgt = CALLER_OBJECT.get(id(vals[n][1]))
                    if tgt is not None and (tgt is vals[n][1] or isinstance(tgt, dict)) and (n in kws or n in DOCUMENTED_ORDER[:k]) and rnd.random() < 0.8:
                        before = list(tgt)
                        for _ in range(rnd.choice([1, 1, 2])):
                            m = mutate_arg(rnd, tgt)
                            if m:
                                mutated.append({n: m})
                                if 'added' in m and m['added'] != '*':
                                    forced.append(m['added'])
                        forced.extend(x for x in before if x != '*' and x not in tgt)
                if mutated:
                    case['caller_mutations_after_construction'] = mutated
                    ctx.count('ctor_caller_mutated_argument_objects_after_construction')
                    sess.op(call_line, f'cfg ao={enc_set_attr(mw.allow_origins)} ac={enc_set_attr(mw.allow_credentials)} ex={S(mw.expose_headers)}')
            ctx.count('ctor_' + outcome)
            ctx.count(f'ctor_call_{"malformed" if bad_call else str(k) + "_positional"}')
            ctx.count(f'ctor_how_{how}')
            ctx.count(f'ctor_shapes_ao={ak if ak != "iter" else next(iter(adesc))}')
            star_inside = (ak == 'iter' and '*' in aitems) or (ck == 'iter' and '*' in citems)
            if bad_call:
                ctx.oracle('constructor: a call that does not fit the documented signature (4 positional settings / a setting passed twice) is a TypeError',
                           outcome == 'TypeError', None if outcome == 'TypeError' else f'{bad_call}: constructor outcome {outcome}', case)
                ctx.seen(('ctor-bad', bad_call, k, str(case['call'])), True)
                continue
            # ---- statement, constructor part: the wildcard is a configuration only as a bare string
            if ak != 'none':
                ctx.oracle('constructor: "*" inside an allow_origins / allow_credentials iterable is refused (documented ValueError); every other configuration of the documented types is accepted',
                           (outcome != 'accepted') == star_inside,
                           None if (outcome != 'accepted') == star_inside else f'"*" inside an iterable: {star_inside}, constructor outcome: {outcome}', case)
            if mw is not None and not star_inside:
                # ---- statement, policy part, from the ARGUMENTS as the documented signature reads them: probe with look-alike origins
                base = [x for x in ([aitems] if ak == 'str' else aitems or []) + ([citems] if ck == 'str' else citems or [])
                        + ([eitems] if ek == 'str' else eitems or []) if x != '*']
                probes = set(base)
                for b in base:
                    probes.update([b[:-1], b[1:], b + '.evil', b + '/', b.upper(), b.lower(), b[:len(b) // 2]])
                probes.update(['http://zzz', 'http://a', 'a'])
                probes.discard('*')
                forced = [x for x in dict.fromkeys(forced) if isinstance(x, str)][:3]
                probes.update(['https://a', 'http://b:80', 'http://a.example:8080'])
                for p_ in forced + rnd.sample(sorted(probes), min(len(probes), 6 if app is None else 3)):
                    addr, rel = gen_addr(rnd, p_)          # the request may have arrived at the very address the Origin names
                    if app is not None:
                        if not p_.isascii() or p_ != p_.strip():
                            continue
                        _, hd, _ = _http_call(asgi, loop, app, 'GET', '/x', {'Origin': p_}, addr)
                        acao, acac, aceh = (hd.get(n) for n in ('access-control-allow-origin', 'access-control-allow-credentials', 'access-control-expose-headers'))
                    else:
                        asgi = rnd.random() < 0.5
                        if asgi:
                            async def receive():
                                return {'type': 'http.disconnect'}
                            req = falcon.asgi.Request(ft.create_scope(method='GET', path='/x', **addr_kwargs(addr, {'Origin': p_})), receive)
                            resp = falcon.asgi.Response()
                            loop.run_until_complete(mw.process_response_async(req, resp, None, True))
                        else:
                            req = falcon.Request(ft.create_environ(method='GET', path='/x', **addr_kwargs(addr, {'Origin': p_})))
                            resp = falcon.Response()
                            mw.process_response(req, resp, None, True)
                        acao, acac, aceh = (resp.get_header(n) for n in ('Access-Control-Allow-Origin', 'Access-Control-Allow-Credentials', 'Access-Control-Expose-Headers'))
                    why, allowed, cred = _probe_rules(ak, aitems, ek, eitems, ck, citems, p_, acao, acac, aceh)
                    pc = dict(case, probe_origin=p_, request_arrived_at=own_origin(addr), origin_vs_own_address=rel, stack='asgi' if asgi else 'wsgi',
                              probed='GET /x through the app' if app is not None else 'process_response')
                    if rel != 'unrelated':
                        ctx.count(f'ctor_probe_origin_{"is_the_request_own_address" if rel == "own" else "near_the_request_own_address"}_' + ('allowed' if allowed else 'refused'))
                    if p_ in forced:
                        ctx.count('ctor_probe_of_an_item_the_caller_added_or_removed_later')
                    ctx.oracle('constructed middleware (any calling convention, read by the documented signature; directly and inside an app): an Origin is granted iff it is literally named by allow_origins (whole string, case-sensitive), credentials iff also named by allow_credentials, expose_headers joined with ", "',
                               why is None, why, pc)
                    ctx.count('ctor_probe_' + ('credentialed' if cred else 'allowed' if allowed else 'refused'))
            ctx.seen(('ctor', how, k, tuple(kws), ak, str(aitems), ek, str(eitems), ck, str(citems), str(adesc), str(cdesc)), outcome == 'accepted' or star_inside)
    finally:
        loop.close()
    sess.finish()


# ------------------------------------------------------------------ (0b) cors_enable wiring = Cg.appInit / Cg.runAdds, and Pl.run on that stack

def _http_call(asgi, loop, app, method, path, hdrs, addr=DEFAULT_ADDR):
    """one request against a real app -> (status, {lower name: value}, body)"""
    import asyncio
    from runner import alarm
    import falcon.testing as ft
    if not asgi:
        env = ft.create_environ(method=method, path=path, **addr_kwargs(addr, hdrs))
        st = []
        with alarm(30):
            it = app(env, lambda s, h, e=None: st.append((s, h)))
            try:
                body = b''.join(it)
            finally:
                if hasattr(it, 'close'):
                    it.close()
        hd = {}
        for k, v in st[0][1]:
            hd[k.lower()] = (hd[k.lower()] + ', ' + v) if k.lower() in hd else v
        return int(st[0][0].split()[0]), hd, body
    scope = ft.create_scope(method=method, path=path, **addr_kwargs(addr, hdrs))
    events = [{'type': 'http.request', 'body': b'', 'more_body': False}, {'type': 'http.disconnect'}]
    sent = []

    async def go():
        never = asyncio.get_running_loop().create_future()

        async def receive():
            if events:
                return events.pop(0)
            await never

        async def send(e):
            sent.append(e)
        await app(scope, receive, send)
    loop.run_until_complete(asyncio.wait_for(go(), 30))
    start = next(e for e in sent if e['type'] == 'http.response.start')
    hd = {}
    for k, v in start['headers']:
        k = k.decode('latin-1').lower()
        v = v.decode('latin-1')
        hd[k] = (hd[k] + ', ' + v) if k in hd else v
    return start['status'], hd, b''.join(e.get('body', b'') for e in sent if e['type'] == 'http.response.body')


def _wire(ctx, asgi):
    import asyncio
    import os
    import shutil
    import tempfile
    from runner import Hang
    import falcon
    import falcon.asgi
    rnd = ctx.rng
    stack = 'asgi' if asgi else 'wsgi'
    sess = ctx.session(f'{stack} App(cors_enable, middleware) / add_middleware: accepted or refused, resulting stack, and the process_response calls (resource, req_succeeded) of one request = Cg.appInit / Cg.runAdds / Pl.run', 'crdriver')
    loop = asyncio.new_event_loop() if asgi else None
    root = tempfile.mkdtemp(prefix='c20wire_')
    with open(os.path.join(root, 'f.txt'), 'w') as f:
        f.write('static file')
    PLAN = {'fail': None, 'rfail': None, 'pfail': None, 'how': 'raise', 'resp': 'ret'}
    LOG = []
    THROWS = ['raise', 'raise', 'error+allow', 'exc', 'status200', 'status200+allow', 'status204+allow', 'status503', 'status503+allow', 'status401+allow']
    BUILTIN = [False]       # the app under test was built with cors_enable: the only CORSMiddleware in it is the framework's own

    class LogMixin:
        """The framework's own CORSMiddleware cannot be wrapped without touching the code under test; it is observed at the
        Response interface: it alone sets Access-Control-Allow-Origin, and deletes Allow exactly when it takes the preflight branch."""
        def set_header(self, name, value):
            if BUILTIN[0] and name.lower() == 'access-control-allow-origin':
                LOG.append(['C', None, False])
            super().set_header(name, value)

        def delete_header(self, name):
            if BUILTIN[0] and name.lower() == 'allow' and LOG and LOG[-1][0] == 'C':
                LOG[-1][2] = True
            super().delete_header(name)

    class UserCORS(falcon.CORSMiddleware):
        def process_response(self, req, resp, resource, req_succeeded):
            LOG.append(['u', resource is not None, req_succeeded])
            super().process_response(req, resp, resource, req_succeeded)

    class WireBoom(Exception):
        pass

    def throw(how, where):
        """every way a stage can raise: the flag handed to process_response must be False after any of them"""
        LOG.append(['!', where, how])
        if how == 'raise':
            raise falcon.HTTPBadRequest()
        if how == 'error+allow':
            raise falcon.HTTPMethodNotAllowed(['GET', 'PUT'])
        if how == 'exc':
            raise WireBoom()
        code = int(how[6:9])                                      # 'status200' / 'status204+allow' / 'status503+allow' ...
        raise falcon.HTTPStatus(code, headers={'Allow': 'GET, POST'} if how.endswith('+allow') else None)

    def behave(req, resp):
        resp.set_header('Allow', 'GET')
        if PLAN['resp'] != 'ret':
            throw(PLAN['resp'], 'responder')
        resp.text = 'ok'

    if asgi:
        class LogResp(LogMixin, falcon.asgi.Response):
            pass

        class Res:
            async def on_get(self, req, resp):
                behave(req, resp)
            on_options = on_get

        async def sink(req, resp, **kw):
            behave(req, resp)

        class Other:
            def __init__(self, n):
                self.n = n

            async def process_request(self, req, resp):
                if PLAN['fail'] == self.n:
                    throw(PLAN['how'], f'o{self.n}.process_request')

            async def process_resource(self, req, resp, resource, params):
                if PLAN['rfail'] == self.n:
                    throw(PLAN['how'], f'o{self.n}.process_resource')

            async def process_response(self, req, resp, resource, ok):
                LOG.append([f'o{self.n}', resource is not None, ok])
                if PLAN['pfail'] == self.n:
                    throw(PLAN['how'], f'o{self.n}.process_response')

        async def on_wireboom(req, resp, ex, params, **kw):
            resp.status = falcon.HTTP_500
        AppT = falcon.asgi.App
    else:
        class LogResp(LogMixin, falcon.Response):
            pass

        class Res:
            def on_get(self, req, resp):
                behave(req, resp)
            on_options = on_get

        def sink(req, resp, **kw):
            behave(req, resp)

        class Other:
            def __init__(self, n):
                self.n = n

            def process_request(self, req, resp):
                if PLAN['fail'] == self.n:
                    throw(PLAN['how'], f'o{self.n}.process_request')

            def process_resource(self, req, resp, resource, params):
                if PLAN['rfail'] == self.n:
                    throw(PLAN['how'], f'o{self.n}.process_resource')

            def process_response(self, req, resp, resource, ok):
                LOG.append([f'o{self.n}', resource is not None, ok])
                if PLAN['pfail'] == self.n:
                    throw(PLAN['how'], f'o{self.n}.process_response')

        def on_wireboom(req, resp, ex, params):
            resp.status = falcon.HTTP_500
        AppT = falcon.App

    counter = [0]

    def gen_mwarg(p_user):
        """-> (driver syntax, description, factory of the python object)"""
        def comp():
            if rnd.random() < p_user:
                return 'u'
            counter[0] += 1
            return f'o{counter[0]}'
        r = rnd.random()
        if r < 0.15:
            return '~', None, lambda: None
        if r < 0.35:
            k = comp()
            return 's' + k, {'bare component': k}, lambda: mk(k)
        ks = [comp() for _ in range(rnd.choice([0, 1, 1, 2, 2, 3]))]
        shape = rnd.choice(['list', 'tuple', 'gen'])
        return 'l' + (','.join(ks) or '-'), {shape: ks}, lambda: {'list': list, 'tuple': tuple, 'gen': lambda v: (x for x in v)}[shape]([mk(k) for k in ks])

    def mk(k):
        return UserCORS() if k == 'u' else Other(int(k[1:]))

    def render(log, pf):
        return ','.join(f'C:?:{(1 if e[2] else 0) if pf else "?"}' if e[0] == 'C' else f'{e[0]}:{1 if e[1] else 0}:{1 if e[2] else 0}' for e in log if e[0] != '!') or '-'

    try:
        for ai in range(ctx.n(1200, 8000)):
            ce = rnd.random() < 0.65
            indep = rnd.random() < 0.55
            counter[0] = 0
            p_user = rnd.choice([0.0, 0.0, 0.15, 0.3])
            a_enc, a_desc, a_make = gen_mwarg(p_user)
            adds = [gen_mwarg(rnd.choice([0.0, 0.3])) for _ in range(rnd.choice([0, 0, 1, 2, 3]))]
            kind = rnd.choice(['route', 'route', 'nomethod', 'sink', 'static', 'nothing'])
            resp_act = rnd.choice(['ret', 'ret', 'ret'] + THROWS)
            pf = kind != 'nomethod' and rnd.random() < 0.6
            if kind == 'static' and (pf or resp_act != 'ret'):
                resp_act = 'ret' if pf else 'raise'   # the static route answers OPTIONS (Allow: GET) without looking at the file, so it cannot fail; otherwise a missing file is a 404
            # which stage of which other component raises (process_request / process_resource / process_response), and what
            fail = rfail = pfail = None
            how = rnd.choice(THROWS)
            if counter[0]:
                for _ in range(rnd.choice([0, 0, 1, 1, 1, 2])):
                    st_ = rnd.choice(['req', 'rsrc', 'rsrc', 'resp'])
                    n_ = rnd.randint(1, counter[0])
                    if st_ == 'req':
                        fail = n_
                    elif st_ == 'rsrc':
                        rfail = n_
                    else:
                        pfail = n_
            method = 'OPTIONS' if pf else 'DELETE' if kind == 'nomethod' else 'GET'
            path = {'route': '/r', 'nomethod': '/r', 'sink': '/sink/x', 'static': '/static/f.txt' if resp_act == 'ret' else '/static/missing', 'nothing': '/none'}[kind]
            hdrs = {'Origin': 'http://a'}
            if pf:
                hdrs['Access-Control-Request-Method'] = 'GET'
            case = {'level': 'wiring', 'stack': stack, 'cors_enable': ce, 'independent_middleware': indep, 'middleware': a_desc,
                    'add_middleware_calls': [d for _, d, _ in adds], 'request': {'method': method, 'path': path, 'headers': hdrs},
                    'target': kind, 'responder': resp_act, 'process_request_raising_in': None if fail is None else f'o{fail}',
                    'process_resource_raising_in': None if rfail is None else f'o{rfail}', 'process_response_raising_in': None if pfail is None else f'o{pfail}',
                    'middleware_raises': how}
            line = (f"stack ce={1 if ce else 0} indep={1 if indep else 0} arg={a_enc} adds={'/'.join(e for e, _, _ in adds) or '-'} "
                    f"target={'sink' if kind == 'static' else kind} resp={'ret' if resp_act == 'ret' else 'raise'} fail={'-' if fail is None else fail} pf={1 if pf else 0} "
                    f"rsrc=1 rfail={'-' if rfail is None else rfail} pfail={'-' if pfail is None else pfail}")
            sess.case(case)
            user_in_arg = 'u' in a_enc
            why = None
            app = None
            try:
                app = AppT(middleware=a_make(), independent_middleware=indep, cors_enable=ce, response_type=LogResp)
            except ValueError:
                got = 'init=err'
            if (app is None) != (ce and user_in_arg):
                why = f'cors_enable={ce}, caller passed a CORSMiddleware: {user_in_arg}, but the constructor ' + ('raised ValueError' if app is None else 'accepted it')
            if app is not None:
                oks = []
                for e, d, make in adds:
                    try:
                        app.add_middleware(make())
                        oks.append(1)
                    except ValueError:
                        oks.append(0)
                    if why is None and (oks[-1] == 0) != (ce and 'u' in e):
                        why = f'cors_enable={ce}: add_middleware({d}) was ' + ('accepted' if oks[-1] else 'refused')
                app.add_route('/r', Res())
                app.add_sink(sink, '/sink')
                app.add_static_route('/static', root)
                app.add_error_handler(WireBoom, on_wireboom)
                BUILTIN[0] = ce
                try:
                    # request 1, nothing fails: the response stack bottom-up, i.e. the middleware stack in reverse
                    PLAN.update(fail=None, rfail=None, pfail=None, how=how, resp='ret')
                    del LOG[:]
                    _http_call(asgi, loop, app, 'OPTIONS', '/r', {'Origin': 'http://a', 'Access-Control-Request-Method': 'GET'})
                    stack_seen = [e[0] for e in reversed(LOG)]
                    n_c1 = sum(1 for e in LOG if e[0] == 'C')
                    # request 2: the planned one
                    PLAN.update(fail=fail, rfail=rfail, pfail=pfail, resp=resp_act)
                    del LOG[:]
                    st2, hd2, _ = _http_call(asgi, loop, app, method, path, hdrs)
                    calls = [list(e) for e in LOG]
                    case['raised'] = [f'{e[1]}: {e[2]}' for e in calls if e[0] == '!']
                    got = f"init=ok adds={''.join(map(str, oks)) or '-'} stack={','.join(stack_seen) or '-'} calls={render(calls, pf)}"
                    case['observed'] = {'stack': stack_seen, 'process_response_calls': calls, 'status': st2,
                                        'access-control-allow-origin': hd2.get('access-control-allow-origin')}
                    if ce and why is None:
                        n_c2 = sum(1 for e in calls if e[0] == 'C')
                        # dependent mode may skip the CORS component when a component of the constructor's list rejected the request
                        # (whether it does is a matter of stack order: carried by the correspondence, not demanded by the statement);
                        # components added later can never keep it from running
                        before = [int(k[1:]) for k in ([a_enc[1:]] if a_enc[0] == 's' else a_enc[1:].split(',')) if k.startswith('o')]
                        may_skip = not indep and fail in before
                        expect = n_c2 if (may_skip and n_c2 == 0) else 1
                        # the exchange succeeded (as far as the CORS component can know) iff nothing raised before its process_response ran:
                        # no planned stage (recorded by the harness at the raise) and not the framework's own 404 / 405 responder
                        ic = next((i for i, e in enumerate(calls) if e[0] == 'C'), None)
                        raised_before = [e for e in calls[:ic if ic is not None else 0] if e[0] == '!']
                        fw_raises = kind in ('nothing', 'nomethod') or (kind == 'static' and resp_act != 'ret')
                        succeeded = not raised_before and not fw_raises
                        if n_c1 != 1 or n_c2 != expect:
                            why = f'cors_enable app: the CORS policy ran {n_c1} time(s) in a clean request and {n_c2} time(s) in the planned one, expected exactly 1' + (' (or 0: dependent mode behind a rejecting process_request)' if may_skip else '')
                        elif expect and pf and ic is not None and calls[ic][2] != succeeded:
                            why = (f'cors_enable app: preflight patching ran = {calls[ic][2]} but the OPTIONS exchange ' +
                                   ('succeeded (nothing raised)' if succeeded else 'did not succeed: ' + ('; '.join(f'{e[1]} raised {e[2]}' for e in raised_before) or 'the framework answered 404 / 405')) + f' (final status {st2})')
                except Hang:
                    got = 'hang'
                    why = why or 'request did not return (hang)'
                except (asyncio.TimeoutError, TimeoutError):
                    got = 'timeout'
                    why = why or 'request did not return (timeout)'
                finally:
                    BUILTIN[0] = False
            sess.op(line, got)
            ctx.oracle('cors_enable wiring: a CORSMiddleware next to cors_enable is refused (constructor and add_middleware), otherwise exactly one CORS policy runs per request - once, with req_succeeded = the exchange succeeded - for routed / sink / static / unrouted / failed requests (dependent mode may skip it behind a rejecting process_request)',
                       why is None, why, case)
            ctx.seen(('wire', stack, line), app is not None or (ce and user_in_arg))
            ctx.count(f'wire_{stack}_' + ('refused' if app is None else f'ce={int(ce)}_{kind}_{("ret" if resp_act == "ret" else "raise") if kind not in ("nomethod", "nothing") else "-"}'))
            if app is not None:
                for e in case.get('raised', []):
                    ctx.count('wire_raised_' + e.split('.')[-1].replace(': ', '_by_'))
    finally:
        if loop is not None:
            loop.close()
        shutil.rmtree(root, ignore_errors=True)
    sess.finish()


# ------------------------------------------------------------------ (1) process_response on real Request/Response objects

def _unit(ctx, asgi):
    import asyncio
    import falcon
    import falcon.asgi
    import falcon.testing as ft
    rnd = ctx.rng
    stack = 'asgi' if asgi else 'wsgi'
    sess = ctx.session(f'{stack} CORSMiddleware.process_response{"_async" if asgi else ""} on real Request/Response = Co.processF', 'crdriver')
    loop = asyncio.new_event_loop() if asgi else None
    PRE_VALUES = {'acao': ['http://preset', '*', 'http://a'], 'acac': ['true', 'false'], 'acam': ['PRESET'], 'acah': ['X-PH'],
                  'acma': ['5'], 'aceh': ['X-P'], 'allow': ['GET, POST', 'GET', '']}
    try:
        for ci in range(ctx.n(40000, 200000)):
            kw, norm, desc = gen_config(rnd)
            ao, ac, ex = norm
            mw, desc['constructed'] = call_documented(rnd, falcon.CORSMiddleware, kw)
            if mw is None:
                ctx.oracle('a documented constructor call with legal settings is accepted', False, desc['constructed'], {'level': 'unit', 'stack': stack, 'config': desc})
                continue
            # the objects handed to the constructor stay the caller's, who goes on using them: the policy is what was configured at construction
            mutated = caller_mutates(rnd, kw) if rnd.random() < 0.3 else []
            if mutated:
                desc['caller_mutations_after_construction'] = mutated
                ctx.count('unit_caller_mutated_argument_objects_after_construction')
            origin = gen_origin(rnd)
            addr, rel = gen_addr(rnd, origin)
            method = rnd.choice(['GET', 'POST', 'OPTIONS', 'OPTIONS', 'OPTIONS', 'HEAD', 'DELETE'])
            acrm = rnd.choice([None, 'GET', 'GET', 'PUT', ''])
            acrh = rnd.choice([None, None, 'X-H', 'X-H, Content-Type', ''])
            ok = rnd.random() < 0.75
            hdrs = {}
            if origin is not None:
                hdrs[randcase(rnd, 'Origin')] = origin
            if acrm is not None:
                hdrs[randcase(rnd, 'Access-Control-Request-Method')] = acrm
            if acrh is not None:
                hdrs[randcase(rnd, 'Access-Control-Request-Headers')] = acrh
            if asgi:
                async def receive():
                    return {'type': 'http.disconnect'}
                req = falcon.asgi.Request(ft.create_scope(method=method, path='/x', **addr_kwargs(addr, hdrs)), receive)
                resp = falcon.asgi.Response()
            else:
                req = falcon.Request(ft.create_environ(method=method, path='/x', **addr_kwargs(addr, hdrs)))
                resp = falcon.Response()
            if origin is not None and rel == 'own' and req.scheme + '://' + req.netloc != origin:
                ctx.count('harness_request_does_not_report_the_address_it_was_built_for')
            preset = {}
            for k, n in NAMED:
                if rnd.random() < (0.45 if k == 'allow' else 0.12):
                    v = rnd.choice(PRE_VALUES[k])
                    resp.set_header(randcase(rnd, n), v)
                    preset[k] = v
            for n in rnd.sample(['X-Custom', 'Vary', 'Content-Type', 'Cache-Control'], rnd.choice([0, 0, 1, 2])):
                resp.set_header(randcase(rnd, n), 'v-' + n.lower())
            pre = snapshot(resp)
            if asgi:
                loop.run_until_complete(mw.process_response_async(req, resp, None, ok))
            else:
                mw.process_response(req, resp, None, ok)
            post = snapshot(resp)
            case = {'level': 'unit', 'stack': stack, 'config': desc, 'request': {'method': method, 'headers': hdrs, 'arrived_at': own_origin(addr), 'origin_vs_own_address': rel}, 'response_headers_before': {**{n: pre[0][k] for k, n in NAMED if pre[0][k] is not None}, **pre[1]}, 'req_succeeded': ok}
            sess.case(case)
            line, exp = model_io(norm, origin, method, acrm, acrh, ok, pre, post)
            sess.op(line, exp)
            # ---- the statement on this single call
            allowed = origin is not None and (ao == '*' or origin in ao)
            cred_ok = allowed and (ac == '*' or origin in ac)
            why = None
            if not allowed:
                if post != pre:
                    why = ('no Origin' if origin is None else 'Origin not allowed') + f': response headers changed from {pre} to {post}'
            else:
                why = _grant_rules(origin, ao, cred_ok, ex, method, acrm, acrh, ok, pre[0], post[0])
                if why is None and {k: v for k, v in post[1].items() if k != 'vary'} != {k: v for k, v in pre[1].items() if k != 'vary'}:
                    why = f'non-CORS headers changed: {pre[1]} -> {post[1]}'
            ctx.oracle('process_response: untouched without an allowed Origin; credentials only for configured origins and never with the wildcard; preflight approved iff successful OPTIONS+ACRM with Allow, otherwise all grants withdrawn',
                       why is None, why, case)
            ctx.seen(('unit', stack, line), origin is not None)
            ctx.count(f'unit_{stack}_' + ('no_origin' if origin is None else 'allowed' if allowed else 'disallowed'))
            if origin is not None and rel != 'unrelated':
                ctx.count(f'unit_origin_{"is_the_request_own_address" if rel == "own" else "near_the_request_own_address"}_' + ('allowed' if allowed else 'disallowed'))
            if allowed and ok and method == 'OPTIONS' and acrm:
                ctx.count(f'unit_{stack}_preflight_' + ('approved' if pre[0]['allow'] is not None else 'denied'))
    finally:
        if loop is not None:
            loop.close()
    sess.finish()


def _grant_rules(origin, ao, cred_ok, ex, method, acrm, acrh, succeeded, pre, post):
    """The statement for an ALLOWED origin, on the seven named headers before/after (dicts key -> value|None).
    `pre` is what the responder (and whatever ran earlier) had put on the response."""
    preflight = method == 'OPTIONS' and bool(acrm)
    if preflight and succeeded:
        if post['allow'] is not None:
            return f'successful preflight: Allow header left in place ({post["allow"]!r})'
        if pre['allow'] is None:
            left = {k: v for k, v in post.items() if v is not None}
            if left:
                return f'denied preflight (no Allow advertised) keeps {left}'
            return None
        # approved: the permitted methods are the advertised Allow set; headers and max-age are granted
        # (their exact values - echo of the requested headers or '*', 86400 - are carried by the correspondence and theorem)
        if post['acam'] != pre['allow'] or post['acah'] is None or post['acma'] is None:
            return f'approved preflight: methods/headers/max-age = {post["acam"]!r}/{post["acah"]!r}/{post["acma"]!r}, expected {pre["allow"]!r} and a headers and a max-age grant'
        if acrh and post['acah'] not in (acrh, '*'):
            return f'approved preflight: Access-Control-Allow-Headers = {post["acah"]!r} grants other headers than the requested {acrh!r}'
    else:
        for k in ('acam', 'acah', 'acma', 'allow'):
            if post[k] != pre[k]:
                return f'not a successful preflight, but {k} changed from {pre[k]!r} to {post[k]!r}' + (' (preflight approved for a failed / non-OPTIONS exchange)' if k != 'allow' else '')
    # origin / credentials
    if pre['acao'] is not None and post['acao'] == pre['acao'] and post['acac'] == pre['acac']:
        pass    # the responder had chosen the origin grant itself and the middleware left it alone
    else:
        if not cred_ok and post['acac'] != pre['acac']:
            return f'Access-Control-Allow-Credentials became {post["acac"]!r} for an origin that is not configured for credentials'
        if cred_ok:
            if post['acac'] != 'true':
                return f'origin is configured for credentials but Access-Control-Allow-Credentials = {post["acac"]!r}'
            if post['acao'] != origin:
                return f'credentials granted but Access-Control-Allow-Origin = {post["acao"]!r} is not the echoed origin {origin!r}'
        else:
            okvals = {origin} | ({'*'} if ao == '*' else set())
            if post['acao'] not in okvals:
                return f'allowed origin but Access-Control-Allow-Origin = {post["acao"]!r}'
    # expose headers
    if ex:
        if post['aceh'] != ex:
            return f'Access-Control-Expose-Headers = {post["aceh"]!r}, configured {ex!r}'
    elif post['aceh'] != pre['aceh']:
        return f'Access-Control-Expose-Headers changed to {post["aceh"]!r} without configuration'
    return None


# ------------------------------------------------------------------ (2) real applications, with a twin lacking the middleware

def _apps(ctx, asgi):
    import asyncio
    import os
    import shutil
    import tempfile
    from runner import alarm, Hang
    import falcon
    import falcon.asgi
    import falcon.testing as ft
    rnd = ctx.rng
    stack = 'asgi' if asgi else 'wsgi'
    sess = ctx.session(f'{stack} process_response calls observed inside real apps = Co.processF', 'crdriver')
    loop = asyncio.new_event_loop() if asgi else None
    root = tempfile.mkdtemp(prefix='c20static_')
    with open(os.path.join(root, 'f.txt'), 'w') as f:
        f.write('static file')
    PLAN = {}
    REC = []
    RAN = []

    class RecCORS(falcon.CORSMiddleware):
        """Unmodified policy; records what each call saw and left (the ASGI method delegates to this one)."""
        def process_response(self, req, resp, resource, req_succeeded):
            pre = snapshot(resp)
            super().process_response(req, resp, resource, req_succeeded)
            REC.append((pre, req_succeeded, snapshot(resp)))

    class Boom(Exception):
        """a non-HTTP error, taken by an application error handler: it answers 500, or sets Allow as well, or raises HTTPStatus itself"""
        def __init__(self, mode):
            super().__init__('stage failed')
            self.mode = mode

    RAISED = []

    def end(stage, resp):
        """How this stage of the exchange ends (PLAN['end'][stage]): by returning (possibly after choosing a status), or by raising
        HTTPStatus (any status, with or without an Allow header) / HTTPError (with or without Allow) / a plain exception whose
        handler answers 500, sets Allow, or raises HTTPStatus.  Every raise is recorded here, by the harness, at the raise."""
        e = PLAN.get('end', {}).get(stage)
        if e is None:
            return
        if e.get('set_allow') is not None:
            resp.set_header('Allow', e['set_allow'])
        k = e['kind']
        if k == 'ret_status':
            resp.status = e['code']
            return
        RAISED.append((stage, resp.status_code))
        hd = {'Allow': e['allow']} if e.get('allow') is not None else ({'Retry-After': '30'} if e.get('code') == 503 else None)
        if k == 'http400':
            raise falcon.HTTPBadRequest()
        if k == 'http405':
            raise falcon.HTTPMethodNotAllowed(['GET', 'PUT'])
        if k == 'httperror':
            raise falcon.HTTPError(e['code'], headers=hd)
        if k == 'status':
            raise falcon.HTTPStatus(e['code'], headers=hd)
        raise Boom(k)                                            # 'exc' / 'exc_allow' / 'exc_status'

    def boom_handler(resp, ex):
        if ex.mode == 'exc_status':
            raise falcon.HTTPStatus(204, headers={'Allow': 'GET, POST'})
        resp.status = falcon.HTTP_500
        resp.text = 'boom'
        if ex.mode == 'exc_allow':
            resp.set_header('Allow', 'GET, POST')

    def behave(req, resp, kind):
        RAN.append(kind)
        for n, v in PLAN.get('preset', {}).items():
            resp.set_header(n, v)
        al = PLAN.get('allow')
        if al is not None and (kind != 'res' or req.method == 'OPTIONS'):
            resp.set_header('Allow', al)
        resp.text = 'body of ' + kind
        end('responder', resp)

    if asgi:
        class Res:
            async def on_get(self, req, resp):
                behave(req, resp, 'res')
            on_post = on_get

        class ResOpt:
            async def on_get(self, req, resp):
                behave(req, resp, 'res')

            async def on_options(self, req, resp):
                behave(req, resp, 'res')

        async def sink(req, resp, **kw):
            behave(req, resp, 'sink')

        async def bhook(req, resp, resource, params):
            end('before', resp)

        async def ahook(req, resp, resource):
            end('after', resp)

        class ResHook:
            @falcon.before(bhook)
            @falcon.after(ahook)
            async def on_get(self, req, resp):
                behave(req, resp, 'res')

            @falcon.before(bhook)
            @falcon.after(ahook)
            async def on_options(self, req, resp):
                behave(req, resp, 'res')

        class Other:
            def __init__(self, tag):
                self.tag = tag

            async def process_request(self, req, resp):
                end('req:' + self.tag, resp)

            async def process_resource(self, req, resp, resource, params):
                end('rsrc:' + self.tag, resp)

            async def process_response(self, req, resp, resource, ok):
                resp.set_header('X-Other-' + self.tag, '1')
                end('resp:' + self.tag, resp)
        AppT = falcon.asgi.App
    else:
        class Res:
            def on_get(self, req, resp):
                behave(req, resp, 'res')
            on_post = on_get

        class ResOpt:
            def on_get(self, req, resp):
                behave(req, resp, 'res')

            def on_options(self, req, resp):
                behave(req, resp, 'res')

        def sink(req, resp, **kw):
            behave(req, resp, 'sink')

        def bhook(req, resp, resource, params):
            end('before', resp)

        def ahook(req, resp, resource):
            end('after', resp)

        class ResHook:
            @falcon.before(bhook)
            @falcon.after(ahook)
            def on_get(self, req, resp):
                behave(req, resp, 'res')

            @falcon.before(bhook)
            @falcon.after(ahook)
            def on_options(self, req, resp):
                behave(req, resp, 'res')

        class Other:
            def __init__(self, tag):
                self.tag = tag

            def process_request(self, req, resp):
                end('req:' + self.tag, resp)

            def process_resource(self, req, resp, resource, params):
                end('rsrc:' + self.tag, resp)

            def process_response(self, req, resp, resource, ok):
                resp.set_header('X-Other-' + self.tag, '1')
                end('resp:' + self.tag, resp)
        AppT = falcon.App

    def build(mws, indep, cors_enable=False):
        app = AppT(middleware=mws, independent_middleware=indep, cors_enable=cors_enable)
        app.add_route('/r', Res())
        app.add_route('/ro', ResOpt())
        app.add_route('/rh', ResHook())
        app.add_sink(sink, '/sink')
        app.add_static_route('/static', root)
        app.add_static_route('/sfb', root, fallback_filename='f.txt')
        if asgi:
            async def on_boom(req, resp, ex, params, **kw):
                boom_handler(resp, ex)
        else:
            def on_boom(req, resp, ex, params):
                boom_handler(resp, ex)
        app.add_error_handler(Boom, on_boom)
        return app

    def call(app, method, path, hdrs, addr=DEFAULT_ADDR):
        """-> (status, {lower name: value}, body)"""
        if not asgi:
            env = ft.create_environ(method=method, path=path, **addr_kwargs(addr, hdrs))
            st = []
            with alarm(30):
                it = app(env, lambda s, h, e=None: st.append((s, h)))
                try:
                    body = b''.join(it)
                finally:
                    if hasattr(it, 'close'):
                        it.close()
            hd = {}
            for k, v in st[0][1]:
                hd[k.lower()] = (hd[k.lower()] + ', ' + v) if k.lower() in hd else v
            return int(st[0][0].split()[0]), hd, body
        scope = ft.create_scope(method=method, path=path, **addr_kwargs(addr, hdrs))
        events = [{'type': 'http.request', 'body': b'', 'more_body': False}, {'type': 'http.disconnect'}]
        sent = []

        async def go():
            never = asyncio.get_running_loop().create_future()

            async def receive():
                if events:
                    return events.pop(0)
                await never

            async def send(e):
                sent.append(e)
            await app(scope, receive, send)
        loop.run_until_complete(asyncio.wait_for(go(), 30))
        start = next(e for e in sent if e['type'] == 'http.response.start')
        hd = {}
        for k, v in start['headers']:
            k = k.decode('latin-1').lower()
            v = v.decode('latin-1')
            hd[k] = (hd[k] + ', ' + v) if k in hd else v
        return start['status'], hd, b''.join(e.get('body', b'') for e in sent if e['type'] == 'http.response.body')

    def gen_ending(stage):
        """one way of ending a stage; a process_response that runs AFTER the CORS component ('resp:b': registered before it) must not
        write the headers the oracle reads, everything else may carry / set an Allow header"""
        late = stage == 'resp:b'
        r = rnd.random()
        if r < 0.40:
            e = {'kind': 'status', 'code': rnd.choice([200, 200, 204, 503, 503, 401, 302]), 'allow': None if late else rnd.choice([None, 'GET, POST', 'GET, POST', 'GET'])}
        elif r < 0.50:
            e = {'kind': 'http400'}
        elif r < 0.58:
            e = {'kind': 'http400' if late else 'http405'}
        elif r < 0.70:
            e = {'kind': 'httperror', 'code': rnd.choice([503, 401, 429]), 'allow': None if late else rnd.choice([None, 'GET, POST'])}
        elif r < 0.90 or late:
            e = {'kind': 'exc' if late else rnd.choice(['exc', 'exc_allow', 'exc_status'])}
        else:
            e = {'kind': 'status', 'code': 204, 'allow': None}
        if stage == 'responder' and rnd.random() < 0.15:
            e = {'kind': 'ret_status', 'code': rnd.choice([200, 204, 503, 202])}
        if not late and rnd.random() < 0.2:
            e['set_allow'] = rnd.choice(['GET, POST', 'PUT'])       # the stage sets Allow on the response itself before it ends
        return e

    def gen_endings(tags):
        r = rnd.random()
        if r < 0.45:
            return {}
        stages = ['responder'] * 5 + ['before', 'before', 'after', 'after'] + [f'{ph}:{t}' for t in tags for ph in ('req', 'rsrc', 'rsrc', 'resp')]
        out = {}
        for _ in range(1 if r < 0.92 else 2):
            st_ = rnd.choice(stages)
            out[st_] = gen_ending(st_)
        return out

    PRESETS = [{}, {}, {}, {}, {'Access-Control-Allow-Origin': 'http://preset'}, {'access-control-allow-origin': '*'},
               {'Access-Control-Allow-Credentials': 'true'}, {'Access-Control-Allow-Methods': 'PRESET'},
               {'Access-Control-Expose-Headers': 'X-P', 'Access-Control-Max-Age': '5'},
               {'ACCESS-CONTROL-ALLOW-ORIGIN': 'http://preset', 'Access-Control-Allow-Credentials': 'true', 'Access-Control-Allow-Headers': 'X-PH'},
               {'X-Custom': 'c'}]
    try:
        for ai in range(ctx.n(2000, 10000)):
            kw, norm, desc = gen_config(rnd)
            arrangement = rnd.choice(['alone', 'alone', 'after', 'before', 'between', 'enable', 'enable+other'])
            indep = rnd.random() < 0.6
            if arrangement.startswith('enable'):
                kw, norm = {'allow_origins': '*', 'allow_credentials': None, 'expose_headers': None}, ('*', set(), None)
                desc = {'cors_enable': True, 'normalised': {'allow_origins': '*', 'allow_credentials': [], 'expose_headers': None}}
                others = [Other('b')] if arrangement == 'enable+other' else []
                app = build(list(others), indep, cors_enable=True)
                twin = build(list(others), indep)
                tags = ['b'] if others else []
            else:
                cors, desc['constructed'] = call_documented(rnd, RecCORS, kw)
                if cors is None:
                    ctx.oracle('a documented constructor call with legal settings is accepted', False, desc['constructed'], {'level': 'app', 'stack': stack, 'config': desc})
                    continue
                tags = {'alone': [], 'after': ['b'], 'before': ['a'], 'between': ['b', 'a']}[arrangement]
                pre_m = [Other('b')] if 'b' in tags else []
                post_m = [Other('a')] if 'a' in tags else []
                app = build(pre_m + [cors] + post_m, indep)
                twin = build(pre_m + post_m, indep)
            ao, ac, ex = norm
            n_req = rnd.randint(14, 22)
            # the caller goes on using the objects they configured the middleware with: right after building the app, or between two requests
            mutate_at = rnd.choice([0, 0, rnd.randrange(n_req)]) if (not arrangement.startswith('enable') and rnd.random() < 0.35) else None
            for ri in range(n_req):
                if ri == mutate_at:
                    mutated = caller_mutates(rnd, kw)
                    if mutated:
                        desc = dict(desc, caller_mutations_after_construction=mutated, mutated_before_request=ri)
                        ctx.count(f'app_{stack}_caller_mutated_argument_objects_after_construction')
                origin = gen_origin(rnd)
                addr, rel = gen_addr(rnd, origin)
                method = rnd.choice(['GET', 'POST', 'OPTIONS', 'OPTIONS', 'OPTIONS', 'HEAD', 'DELETE'])
                acrm = rnd.choice([None, 'GET', 'GET', 'PUT', ''])
                acrh = rnd.choice([None, None, 'X-H', 'X-H, Content-Type', ''])
                path = rnd.choice(['/r', '/r', '/ro', '/ro', '/rh', '/rh', '/sink/a', '/sink/b', '/static/f.txt', '/static/missing', '/sfb/f.txt', '/sfb/missing', '/none'])
                PLAN.clear()
                PLAN.update({'preset': dict(rnd.choice(PRESETS)), 'allow': rnd.choice([None, 'GET, PUT', 'GET', None]), 'end': gen_endings(tags)})
                hdrs = {}
                if origin is not None:
                    hdrs[randcase(rnd, 'Origin')] = origin
                if acrm is not None:
                    hdrs['Access-Control-Request-Method'] = acrm
                if acrh is not None:
                    hdrs['Access-Control-Request-Headers'] = acrh
                case = {'level': 'app', 'stack': stack, 'config': desc, 'arrangement': arrangement, 'independent_middleware': indep,
                        'request': {'method': method, 'path': path, 'headers': hdrs, 'arrived_at': own_origin(addr), 'origin_vs_own_address': rel},
                        'responder_plan': {k: v for k, v in PLAN.items()}}
                why = None
                try:
                    del REC[:], RAN[:], RAISED[:]
                    T = call(twin, method, path, hdrs, addr)
                    twin_ran, twin_raised = list(RAN), list(RAISED)
                    del REC[:], RAN[:], RAISED[:]
                    F = call(app, method, path, hdrs, addr)
                    rec, app_ran, app_raised = list(REC), list(RAN), list(RAISED)
                except Hang:
                    why = 'request did not return (hang)'
                except (asyncio.TimeoutError, TimeoutError):
                    why = 'request did not return (timeout)'
                if why is None:
                    case['response'] = {'status': F[0], 'headers': F[1]}
                    case['response_without_cors_middleware'] = {'status': T[0], 'headers': T[1]}
                    # ABSOLUTE rule (no twin involved): cross-origin response headers come from the policy alone.  Whatever the target - routed, automatic
                    # OPTIONS, custom on_options, hooks, sink, static route with / without fallback, unrouted - the only other Access-Control-* headers a response
                    # may carry are those the application's OWN responder put there (PLAN['preset'], known to the harness; only if that responder ran).
                    tgt_kind = {'/r': 'auto_options', '/ro': 'on_options', '/rh': 'hooked', '/none': 'unrouted', '/sfb/f.txt': 'static_fallback_hit', '/sfb/missing': 'static_fallback_miss',
                                '/static/f.txt': 'static_hit', '/static/missing': 'static_miss'}.get(path, 'sink')
                    allowed_ = origin is not None and (ao == '*' or origin in ao)
                    why_abs = None
                    for who, (st_h, hd_h, _), ran_h in (('an app with NO CORS policy at all', T, twin_ran), ('the app with the policy', F, app_ran)):
                        own = {n.lower(): v for n, v in PLAN['preset'].items() if n.lower().startswith('access-control-')} if ran_h else {}
                        acs = {k: v for k, v in hd_h.items() if k.startswith('access-control-')}
                        foreign = {k: v for k, v in acs.items() if own.get(k) != v}
                        if who.startswith('an app'):
                            if foreign:
                                why_abs = f'{who} answers {method} {path} ({tgt_kind}) with cross-origin headers nobody configured: {foreign}'
                                break
                        elif not allowed_:
                            if foreign:
                                why_abs = (f'{who}: the request ' + ('carries no Origin' if origin is None else f'comes from the disallowed origin {origin!r}') +
                                           f', but the response to {method} {path} ({tgt_kind}) carries {foreign}')
                                break
                        elif not (method == 'OPTIONS' and acrm):
                            pf = {k: v for k, v in foreign.items() if k in ('access-control-allow-methods', 'access-control-allow-headers', 'access-control-max-age')}
                            if pf:
                                why_abs = (f'{who}: {method} {path} ({tgt_kind}) ' + ('without Access-Control-Request-Method' if method == 'OPTIONS' else '') +
                                           f' is no preflight, but the response carries the preflight approval {pf}')
                                break
                    ctx.oracle('outside an approved preflight no target adds cross-origin headers: an app without a CORS policy emits no Access-Control-* header (beyond what its own responder set); with a policy none '
                               'for requests without Origin / from disallowed origins, and no methods / headers / max-age approval unless the request is OPTIONS with Access-Control-Request-Method',
                               why_abs is None, why_abs, case)
                    ctx.count(f'app_{stack}_target_{tgt_kind}_' + ('preflight' if (method == 'OPTIONS' and acrm) else 'options_without_acrm' if method == 'OPTIONS' else 'not_options') +
                              ('_no_origin' if origin is None else '_allowed' if allowed_ else '_disallowed'))
                    # every call of the middleware inside the app is also a model case
                    for pre, ok, post in rec:
                        sess.case(case)
                        sess.op(*model_io(norm, origin, method, acrm, acrh, ok, pre, post))
                    allowed = origin is not None and (ao == '*' or origin in ao)
                    cred_ok = allowed and (ac == '*' or origin in ac)
                    Fh, Th = F[1], T[1]
                    names = {n.lower() for _, n in NAMED}
                    if not allowed:
                        if F != T:
                            why = ('no Origin header' if origin is None else 'Origin not allowed') + ': the response differs from the one of the same app without the CORS middleware: ' + \
                                  str({k: (Th.get(k), Fh.get(k)) for k in set(Th) | set(Fh) if Th.get(k) != Fh.get(k)} or {'status/body': (T[0], F[0])})
                    else:
                        # dependent mode: a middleware listed before the CORS one that rejects the request keeps it from running
                        ran_cors = indep or 'req:b' not in [st_ for st_, _ in app_raised]
                        names.add('vary')     # (a policy may legitimately add Vary: Origin when it grants)
                        if F[0] != T[0] or F[2] != T[2] or {k: v for k, v in Fh.items() if k not in names} != {k: v for k, v in Th.items() if k not in names}:
                            why = 'status, body or non-CORS headers differ from the same app without the CORS middleware'
                        elif not ran_cors:
                            if Fh != Th:
                                why = 'the CORS middleware was skipped (dependent mode) but CORS headers differ from the twin'
                        else:
                            # The exchange the CORS component answers succeeded iff NOTHING RAISED before its process_response ran (HTTPStatus is
                            # an exception like any other: "req_succeeded: True if no exceptions were raised while the framework processed and
                            # routed the request").  Raises of harness stages are recorded at the raise; process_response methods run in reverse
                            # registration order, so only 'resp:b' (registered before the CORS component) comes after it.  The framework's own
                            # raises (404 unrouted / missing file, 405) show as a status >= 400 in an exchange where no harness responder ran.
                            before_cors = [st_ for st_, _ in app_raised if st_ != 'resp:b']
                            late = [c for st_, c in twin_raised if st_ == 'resp:b']
                            status_then = late[0] if late else T[0]
                            succeeded = not before_cors and (bool(app_ran) or status_then < 400)
                            case['raised'] = [st_ for st_, _ in app_raised]
                            case['exchange_succeeded'] = succeeded
                            pre = {k: Th.get(n.lower()) for k, n in NAMED}
                            post = {k: Fh.get(n.lower()) for k, n in NAMED}
                            why = _grant_rules(origin, ao, cred_ok, ex, method, acrm, acrh, succeeded, pre, post)
                            if why is not None and app_raised:
                                why += ' [raised during the exchange: ' + ', '.join(f'{st_} ({PLAN["end"][st_]["kind"]}{PLAN["end"][st_].get("code", "")})' for st_, _ in app_raised) + ']'
                    ctx.count(f'app_{stack}_' + ('no_origin' if origin is None else 'allowed' if allowed else 'disallowed'))
                    ctx.count(f'app_{stack}_arrangement_{arrangement}')
                    if origin is not None and rel != 'unrelated':
                        ctx.count(f'app_origin_{"is_the_request_own_address" if rel == "own" else "near_the_request_own_address"}_' + ('allowed' if allowed else 'disallowed'))
                    if allowed and method == 'OPTIONS' and acrm:
                        ctx.count(f'app_{stack}_preflight_' + ('failed_exchange' if T[0] >= 400 else 'approved' if 'access-control-allow-methods' in Fh else 'denied'))
                        tgt = {'/r': 'auto-options', '/ro': 'on_options', '/rh': 'hooked-on_options', '/none': 'unrouted', '/sfb/f.txt': 'static-with-fallback', '/sfb/missing': 'static-with-fallback'}.get(path, path.split('/')[1])
                        if not app_raised:
                            e = PLAN['end'].get('responder') if app_ran else None
                            ctx.count(f'app_preflight_{tgt}_ends_by_' + ('return' if e is None else 'return_with_chosen_status') + ('' if (app_ran or T[0] < 400) else '_of_the_framework_404'))
                        for st_, _ in app_raised:
                            e = PLAN['end'][st_]
                            what = {'status': 'HTTPStatus', 'http400': 'HTTPError', 'http405': 'HTTPError', 'httperror': 'HTTPError'}.get(e['kind'], 'handled_exception')
                            if what == 'HTTPStatus':
                                what += '_2xx' if e['code'] < 300 else '_3xx' if e['code'] < 400 else '_4xx5xx'
                            al = bool(e.get('allow') or e.get('set_allow') or e['kind'] in ('http405', 'exc_allow', 'exc_status'))
                            ctx.count(f'app_preflight_raise_in_{st_.split(":")[0]}')
                            ctx.count(f'app_preflight_raise_of_{what}' + ('_with_Allow' if al else ''))
                ctx.oracle('final response: identical to the twin app without the middleware unless the Origin is allowed; grants, credentials, wildcard and preflight rules of the statement otherwise',
                           why is None, why, case)
                ctx.seen(('app', stack, str(desc), arrangement, indep, method, path, own_origin(addr), str(sorted(hdrs.items())), str(sorted(PLAN.items(), key=str))), origin is not None)
    finally:
        if loop is not None:
            loop.close()
        shutil.rmtree(root, ignore_errors=True)
    sess.finish()


LEVEL_TEXT = ('Machine-checked proofs (Lean 4). (a) Cg.construct = Cg.bindArgs (the binding of positional / keyword arguments to the signature (allow_origins, expose_headers, allow_credentials): every split configures the same middleware) '
              'followed by Cg.normalise, a transcription of CORSMiddleware.__init__: a single string is exactly the one-element iterable (membership is whole-string equality), the '
              'outcome depends only on the SET of configured strings, "*" inside an iterable is refused, expose_headers is the ", "-join; the policy theorems are restated from the raw constructor arguments. '
              '(b) Cg.appInit / addMiddleware, a transcription of the cors_enable wiring: exactly one CORSMiddleware, last in the stack, under every sequence of add_middleware calls; a CORSMiddleware next to '
              'cors_enable is refused; inside the proved call discipline of App.__call__ its process_response runs exactly once (dependent mode: iff no earlier process_request raised) with the documented req_succeeded. '
              '(c) Co.processF, a transcription of CORSMiddleware.process_response (with the F12 repair) onto a header map: for every configuration, request view, '
              'pre-existing header map and outcome - no Origin / disallowed Origin leaves everything untouched; any change implies an allowed Origin; credentials only for configured origins, always with the '
              'echoed origin and never with the wildcard; a preflight is approved iff allowed origin, successful OPTIONS, Access-Control-Request-Method and an advertised Allow, with exact methods/headers/max-age '
              'and Allow removed; a denied preflight leaves none of the six grant headers; other headers are never touched. The model is tied to falcon/middleware.py on every run by calling the real '
              'process_response / process_response_async on real Request/Response objects and inside real WSGI/ASGI apps (alone and among other middleware) and diffing the resulting header map with the '
              'compiled model; an independent oracle compares every final response with a twin app lacking the middleware and applies the statement\'s rules. Co.processF takes the configuration as an argument of every call, so its theorems hold '
              'for every reconfiguration history of one object; the correspondence feeds it the configuration current at each request of histories in which the application re-assigns the public attributes between requests, and the Origin field value combined from all its field lines.')
LEVEL_NOTE = ('Trusted: Lean kernel + standard axioms; the Response header map (C15); correspondence harness, twin-app oracle. The wildcard rule is about grants of the middleware (responder-preset '
              'Access-Control-Allow-Credentials is left alone); Origin "*" is excluded.')
TECHNIQUE = 'Lean 4 proofs on models of CORSMiddleware.__init__, the cors_enable wiring and process_response (header map) + differential correspondence (unit calls and calls observed inside real WSGI/ASGI apps) + twin-app statement oracle'


# ------------------------------------------------------------------ (3) the Allow producers + the policy = Cd.exchange (Dp dispatch, responder, Co.processF)

DISP_ATTR_METHODS = ['GET', 'POST', 'PUT', 'DELETE', 'PATCH', 'HEAD', 'OPTIONS', 'PROPFIND', 'WEBSOCKET']
DISP_PATHS = [('/r0', 'r0'), ('/r1', 'r1'), ('/r2/7', 'r2'), ('/s0/x', '-'), ('/s/abc', '-'), ('/st/f.txt', '-'), ('/nowhere', '-')]
DISP_TEMPLATES = {'r0': '/r0', 'r1': '/r1', 'r2': '/r2/{id}'}
DISP_KEYS = {'acao': 'Access-Control-Allow-Origin', 'acac': 'Access-Control-Allow-Credentials', 'acam': 'Access-Control-Allow-Methods',
             'acah': 'Access-Control-Allow-Headers', 'acma': 'Access-Control-Max-Age', 'aceh': 'Access-Control-Expose-Headers',
             'allow': 'Allow', 'o1': 'X-App'}


def _disp_gen_act(rnd, p_allow):
    """what a harness responder does: set_header calls, then return / raise HTTPForbidden"""
    sets = []
    if rnd.random() < p_allow:
        sets.append(('allow', rnd.choice(['GET, POST', 'PUT', 'GET', ''])))
    for k, v in (('acam', 'PATCH'), ('acao', 'http://evil'), ('acac', 'true'), ('aceh', 'X-Mine'), ('o1', 'v')):
        if rnd.random() < 0.12:
            sets.append((k, v))
    rnd.shuffle(sets)
    return {'sets': sets, 'raises': rnd.random() < 0.1}


def _disp_enc_sets(sets):
    return ';'.join(f'{k}:{S(v)}' for k, v in sets) or '-'


def _dispatch(ctx, asgi):
    import asyncio
    import os
    import shutil
    import tempfile
    import falcon
    import falcon.asgi
    from falcon import constants
    rnd = ctx.rng
    stack = 'asgi' if asgi else 'wsgi'
    sess = ctx.session(f'{stack} OPTIONS / preflight exchanges through real apps with random add_route / add_sink / add_static_route histories '
                       f'(final status, Access-Control-* and Allow headers, responder that ran) = Cd.exchange', 'cddriver')
    loop = asyncio.new_event_loop() if asgi else None
    root = tempfile.mkdtemp(prefix='c20disp_')
    with open(os.path.join(root, 'f.txt'), 'w') as f:
        f.write('static file')
    COMBINED = list(constants.COMBINED_METHODS)
    AppT = falcon.asgi.App if asgi else falcon.App
    LOG = []

    def apply(resp, tag, act):
        LOG.append((tag, act))
        for k, v in act['sets']:
            resp.set_header(DISP_KEYS[k], v)
        if act['raises']:
            raise falcon.HTTPForbidden()

    def mk_responder(tag, act):
        if asgi:
            async def responder(self, req, resp, **kw):
                apply(resp, tag, act)
        else:
            def responder(self, req, resp, **kw):
                apply(resp, tag, act)
        return responder

    def mk_sink(tag, act):
        if asgi:
            async def sink(req, resp, **kw):
                apply(resp, tag, act)
        else:
            def sink(req, resp, **kw):
                apply(resp, tag, act)
        return sink

    def mk_pre(sets):
        class Pre:
            if asgi:
                async def process_request(self, req, resp):
                    for k, v in sets:
                        resp.set_header(DISP_KEYS[k], v)
            else:
                def process_request(self, req, resp):
                    for k, v in sets:
                        resp.set_header(DISP_KEYS[k], v)
        return Pre()

    try:
        for ai in range(ctx.n(260, 2400)):
            # ---- the policy
            cors_enable = rnd.random() < 0.2
            if cors_enable:
                kw, norm, cdesc = {}, ('*', set(), None), {'cors_enable': True}
            else:
                kw, norm, cdesc = gen_config(rnd)
                kw = dict(kw)
            ao, ac, ex = norm
            pre_sets = []
            if rnd.random() < 0.3:
                for k, v in (('allow', 'BOGUS'), ('acam', 'PATCH'), ('acao', 'http://pre'), ('acma', '5'), ('o1', 'p')):
                    if rnd.random() < 0.4:
                        pre_sets.append((k, v))
            mws = [mk_pre(pre_sets)] if pre_sets or rnd.random() < 0.2 else []
            sbs = rnd.choice(['default', '0', '1'])
            extra = {} if sbs == 'default' else {'sink_before_static_route': sbs == '1'}
            if cors_enable:
                app = AppT(middleware=mws, cors_enable=True, **extra)
            else:
                mw, how = call_documented(rnd, falcon.CORSMiddleware, kw)
                if mw is None:
                    ctx.oracle('a legal CORS configuration is accepted by the constructor', False, how, {'config': cdesc})
                    continue
                app = AppT(middleware=mws + [mw], **extra)
            # ---- the registration history
            regs, cur, acts_of = [], {}, {}
            nres = 0
            for _ in range(rnd.choice([0, 1, 2, 2, 3, 3, 4, 5])):
                token = rnd.choice(['r0', 'r0', 'r1', 'r2'])  # (re-registration of a template is frequent)
                rid = nres
                nres += 1
                attrs = set()
                for m in rnd.sample(DISP_ATTR_METHODS, rnd.randint(0, 5)):
                    attrs.add((m, rnd.choice([None, None, None, 'alt'])))
                if rnd.random() < 0.35:
                    attrs.add(('OPTIONS', rnd.choice([None, None, 'alt'])))
                ns = {}
                for m, sfx in sorted(attrs, key=str):
                    tag = f'resource:{rid}:{m}'
                    act = _disp_gen_act(rnd, 0.5 if m == 'OPTIONS' else 0.15)
                    name = 'on_' + m.lower() + ('_' + sfx if sfx else '')
                    ns[name] = mk_responder(tag + ('~' + sfx if sfx else ''), act)
                resource = type(f'Res{rid}', (), ns)()
                suffix = rnd.choice([None, None, None, '', 'alt', 'alt', 'nosuch'])
                try:
                    if suffix is None and rnd.random() < 0.5:
                        app.add_route(DISP_TEMPLATES[token], resource)
                    else:
                        app.add_route(DISP_TEMPLATES[token], resource, suffix=suffix)
                    raised = None
                except Exception as e:
                    raised = type(e).__name__
                fa = ','.join(sorted(m + ('~' + s if s else '') for m, s in attrs)) or '-'
                regs.append(f"{token}:{rid}:{'-' if suffix is None else '=' + suffix}:{fa}")
                eff = suffix or None
                impl = {m for m, s in attrs if s == eff and m in COMBINED}
                accepted = eff is None or bool(impl)           # the documented rule (SuffixedMethodNotFoundError)
                ctx.oracle('add_route raises exactly when a suffix is given and no responder carries it', (raised is not None) == (not accepted),
                           f'add_route raised {raised}', {'reg': regs[-1]})
                if raised is None:
                    cur[token] = (rid, eff, impl)
            ops, sinks = [], []
            plan = ['s0', 's1', 't2']
            rnd.shuffle(plan)
            for o in plan[:rnd.choice([0, 1, 2, 2, 3, 3])]:
                if o[0] == 's':
                    prefix = '/s0' if o == 's0' else '/s'
                    act = _disp_gen_act(rnd, 0.5)
                    app.add_sink(mk_sink(f'sink:{o[1:]}', act), prefix)
                    sinks.append((o, prefix))
                else:
                    app.add_static_route('/st', root)
                ops.append(o)
            desc = {'stack': stack, 'config': cdesc, 'pre': pre_sets, 'regs': regs, 'ops': ops, 'sbs': sbs}
            # ---- requests
            for qi in range(6):
                path, token = rnd.choice(DISP_PATHS)
                if cur and rnd.random() < 0.55:         # mostly paths that the history left routed
                    path, token = rnd.choice([pt for pt in DISP_PATHS if pt[1] in cur])
                method = 'OPTIONS' if rnd.random() < 0.72 else rnd.choice(['GET', 'POST', 'DELETE', 'PROPFIND', 'FOO', 'WEBSOCKET', 'HEAD'])
                origin = rnd.choice([None, 'http://a', 'http://a', 'http://b', 'http://b', 'http://c', 'http://d', 'HTTP://A', 'http://a/'])
                acrm = rnd.choice([None, '', 'GET', 'GET', 'POST', 'POST']) if method == 'OPTIONS' else rnd.choice([None, None, 'GET'])
                acrh = rnd.choice([None, None, 'X-H', 'X-H, Content-Type', ''])
                hdrs = {}
                if origin is not None:
                    hdrs['Origin'] = origin
                if acrm is not None:
                    hdrs['Access-Control-Request-Method'] = acrm
                if acrh is not None:
                    hdrs['Access-Control-Request-Headers'] = acrh
                hits = [o for o, prefix in sinks if re.match(prefix, path)] + (['t2'] if 't2' in ops and path.startswith('/st/') else [])
                del LOG[:]
                case = dict(desc, request={'method': method, 'path': path, 'headers': dict(hdrs)})
                try:
                    status, hd, body = _http_call(asgi, loop, app, method, path, hdrs)
                except Exception as e:
                    ctx.oracle('the exchange completes', False, f'{type(e).__name__}: {e}', case)
                    continue
                ran = list(LOG)
                act = ran[0][1] if ran else {'sets': [], 'raises': False}
                if ran:
                    who = ran[0][0].split('~')[0]
                elif status in (404, 400):
                    who = str(status)
                elif status == 405:
                    who = '405:' + hd.get('allow', '').replace(', ', ',')
                elif path.startswith('/st/') and token == '-':
                    who = 'static:2'
                else:
                    who = 'options:' + (hd['allow'] if 'allow' in hd else hd.get('access-control-allow-methods', '')).replace(', ', ',')
                line = (f"x {cfg_words(norm)} combined={','.join(COMBINED)} regs={'|'.join(regs) or '-'} ops={','.join(ops) or '-'} sbs={sbs} "
                        f"route={token} hits={','.join(hits) or '-'} method={method} origin={S(origin)} acrm={S(acrm)} acrh={S(acrh)} "
                        f"pre={_disp_enc_sets(pre_sets)} act={_disp_enc_sets(act['sets'])} raise={1 if act['raises'] else 0}")
                exp = f'resp={who} st={status} ' + ' '.join(f'{k}={S(hd.get(n.lower()))}' for k, n in NAMED)
                sess.case(case)
                sess.op(line, exp)
                # ---- the independent oracle (statement + the documented Allow of the generated OPTIONS responder)
                granted = origin is not None and (ao == '*' or origin in ao)
                mine = {DISP_KEYS[k].lower() for k, v in pre_sets} | {DISP_KEYS[k].lower() for tag, a in ran for k, v in a['sets']}
                preflight = method == 'OPTIONS' and bool(acrm)
                why = None
                if not granted:
                    bad = [g for g in GRANTS if g in hd and g not in mine]
                    if bad:
                        why = f'no granted Origin ({origin!r}) but the response carries {bad}'
                else:
                    if not preflight:
                        bad = [g for g in ('access-control-allow-methods', 'access-control-allow-headers', 'access-control-max-age') if g in hd and g not in mine]
                        if bad:
                            why = f'not a preflight but the response carries {bad}'
                    elif token in cur and 'OPTIONS' not in cur[token][2]:
                        want = sorted(m for m in cur[token][2] if m != 'WEBSOCKET')
                        got = hd.get('access-control-allow-methods')
                        if got is None or sorted(x for x in got.split(', ') if x) != want:
                            why = f'preflight on a resource implementing {want} (no on_options): Access-Control-Allow-Methods = {got!r}'
                        elif 'allow' in hd:
                            why = f'approved preflight keeps Allow: {hd["allow"]!r}'
                        elif hd.get('access-control-max-age') != '86400' or hd.get('access-control-allow-headers') != (acrh if acrh is not None else '*'):
                            why = f'approved preflight: max-age {hd.get("access-control-max-age")!r}, allow-headers {hd.get("access-control-allow-headers")!r}'
                    elif status < 400 and not any(a['raises'] for tag, a in ran) and 'allow' in hd:
                        why = f'successful preflight from a granted origin keeps Allow: {hd["allow"]!r}'
                    elif status == 404 and not ran:
                        bad = [g for g in ('access-control-allow-methods', 'access-control-allow-headers', 'access-control-max-age') if g in hd and g not in mine]
                        if bad:
                            why = f'404 but the response carries {bad}'
                ctx.oracle('Allow producers + policy: no grant without a granted Origin; a preflight on a routed resource is approved with exactly the implemented methods and loses Allow; '
                           'no preflight approval on 404', why is None, why, case)
                kind = who.split(':')[0]
                ctx.count(f'disp_{kind}_{"preflight" if preflight else "plain"}_{"granted" if granted else "ungranted"}')
                ctx.seen(('disp', stack, str(cdesc), tuple(regs), tuple(ops), sbs, str(pre_sets), method, path, origin, acrm, acrh), origin is not None)
    finally:
        if loop is not None:
            loop.close()
        shutil.rmtree(root, ignore_errors=True)
    sess.finish()


# ------------------------------------------------------------------ (4) RECONFIGURATION HISTORIES of one long-lived middleware object, and the
#                                                                        Origin field arriving in SEVERAL FIELD LINES

def _run_wsgi(app, env):
    """one prepared environ against a real WSGI app -> (status, {lower name: value}, body)"""
    from runner import alarm
    st = []
    with alarm(30):
        it = app(env, lambda s, h, e=None: st.append((s, h)))
        try:
            body = b''.join(it)
        finally:
            if hasattr(it, 'close'):
                it.close()
    hd = {}
    for k, v in st[0][1]:
        hd[k.lower()] = (hd[k.lower()] + ', ' + v) if k.lower() in hd else v
    return int(st[0][0].split()[0]), hd, body


def _run_asgi(loop, app, scope):
    """one prepared scope against a real ASGI app -> (status, {lower name: value}, body)"""
    import asyncio
    events = [{'type': 'http.request', 'body': b'', 'more_body': False}, {'type': 'http.disconnect'}]
    sent = []

    async def go():
        never = asyncio.get_running_loop().create_future()

        async def receive():
            if events:
                return events.pop(0)
            await never

        async def send(e):
            sent.append(e)
        await app(scope, receive, send)
    loop.run_until_complete(asyncio.wait_for(go(), 30))
    start = next(e for e in sent if e['type'] == 'http.response.start')
    hd = {}
    for k, v in start['headers']:
        k = k.decode('latin-1').lower()
        v = v.decode('latin-1')
        hd[k] = (hd[k] + ', ' + v) if k in hd else v
    return start['status'], hd, b''.join(e.get('body', b'') for e in sent if e['type'] == 'http.response.body')


def gen_origin_lines(rnd, ao):
    """the Origin FIELD LINES of one request, in the order they are on the wire: none, one (82 %), two or three.  Several lines pair an origin the
    current configuration grants with one it does not (either order), two granted ones, or the same line twice."""
    o = gen_origin(rnd)
    if o is None:
        return []
    if rnd.random() < 0.80 or o == '':
        return [o]
    members = sorted(ao) if ao != '*' else []
    good = rnd.choice(members) if members else rnd.choice(UNIVERSE)
    outside = [x for x in UNIVERSE + ['http://d', 'http://evil.example', 'null'] if x not in members] or ['http://evil.example']
    r = rnd.random()
    if r < 0.6:
        lines = [rnd.choice(outside), good]           # (not granted, granted) - reversed half of the time below
    elif r < 0.75:
        lines = [good, rnd.choice(members) if members else good]
    elif r < 0.85:
        lines = [o, o]
    else:
        lines = [o, good]
    if rnd.random() < 0.5:
        lines.reverse()
    if rnd.random() < 0.12:
        lines.insert(rnd.randint(0, 2), rnd.choice(outside + [good]))
    return lines


def place_origin(rnd, asgi, env_or_scope, lines):
    """Put the Origin field lines into a prepared environ / scope the way a server does - NOT through falcon.testing (whose own folding of
    repeated headers reads a table of the tree under test).  ASGI: one (b'origin', value) pair per line, in wire order, anywhere between the
    other headers.  WSGI: the server hands over ONE HTTP_ORIGIN, the line values joined with ', ' (or ',').  -> the field value (RFC 9110, 5.3:
    the line values combined in order, comma-separated), None without any line."""
    if not lines:
        return None
    if asgi:
        hl = list(env_or_scope['headers'])
        at = 0
        for v in lines:
            at = rnd.randint(at, len(hl))
            hl.insert(at, (b'origin', v.encode('latin-1')))
            at += 1
        env_or_scope['headers'] = hl
        return ','.join(lines)
    field = rnd.choice([', ', ', ', ',']) if len(lines) > 1 else ''
    field = field.join(lines)
    env_or_scope['HTTP_ORIGIN'] = field
    return field


HIST_EXPOSE = [None, None, '', 'X-One', 'X-One, X-Two', 'X-Late']


def gen_assignment(rnd, cur):
    """one thing an application does to its live middleware between two requests: assign one of the three public attributes, in the normalised
    form the constructor itself stores ('*' or a frozenset of origins; expose_headers: None or the joined string).  A wildcard setting is mostly
    narrowed to a set, a set is often widened to the wildcard.  -> (attribute, python value, new normalised triple, kind)"""
    ao, ac, ex = cur
    attr = rnd.choice(['allow_origins', 'allow_origins', 'allow_origins', 'allow_credentials', 'allow_credentials', 'expose_headers'])
    if attr == 'expose_headers':
        new = rnd.choice([x for x in HIST_EXPOSE if x != ex] or [None])
        return attr, new, (ao, ac, new), 'expose'
    old = ao if attr == 'allow_origins' else ac
    to_wild = rnd.random() < (0.15 if old == '*' else 0.4)
    if to_wild:
        new, val = '*', '*'
    else:
        new = set(rnd.sample(UNIVERSE, rnd.choice([0, 1, 1, 1, 2, 2, 3])))
        val = frozenset(new)
    kind = ('wildcard' if old == '*' else 'set') + '_to_' + ('wildcard' if new == '*' else 'set')
    return attr, val, ((new, ac, ex) if attr == 'allow_origins' else (ao, new, ex)), kind


def _cfg_json(cur):
    ao, ac, ex = cur
    return {'allow_origins': ao if ao == '*' else sorted(ao), 'allow_credentials': ac if ac == '*' else sorted(ac), 'expose_headers': ex}


def _hist(ctx, asgi):
    import asyncio
    from runner import Hang
    import falcon
    import falcon.asgi
    import falcon.testing as ft
    rnd = ctx.rng
    stack = 'asgi' if asgi else 'wsgi'
    sess = ctx.session(f'{stack} histories of ONE CORSMiddleware object (requests with the Origin field in 0-3 field lines, between them the application assigns '
                       f'allow_origins / allow_credentials / expose_headers): every process_response call = Co.processF with the configuration current at that request', 'crdriver')
    loop = asyncio.new_event_loop() if asgi else None
    REC = []
    PLAN = {}

    class RecCORS(falcon.CORSMiddleware):
        """Unmodified policy; records what each call saw and left (the ASGI method delegates to this one)."""
        def process_response(self, req, resp, resource, req_succeeded):
            pre = snapshot(resp)
            super().process_response(req, resp, resource, req_succeeded)
            REC.append((pre, req_succeeded, snapshot(resp)))

    def opt(resp):
        for n, v in PLAN.get('preset', {}).items():
            resp.set_header(n, v)
        if PLAN.get('allow') is not None:
            resp.set_header('Allow', PLAN['allow'])

    if asgi:
        class Res:
            async def on_get(self, req, resp):
                resp.text = 'r'

        class ResOpt:
            async def on_options(self, req, resp):
                opt(resp)

        class Other:
            async def process_response(self, req, resp, resource, ok):
                resp.set_header('X-Other', '1')
        AppT = falcon.asgi.App
    else:
        class Res:
            def on_get(self, req, resp):
                resp.text = 'r'

        class ResOpt:
            def on_options(self, req, resp):
                opt(resp)

        class Other:
            def process_response(self, req, resp, resource, ok):
                resp.set_header('X-Other', '1')
        AppT = falcon.App

    def build(mws, **kw):
        app = AppT(middleware=mws, **kw)
        app.add_route('/r', Res())
        app.add_route('/o', ResOpt())
        return app

    PRE_VALUES = {'acao': ['http://preset', '*'], 'acac': ['true'], 'acam': ['PRESET'], 'acah': ['X-PH'], 'acma': ['5'], 'aceh': ['X-P'], 'allow': ['GET, POST', 'GET', '']}
    try:
        for hi in range(ctx.n(1000, 7000)):
            mode = rnd.choice(['direct', 'direct', 'direct', 'app', 'app', 'app+other', 'cors_enable'])
            kw, cur, desc = gen_config(rnd)
            app = twin = None
            if mode == 'cors_enable':
                cur, desc = ('*', set(), None), {'cors_enable': True}
                app, twin = build(None, cors_enable=True), build(None)
                # (the object the framework built for cors_enable=True; an application reaches it the same way)
                mw = next(m for m in app._unprepared_middleware if isinstance(m, falcon.CORSMiddleware))
            else:
                mw, desc['constructed'] = call_documented(rnd, falcon.CORSMiddleware if mode == 'direct' else RecCORS, kw)
                if mw is None:
                    ctx.oracle('a documented constructor call with legal settings is accepted', False, desc['constructed'], {'level': 'history', 'stack': stack, 'config': desc})
                    continue
                if mode != 'direct':
                    others = [Other()] if mode == 'app+other' else []
                    app, twin = build(others + [mw]), build(list(others))
            history = []
            n_assign = crossed = 0
            p_assign = rnd.choice([0.0, 0.25, 0.45, 0.6])
            for ri in range(rnd.randint(4, 10)):
                # ---- between two requests the application may re-configure the live object
                while rnd.random() < p_assign:
                    attr, val, cur, kind = gen_assignment(rnd, cur)
                    setattr(mw, attr, val)
                    history.append({'assign': attr, 'value': val if (val is None or isinstance(val, str)) else {'frozenset': sorted(val)}})
                    n_assign += 1
                    crossed += kind in ('wildcard_to_set', 'set_to_wildcard')
                    ctx.count(f'hist_assign_{attr}_{kind}')
                ao, ac, ex = cur
                # ---- the request
                lines = gen_origin_lines(rnd, ao)
                addr, rel = gen_addr(rnd, lines[0] if lines else None)
                acrm = rnd.choice([None, 'GET', 'GET', 'PUT', ''])
                acrh = rnd.choice([None, None, 'X-H', 'X-H, Content-Type', ''])
                hdrs = {}
                if acrm is not None:
                    hdrs['Access-Control-Request-Method'] = acrm
                if acrh is not None:
                    hdrs['Access-Control-Request-Headers'] = acrh
                if mode == 'direct':
                    method, path = rnd.choice(['GET', 'POST', 'OPTIONS', 'OPTIONS', 'OPTIONS', 'DELETE']), '/x'
                else:
                    method, path = rnd.choice([('GET', '/r'), ('GET', '/r'), ('OPTIONS', '/r'), ('OPTIONS', '/r'), ('OPTIONS', '/o'), ('OPTIONS', '/o'), ('POST', '/r'), ('GET', '/none'), ('OPTIONS', '/none')])
                mk = (lambda: ft.create_scope(method=method, path=path, **addr_kwargs(addr, hdrs))) if asgi else (lambda: ft.create_environ(method=method, path=path, **addr_kwargs(addr, hdrs)))
                state = rnd.getstate()
                target = mk()
                origin = place_origin(rnd, asgi, target, lines)
                step = {'request': {'method': method, 'path': path, 'origin_field_lines': list(lines), 'headers': dict(hdrs), 'arrived_at': own_origin(addr)},
                        'configuration_at_that_time': _cfg_json(cur)}
                if not asgi and lines:
                    step['request']['HTTP_ORIGIN'] = origin
                history.append(step)
                case = {'level': 'history', 'stack': stack, 'how': mode, 'constructed_with': desc, 'history': list(history)}
                allowed = origin is not None and (ao == '*' or origin in ao)
                cred_ok = allowed and (ac == '*' or origin in ac)
                why = None
                if mode == 'direct':
                    ok = rnd.random() < 0.75
                    if asgi:
                        async def receive():
                            return {'type': 'http.disconnect'}
                        req, resp = falcon.asgi.Request(target, receive), falcon.asgi.Response()
                    else:
                        req, resp = falcon.Request(target), falcon.Response()
                    for k, n in NAMED:
                        if rnd.random() < (0.45 if k == 'allow' else 0.08):
                            resp.set_header(randcase(rnd, n), rnd.choice(PRE_VALUES[k]))
                    pre = snapshot(resp)
                    if asgi:
                        loop.run_until_complete(mw.process_response_async(req, resp, None, ok))
                    else:
                        mw.process_response(req, resp, None, ok)
                    post = snapshot(resp)
                    step['req_succeeded'] = ok
                    step['response_headers_before'] = {**{n: pre[0][k] for k, n in NAMED if pre[0][k] is not None}, **pre[1]}
                    step['response_headers_after'] = {**{n: post[0][k] for k, n in NAMED if post[0][k] is not None}, **post[1]}
                    sess.case(case)
                    sess.op(*model_io(cur, origin, method, acrm, acrh, ok, pre, post))
                    if not allowed:
                        if post != pre:
                            why = f'response headers changed from {pre} to {post}'
                    else:
                        why = _grant_rules(origin, ao, cred_ok, ex, method, acrm, acrh, ok, pre[0], post[0])
                        if why is None and post[1] != pre[1]:
                            why = f'non-CORS headers changed: {pre[1]} -> {post[1]}'
                else:
                    PLAN.clear()
                    PLAN.update({'allow': rnd.choice([None, 'GET, PUT', 'GET']), 'preset': rnd.choice([{}, {}, {}, {'Access-Control-Allow-Origin': 'http://preset'}, {'Access-Control-Allow-Methods': 'PRESET'}])})
                    step['on_options_of_/o'] = dict(PLAN)
                    try:
                        t2 = mk()
                        st2 = rnd.getstate()
                        rnd.setstate(state)                    # the twin gets the very same request (same placement of the lines)
                        place_origin(rnd, asgi, t2, lines)
                        rnd.setstate(st2)
                        del REC[:]
                        T = _run_asgi(loop, twin, t2) if asgi else _run_wsgi(twin, t2)
                        del REC[:]
                        F = _run_asgi(loop, app, target) if asgi else _run_wsgi(app, target)
                        rec = list(REC)
                    except Hang:
                        why = 'request did not return (hang)'
                    except (asyncio.TimeoutError, TimeoutError):
                        why = 'request did not return (timeout)'
                    if why is None:
                        step['response'] = {'status': F[0], 'headers': F[1]}
                        step['response_without_cors_middleware'] = {'status': T[0], 'headers': T[1]}
                        for pre, ok, post in rec:
                            sess.case(case)
                            sess.op(*model_io(cur, origin, method, acrm, acrh, ok, pre, post))
                        if mode != 'cors_enable' and len(rec) != 1:
                            why = f'the policy ran {len(rec)} times in one exchange'
                        elif not allowed:
                            if F != T:
                                why = 'the response differs from the one of the same app without the CORS middleware: ' + \
                                      str({k: (T[1].get(k), F[1].get(k)) for k in set(T[1]) | set(F[1]) if T[1].get(k) != F[1].get(k)} or {'status/body': (T[0], F[0])})
                        else:
                            names = {n.lower() for _, n in NAMED} | {'vary'}
                            if F[0] != T[0] or F[2] != T[2] or {k: v for k, v in F[1].items() if k not in names} != {k: v for k, v in T[1].items() if k not in names}:
                                why = 'status, body or non-CORS headers differ from the same app without the CORS middleware'
                            else:
                                pre = {k: T[1].get(n.lower()) for k, n in NAMED}
                                post = {k: F[1].get(n.lower()) for k, n in NAMED}
                                why = _grant_rules(origin, ao, cred_ok, ex, method, acrm, acrh, T[0] < 400, pre, post)
                if why is not None:
                    what = ('no Origin field' if origin is None else
                            f'Origin field {origin!r} ({len(lines)} field lines {lines})' if len(lines) > 1 else f'Origin {origin!r}')
                    why = (f'request {sum(1 for h in history if "request" in h)} of the history, after {n_assign} assignment(s); configuration at that time {_cfg_json(cur)}; {what} is '
                           + ('granted' if allowed else 'not granted') + ' by it: ' + why)
                ctx.oracle('history of one middleware object: every request is answered by the configuration current AT THAT REQUEST (constructor arguments, then whatever the application assigned to allow_origins / '
                           'allow_credentials / expose_headers since); a request whose Origin field (all its field lines combined) is not exactly one granted origin gets no grant; grants, credentials, wildcard and '
                           'preflight rules of the statement otherwise', why is None, why, case)
                ctx.seen(('hist', stack, mode, cfg_words(cur), n_assign, method, path, tuple(lines), origin, acrm, acrh, own_origin(addr)), bool(lines))
                ctx.count(f'hist_{stack}_{mode}_request_' + ('under_the_constructor_configuration' if not n_assign else
                                                               'after_reassignment_across_the_wildcard_boundary' if crossed else 'after_reassignment_not_crossing_the_wildcard_boundary'))
                ctx.count(f'hist_{stack}_origin_field_lines_{min(len(lines), 3)}_' + ('granted' if allowed else 'no_grant'))
                if len(lines) > 1 and ao != '*':
                    ctx.count(f'hist_{stack}_several_origin_lines_' + ('last_line_is_a_granted_origin' if lines[-1] in ao else 'first_line_is_a_granted_origin' if lines[0] in ao else 'no_end_line_granted'))
    finally:
        if loop is not None:
            loop.close()
    sess.finish()

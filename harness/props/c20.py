"""C20 - the built-in CORS policy grants exactly the configured origins.

Per-call time limits are 30 s: the code under test has no loops, the limit only keeps the harness from blocking.
(A 3 s limit fired spuriously on a machine with load average > 100, and SIGALRM raised inside falcon's generic
exception handler turned into a 500 response.)
"""
PROP = 'C20'
LEAN_MODULES = ['FalconModel.Cors', 'FalconModel.CorsProofs']
DRIVERS = ['crdriver']
THEOREMS = [
    # header-map algebra the policy proofs rest on
    'Co.get_set_self', 'Co.get_set_ne', 'Co.get_del_self', 'Co.get_del_ne', 'Co.find_filter_ne', 'Co.get_del_any', 'Co.get_del_absent',
    # processF = process_response as it is in the tree (with the F12 repair a822153)
    'Co.processF_stages', 'Co.grantStage_get', 'Co.exposeStage_get',
    'Co.noOriginF_untouched', 'Co.disallowedF_untouched', 'Co.changed_only_for_allowed_origin', 'Co.others_untouched',
    'Co.allow_untouched_unless_preflight',
    'Co.credentialsF_only_configured', 'Co.credentialsF_imply_echo', 'Co.wildcard_never_with_credentials',
    'Co.preflight_approved_iff', 'Co.approved_preflight_exact', 'Co.preflight_removes_allow',
    'Co.denied_preflight_grants_nothing',
    # the same first four statements for the pinned function, and the regression witness of F12
    'Co.no_origin_untouched', 'Co.disallowed_untouched', 'Co.credentials_only_configured', 'Co.credentials_imply_echo',
    'Co.f12_witness',
]
STATEMENTS = {
    'Co.noOriginF_untouched': 'a request without Origin leaves the whole response header map unchanged, for every configuration, pre-existing headers and outcome',
    'Co.disallowedF_untouched': 'a request whose Origin the configuration does not allow leaves the whole header map unchanged',
    'Co.changed_only_for_allowed_origin': 'if process_response changes anything at all, the request carried an Origin that allow_origins admits',
    'Co.others_untouched': 'headers other than the six Access-Control-* grant headers and Allow are never modified',
    'Co.allow_untouched_unless_preflight': 'Allow is modified only in a successful OPTIONS exchange carrying Access-Control-Request-Method',
    'Co.credentialsF_only_configured': 'if the responder had not set Access-Control-Allow-Credentials and the result carries it, the Origin is allowed and is configured in allow_credentials',
    'Co.credentialsF_imply_echo': 'whenever the middleware grants credentials the Access-Control-Allow-Origin it leaves is the request\'s own Origin',
    'Co.wildcard_never_with_credentials': 'for a request Origin other than the literal "*": a credentials grant of the middleware never coexists with Access-Control-Allow-Origin: *',
    'Co.preflight_approved_iff': 'Access-Control-Allow-Methods is present afterwards (responder had not set it) iff the Origin is allowed and req_succeeded and method = OPTIONS and Access-Control-Request-Method is non-empty and the response carried an Allow header',
    'Co.approved_preflight_exact': 'an approved preflight gets Allow-Methods = the advertised Allow value, Allow-Headers = the requested headers (or *), Max-Age = 86400, and loses Allow',
    'Co.preflight_removes_allow': 'a successful preflight from an allowed origin never keeps its Allow header',
    'Co.denied_preflight_grants_nothing': 'a successful preflight from an allowed origin whose response advertises no Allow ends with none of the six grant headers, whatever the configuration and whatever the responder had set',
    'Co.f12_witness': 'the pre-repair function kept Access-Control-Allow-Credentials: true on a denied preflight (regression witness of F12, by decide)',
}
TRUSTED = [
    'falcon.Response header map (C15) and Request.get_header as the interface between the middleware and the message',
    'the twin application without the CORS middleware as the meaning of "untouched" in the full-stack oracle',
]
ASSUMPTIONS = [
    'the request Origin is not the literal string "*" (echoing it would be indistinguishable from the wildcard; browsers never send it)',
    'the wildcard rule speaks about credentials granted by the middleware: a responder that itself pre-sets Access-Control-Allow-Credentials or -Origin is left alone (stated explicitly in DESIGN.md C20)',
    '"withdrawn otherwise" is read as: a successful OPTIONS exchange with Access-Control-Request-Method whose response advertises no Allow (the reading under which F12 was found); a failed exchange keeps the origin grant',
    'configuration normalisation (str / iterable -> frozenset, expose_headers join) is exercised by the correspondence through real CORSMiddleware objects; the Lean Cfg is the normalised configuration',
]
RULE = ('(1) unit level: random configurations over the origin universe {http://a, http://b, http://c} (allow_origins: *, str, list/tuple/set/frozenset/generator; allow_credentials: None, *, str, iterables; '
        'expose_headers: None, "", str, list) x request views (Origin absent / allowed / disallowed / case variant / empty / look-alike; any method; Access-Control-Request-Method/-Headers absent, empty, set) x '
        'random pre-existing response headers (any subset of the six grant headers, Allow and other headers, random name case) x req_succeeded: the real CORSMiddleware.process_response / '
        'process_response_async is called on real falcon Request/Response objects of both stacks and compared with the model. '
        '(2) full stack: real falcon.App / falcon.asgi.App with the middleware alone, before/after/between other middleware (one of which may fail in process_request), independent_middleware on/off, cors_enable=True; '
        'targets: routed resource (auto-OPTIONS / custom on_options with and without Allow), sinks with/without Allow, static route, unrouted; responders that pre-set CORS headers and/or fail '
        '(HTTPError, HTTPError carrying Allow, unhandled exception); each request also runs against a twin app without the CORS middleware; every process_response call observed inside the app is also fed to the model. '
        'non-trivial = request carries an Origin; distinct = distinct (level, stack, configuration, arrangement, request, plan)')
PARTIAL = ''
JOBS = {'quick': 4, 'thorough': 16}

NAMED = [('acao', 'Access-Control-Allow-Origin'), ('acac', 'Access-Control-Allow-Credentials'), ('acam', 'Access-Control-Allow-Methods'),
         ('acah', 'Access-Control-Allow-Headers'), ('acma', 'Access-Control-Max-Age'), ('aceh', 'Access-Control-Expose-Headers'),
         ('allow', 'Allow')]
GRANTS = [n.lower() for k, n in NAMED if k != 'allow']
UNIVERSE = ['http://a', 'http://b', 'http://c']


def S(s):
    return '~' if s is None else '.' + s.encode('latin-1').hex()


def enc_origins(v):
    """normalised configuration value ('*' or a set) -> driver syntax"""
    if v == '*':
        return '*'
    return ','.join(S(x) for x in sorted(v)) or '-'


def randcase(rnd, name):
    r = rnd.random()
    return name if r < 0.6 else name.lower() if r < 0.8 else name.upper() if r < 0.9 else ''.join(c.upper() if rnd.random() < 0.5 else c.lower() for c in name)


def gen_config(rnd):
    """-> (kwargs for CORSMiddleware, normalised (ao, ac, ex) as the documentation defines them, JSON description)"""
    def shape(vals):
        k = rnd.choice(['list', 'tuple', 'set', 'frozenset', 'gen'])
        return {'list': list, 'tuple': tuple, 'set': set, 'frozenset': frozenset, 'gen': lambda v: (x for x in list(v))}[k](vals)
    r = rnd.random()
    if r < 0.3:
        ao_arg, ao = '*', '*'
    elif r < 0.5:
        o = rnd.choice(UNIVERSE)
        ao_arg, ao = o, {o}
    else:
        vals = rnd.sample(UNIVERSE, rnd.choice([0, 1, 2, 2, 3, 3]))
        ao_arg, ao = shape(vals), set(vals)
    r = rnd.random()
    if r < 0.25:
        ac_arg, ac = None, set()
    elif r < 0.5:
        ac_arg, ac = '*', '*'
    elif r < 0.65:
        o = rnd.choice(UNIVERSE)
        ac_arg, ac = o, {o}
    else:
        vals = rnd.sample(UNIVERSE, rnd.randint(0, 3))
        ac_arg, ac = shape(vals), set(vals)
    r = rnd.random()
    if r < 0.4:
        ex_arg, ex = None, None
    elif r < 0.5:
        ex_arg, ex = '', ''
    elif r < 0.7:
        ex_arg, ex = 'X-One', 'X-One'
    elif r < 0.8:
        ex_arg, ex = [], ''
    else:
        vals = rnd.sample(['X-One', 'X-Two', 'X-Three'], rnd.randint(1, 3))
        ex_arg, ex = rnd.choice([list, tuple])(vals), ', '.join(vals)
    kw = {'allow_origins': ao_arg, 'allow_credentials': ac_arg, 'expose_headers': ex_arg}
    desc = describe_cfg(kw)
    desc['normalised'] = {'allow_origins': ao if ao == '*' else sorted(ao), 'allow_credentials': ac if ac == '*' else sorted(ac), 'expose_headers': ex}
    return kw, (ao, ac, ex), desc


def describe_cfg(kw):
    out = {}
    for k, v in kw.items():
        if v is None or isinstance(v, str):
            out[k] = v
        elif isinstance(v, (set, frozenset)):
            out[k] = {type(v).__name__: sorted(v)}
        elif isinstance(v, (list, tuple)):
            out[k] = {type(v).__name__: list(v)}
        else:
            out[k] = 'generator (see normalised)'
    return out


def gen_origin(rnd):
    return rnd.choice([None, None, None, 'http://a', 'http://a', 'http://a', 'http://a', 'http://b', 'http://b', 'http://b', 'http://c', 'http://c',
                       'HTTP://A', 'http://A', 'http://a.evil', 'http://a/', '', 'null', 'http://d'])


def cfg_words(norm):
    ao, ac, ex = norm
    return f'ao={enc_origins(ao)} ac={enc_origins(ac)} ex={S(ex)}'


def snapshot(resp):
    """The CORS-relevant view of a real falcon Response: the seven named headers + every other header."""
    named = {k: resp.get_header(n) for k, n in NAMED}
    low = {n.lower() for _, n in NAMED}
    other = {k: v for k, v in resp.headers.items() if k.lower() not in low}
    return named, other


def model_io(norm, origin, method, acrm, acrh, ok, pre, post):
    """Render one process_response call as (driver line, expected reply)."""
    pnamed, pother = pre
    qnamed, qother = post
    names = sorted(set(pother))
    idx = {n: i for i, n in enumerate(names)}
    hd = [f'{k}:{S(v)}' for k, v in pnamed.items() if v is not None] + [f'o{idx[n]}:{S(pother[n])}' for n in names]
    line = (f"p {cfg_words(norm)} origin={S(origin)} opt={1 if method == 'OPTIONS' else 0} acrm={S(acrm)} acrh={S(acrh)} "
            f"ok={1 if ok else 0} hdrs={';'.join(hd) or '-'}")
    extra = sorted(set(qother) - set(pother))
    oth = [f'o{idx[n]}:{S(qother[n])}' for n in names if n in qother]
    exp = ' '.join(f'{k}={S(qnamed[k])}' for k, _ in NAMED) + ' other=' + (';'.join(oth) or '-')
    if extra:
        exp += ' UNEXPECTED-NEW-HEADERS=' + ','.join(extra)
    return line, exp


def run(ctx):
    import os
    part = os.environ.get('VERIF_C20_PART', 'unit,apps')      # debugging knob: run only one of the two levels
    if 'unit' in part:
        _unit(ctx, asgi=False)
        _unit(ctx, asgi=True)
    if 'apps' in part:
        _apps(ctx, asgi=False)
        _apps(ctx, asgi=True)


# ------------------------------------------------------------------ (1) process_response on real Request/Response objects

def _unit(ctx, asgi):
    import asyncio
    import falcon
    import falcon.asgi
    import falcon.testing as ft
    rnd = ctx.rng
    stack = 'asgi' if asgi else 'wsgi'
    sess = ctx.session(f'{stack} CORSMiddleware.process_response{"_async" if asgi else ""} on real Request/Response = Co.processF', 'crdriver')
    loop = asyncio.new_event_loop() if asgi else None
    PRE_VALUES = {'acao': ['http://preset', '*', 'http://a'], 'acac': ['true', 'false'], 'acam': ['PRESET'], 'acah': ['X-PH'],
                  'acma': ['5'], 'aceh': ['X-P'], 'allow': ['GET, POST', 'GET', '']}
    try:
        for ci in range(ctx.n(40000, 200000)):
            kw, norm, desc = gen_config(rnd)
            ao, ac, ex = norm
            mw = falcon.CORSMiddleware(**kw)
            origin = gen_origin(rnd)
            method = rnd.choice(['GET', 'POST', 'OPTIONS', 'OPTIONS', 'OPTIONS', 'HEAD', 'DELETE'])
            acrm = rnd.choice([None, 'GET', 'GET', 'PUT', ''])
            acrh = rnd.choice([None, None, 'X-H', 'X-H, Content-Type', ''])
            ok = rnd.random() < 0.75
            hdrs = {}
            if origin is not None:
                hdrs[randcase(rnd, 'Origin')] = origin
            if acrm is not None:
                hdrs[randcase(rnd, 'Access-Control-Request-Method')] = acrm
            if acrh is not None:
                hdrs[randcase(rnd, 'Access-Control-Request-Headers')] = acrh
            if asgi:
                async def receive():
                    return {'type': 'http.disconnect'}
                req = falcon.asgi.Request(ft.create_scope(method=method, path='/x', headers=hdrs), receive)
                resp = falcon.asgi.Response()
            else:
                req = falcon.Request(ft.create_environ(method=method, path='/x', headers=hdrs))
                resp = falcon.Response()
            preset = {}
            for k, n in NAMED:
                if rnd.random() < (0.45 if k == 'allow' else 0.12):
                    v = rnd.choice(PRE_VALUES[k])
                    resp.set_header(randcase(rnd, n), v)
                    preset[k] = v
            for n in rnd.sample(['X-Custom', 'Vary', 'Content-Type', 'Cache-Control'], rnd.choice([0, 0, 1, 2])):
                resp.set_header(randcase(rnd, n), 'v-' + n.lower())
            pre = snapshot(resp)
            if asgi:
                loop.run_until_complete(mw.process_response_async(req, resp, None, ok))
            else:
                mw.process_response(req, resp, None, ok)
            post = snapshot(resp)
            case = {'level': 'unit', 'stack': stack, 'config': desc, 'request': {'method': method, 'headers': hdrs}, 'response_headers_before': {**{n: pre[0][k] for k, n in NAMED if pre[0][k] is not None}, **pre[1]}, 'req_succeeded': ok}
            sess.case(case)
            line, exp = model_io(norm, origin, method, acrm, acrh, ok, pre, post)
            sess.op(line, exp)
            # ---- the statement on this single call
            allowed = origin is not None and (ao == '*' or origin in ao)
            cred_ok = allowed and (ac == '*' or origin in ac)
            why = None
            if not allowed:
                if post != pre:
                    why = ('no Origin' if origin is None else 'Origin not allowed') + f': response headers changed from {pre} to {post}'
            else:
                why = _grant_rules(origin, ao, cred_ok, ex, method, acrm, acrh, ok, pre[0], post[0])
                if why is None and {k: v for k, v in post[1].items() if k != 'vary'} != {k: v for k, v in pre[1].items() if k != 'vary'}:
                    why = f'non-CORS headers changed: {pre[1]} -> {post[1]}'
            ctx.oracle('process_response: untouched without an allowed Origin; credentials only for configured origins and never with the wildcard; preflight approved iff successful OPTIONS+ACRM with Allow, otherwise all grants withdrawn',
                       why is None, why, case)
            ctx.seen(('unit', stack, line), origin is not None)
            ctx.count(f'unit_{stack}_' + ('no_origin' if origin is None else 'allowed' if allowed else 'disallowed'))
            if allowed and ok and method == 'OPTIONS' and acrm:
                ctx.count(f'unit_{stack}_preflight_' + ('approved' if pre[0]['allow'] is not None else 'denied'))
    finally:
        if loop is not None:
            loop.close()
    sess.finish()


def _grant_rules(origin, ao, cred_ok, ex, method, acrm, acrh, succeeded, pre, post):
    """The statement for an ALLOWED origin, on the seven named headers before/after (dicts key -> value|None).
    `pre` is what the responder (and whatever ran earlier) had put on the response."""
    preflight = method == 'OPTIONS' and bool(acrm)
    if preflight and succeeded:
        if post['allow'] is not None:
            return f'successful preflight: Allow header left in place ({post["allow"]!r})'
        if pre['allow'] is None:
            left = {k: v for k, v in post.items() if v is not None}
            if left:
                return f'denied preflight (no Allow advertised) keeps {left}'
            return None
        # approved: the permitted methods are the advertised Allow set; headers and max-age are granted
        # (their exact values - echo of the requested headers or '*', 86400 - are carried by the correspondence and theorem)
        if post['acam'] != pre['allow'] or post['acah'] is None or post['acma'] is None:
            return f'approved preflight: methods/headers/max-age = {post["acam"]!r}/{post["acah"]!r}/{post["acma"]!r}, expected {pre["allow"]!r} and a headers and a max-age grant'
        if acrh and post['acah'] not in (acrh, '*'):
            return f'approved preflight: Access-Control-Allow-Headers = {post["acah"]!r} grants other headers than the requested {acrh!r}'
    else:
        for k in ('acam', 'acah', 'acma', 'allow'):
            if post[k] != pre[k]:
                return f'not a successful preflight, but {k} changed from {pre[k]!r} to {post[k]!r}' + (' (preflight approved for a failed / non-OPTIONS exchange)' if k != 'allow' else '')
    # origin / credentials
    if pre['acao'] is not None and post['acao'] == pre['acao'] and post['acac'] == pre['acac']:
        pass    # the responder had chosen the origin grant itself and the middleware left it alone
    else:
        if not cred_ok and post['acac'] != pre['acac']:
            return f'Access-Control-Allow-Credentials became {post["acac"]!r} for an origin that is not configured for credentials'
        if cred_ok:
            if post['acac'] != 'true':
                return f'origin is configured for credentials but Access-Control-Allow-Credentials = {post["acac"]!r}'
            if post['acao'] != origin:
                return f'credentials granted but Access-Control-Allow-Origin = {post["acao"]!r} is not the echoed origin {origin!r}'
        else:
            okvals = {origin} | ({'*'} if ao == '*' else set())
            if post['acao'] not in okvals:
                return f'allowed origin but Access-Control-Allow-Origin = {post["acao"]!r}'
    # expose headers
    if ex:
        if post['aceh'] != ex:
            return f'Access-Control-Expose-Headers = {post["aceh"]!r}, configured {ex!r}'
    elif post['aceh'] != pre['aceh']:
        return f'Access-Control-Expose-Headers changed to {post["aceh"]!r} without configuration'
    return None


# ------------------------------------------------------------------ (2) real applications, with a twin lacking the middleware

def _apps(ctx, asgi):
    import asyncio
    import os
    import shutil
    import tempfile
    from runner import alarm, Hang
    import falcon
    import falcon.asgi
    import falcon.testing as ft
    rnd = ctx.rng
    stack = 'asgi' if asgi else 'wsgi'
    sess = ctx.session(f'{stack} process_response calls observed inside real apps = Co.processF', 'crdriver')
    loop = asyncio.new_event_loop() if asgi else None
    root = tempfile.mkdtemp(prefix='c20static_')
    with open(os.path.join(root, 'f.txt'), 'w') as f:
        f.write('static file')
    PLAN = {}
    REC = []
    RAN = []

    class RecCORS(falcon.CORSMiddleware):
        """Unmodified policy; records what each call saw and left (the ASGI method delegates to this one)."""
        def process_response(self, req, resp, resource, req_succeeded):
            pre = snapshot(resp)
            super().process_response(req, resp, resource, req_succeeded)
            REC.append((pre, req_succeeded, snapshot(resp)))

    class Boom(Exception):
        """a non-HTTP error of a responder, turned into a 500 by an application error handler"""

    def behave(req, resp, kind):
        RAN.append(kind)
        for n, v in PLAN.get('preset', {}).items():
            resp.set_header(n, v)
        al = PLAN.get('allow')
        if al is not None and (kind != 'res' or req.method == 'OPTIONS'):
            resp.set_header('Allow', al)
        f = PLAN.get('fail')
        if f == 'http400':
            raise falcon.HTTPBadRequest()
        if f == 'http405':
            raise falcon.HTTPMethodNotAllowed(['GET', 'PUT'])
        if f == 'exc':
            raise Boom('responder failed')
        resp.text = 'body of ' + kind

    if asgi:
        class Res:
            async def on_get(self, req, resp):
                behave(req, resp, 'res')
            on_post = on_get

        class ResOpt:
            async def on_get(self, req, resp):
                behave(req, resp, 'res')

            async def on_options(self, req, resp):
                behave(req, resp, 'res')

        async def sink(req, resp, **kw):
            behave(req, resp, 'sink')

        class Other:
            def __init__(self, tag):
                self.tag = tag

            async def process_request(self, req, resp):
                if PLAN.get('mw_fail') == self.tag:
                    raise falcon.HTTPForbidden()

            async def process_response(self, req, resp, resource, ok):
                resp.set_header('X-Other-' + self.tag, '1')
        AppT = falcon.asgi.App
    else:
        class Res:
            def on_get(self, req, resp):
                behave(req, resp, 'res')
            on_post = on_get

        class ResOpt:
            def on_get(self, req, resp):
                behave(req, resp, 'res')

            def on_options(self, req, resp):
                behave(req, resp, 'res')

        def sink(req, resp, **kw):
            behave(req, resp, 'sink')

        class Other:
            def __init__(self, tag):
                self.tag = tag

            def process_request(self, req, resp):
                if PLAN.get('mw_fail') == self.tag:
                    raise falcon.HTTPForbidden()

            def process_response(self, req, resp, resource, ok):
                resp.set_header('X-Other-' + self.tag, '1')
        AppT = falcon.App

    def build(mws, indep, cors_enable=False):
        app = AppT(middleware=mws, independent_middleware=indep, cors_enable=cors_enable)
        app.add_route('/r', Res())
        app.add_route('/ro', ResOpt())
        app.add_sink(sink, '/sink')
        app.add_static_route('/static', root)
        if asgi:
            async def on_boom(req, resp, ex, params, **kw):
                resp.status = falcon.HTTP_500
                resp.text = 'boom'
        else:
            def on_boom(req, resp, ex, params):
                resp.status = falcon.HTTP_500
                resp.text = 'boom'
        app.add_error_handler(Boom, on_boom)
        return app

    def call(app, method, path, hdrs):
        """-> (status, {lower name: value}, body)"""
        if not asgi:
            env = ft.create_environ(method=method, path=path, headers=hdrs)
            st = []
            with alarm(30):
                it = app(env, lambda s, h, e=None: st.append((s, h)))
                try:
                    body = b''.join(it)
                finally:
                    if hasattr(it, 'close'):
                        it.close()
            hd = {}
            for k, v in st[0][1]:
                hd[k.lower()] = (hd[k.lower()] + ', ' + v) if k.lower() in hd else v
            return int(st[0][0].split()[0]), hd, body
        scope = ft.create_scope(method=method, path=path, headers=hdrs)
        events = [{'type': 'http.request', 'body': b'', 'more_body': False}, {'type': 'http.disconnect'}]
        sent = []

        async def go():
            never = asyncio.get_running_loop().create_future()

            async def receive():
                if events:
                    return events.pop(0)
                await never

            async def send(e):
                sent.append(e)
            await app(scope, receive, send)
        loop.run_until_complete(asyncio.wait_for(go(), 30))
        start = next(e for e in sent if e['type'] == 'http.response.start')
        hd = {}
        for k, v in start['headers']:
            k = k.decode('latin-1').lower()
            v = v.decode('latin-1')
            hd[k] = (hd[k] + ', ' + v) if k in hd else v
        return start['status'], hd, b''.join(e.get('body', b'') for e in sent if e['type'] == 'http.response.body')

    PRESETS = [{}, {}, {}, {}, {'Access-Control-Allow-Origin': 'http://preset'}, {'access-control-allow-origin': '*'},
               {'Access-Control-Allow-Credentials': 'true'}, {'Access-Control-Allow-Methods': 'PRESET'},
               {'Access-Control-Expose-Headers': 'X-P', 'Access-Control-Max-Age': '5'},
               {'ACCESS-CONTROL-ALLOW-ORIGIN': 'http://preset', 'Access-Control-Allow-Credentials': 'true', 'Access-Control-Allow-Headers': 'X-PH'},
               {'X-Custom': 'c'}]
    try:
        for ai in range(ctx.n(2000, 10000)):
            kw, norm, desc = gen_config(rnd)
            arrangement = rnd.choice(['alone', 'alone', 'after', 'before', 'between', 'enable', 'enable+other'])
            indep = rnd.random() < 0.6
            if arrangement.startswith('enable'):
                kw, norm = {'allow_origins': '*', 'allow_credentials': None, 'expose_headers': None}, ('*', set(), None)
                desc = {'cors_enable': True, 'normalised': {'allow_origins': '*', 'allow_credentials': [], 'expose_headers': None}}
                others = [Other('b')] if arrangement == 'enable+other' else []
                app = build(list(others), indep, cors_enable=True)
                twin = build(list(others), indep)
                tags = ['b'] if others else []
            else:
                cors = RecCORS(**kw)
                tags = {'alone': [], 'after': ['b'], 'before': ['a'], 'between': ['b', 'a']}[arrangement]
                pre_m = [Other('b')] if 'b' in tags else []
                post_m = [Other('a')] if 'a' in tags else []
                app = build(pre_m + [cors] + post_m, indep)
                twin = build(pre_m + post_m, indep)
            ao, ac, ex = norm
            for ri in range(rnd.randint(14, 22)):
                origin = gen_origin(rnd)
                method = rnd.choice(['GET', 'POST', 'OPTIONS', 'OPTIONS', 'OPTIONS', 'HEAD', 'DELETE'])
                acrm = rnd.choice([None, 'GET', 'GET', 'PUT', ''])
                acrh = rnd.choice([None, None, 'X-H', 'X-H, Content-Type', ''])
                path = rnd.choice(['/r', '/r', '/ro', '/ro', '/sink/a', '/sink/b', '/static/f.txt', '/static/missing', '/none'])
                PLAN.clear()
                PLAN.update({'preset': dict(rnd.choice(PRESETS)), 'fail': rnd.choice([None, None, None, None, 'http400', 'http405', 'exc']),
                             'allow': rnd.choice([None, 'GET, PUT', 'GET', None]), 'mw_fail': rnd.choice([None] * 8 + tags)})
                hdrs = {}
                if origin is not None:
                    hdrs[randcase(rnd, 'Origin')] = origin
                if acrm is not None:
                    hdrs['Access-Control-Request-Method'] = acrm
                if acrh is not None:
                    hdrs['Access-Control-Request-Headers'] = acrh
                case = {'level': 'app', 'stack': stack, 'config': desc, 'arrangement': arrangement, 'independent_middleware': indep,
                        'request': {'method': method, 'path': path, 'headers': hdrs},
                        'responder_plan': {k: v for k, v in PLAN.items()}}
                why = None
                try:
                    del REC[:], RAN[:]
                    T = call(twin, method, path, hdrs)
                    twin_ran = list(RAN)
                    del REC[:], RAN[:]
                    F = call(app, method, path, hdrs)
                    rec = list(REC)
                except Hang:
                    why = 'request did not return (hang)'
                except (asyncio.TimeoutError, TimeoutError):
                    why = 'request did not return (timeout)'
                if why is None:
                    case['response'] = {'status': F[0], 'headers': F[1]}
                    case['response_without_cors_middleware'] = {'status': T[0], 'headers': T[1]}
                    # every call of the middleware inside the app is also a model case
                    for pre, ok, post in rec:
                        sess.case(case)
                        sess.op(*model_io(norm, origin, method, acrm, acrh, ok, pre, post))
                    allowed = origin is not None and (ao == '*' or origin in ao)
                    cred_ok = allowed and (ac == '*' or origin in ac)
                    Fh, Th = F[1], T[1]
                    names = {n.lower() for _, n in NAMED}
                    if not allowed:
                        if F != T:
                            why = ('no Origin header' if origin is None else 'Origin not allowed') + ': the response differs from the one of the same app without the CORS middleware: ' + \
                                  str({k: (Th.get(k), Fh.get(k)) for k in set(Th) | set(Fh) if Th.get(k) != Fh.get(k)} or {'status/body': (T[0], F[0])})
                    else:
                        # dependent mode: a middleware listed before the CORS one that rejects the request keeps it from running
                        ran_cors = indep or PLAN['mw_fail'] != 'b'
                        names.add('vary')     # (a policy may legitimately add Vary: Origin when it grants)
                        if F[0] != T[0] or F[2] != T[2] or {k: v for k, v in Fh.items() if k not in names} != {k: v for k, v in Th.items() if k not in names}:
                            why = 'status, body or non-CORS headers differ from the same app without the CORS middleware'
                        elif not ran_cors:
                            if Fh != Th:
                                why = 'the CORS middleware was skipped (dependent mode) but CORS headers differ from the twin'
                        else:
                            # the exchange succeeded iff nothing raised: planned failures, unrouted/405/missing file show as >= 400 on the twin
                            succeeded = T[0] < 400 and PLAN['mw_fail'] is None and not (PLAN['fail'] and twin_ran)
                            pre = {k: Th.get(n.lower()) for k, n in NAMED}
                            post = {k: Fh.get(n.lower()) for k, n in NAMED}
                            why = _grant_rules(origin, ao, cred_ok, ex, method, acrm, acrh, succeeded, pre, post)
                    ctx.count(f'app_{stack}_' + ('no_origin' if origin is None else 'allowed' if allowed else 'disallowed'))
                    ctx.count(f'app_{stack}_arrangement_{arrangement}')
                    if allowed and method == 'OPTIONS' and acrm:
                        ctx.count(f'app_{stack}_preflight_' + ('failed_exchange' if T[0] >= 400 else 'approved' if 'access-control-allow-methods' in Fh else 'denied'))
                ctx.oracle('final response: identical to the twin app without the middleware unless the Origin is allowed; grants, credentials, wildcard and preflight rules of the statement otherwise',
                           why is None, why, case)
                ctx.seen(('app', stack, str(desc), arrangement, indep, method, path, str(sorted(hdrs.items())), str(sorted(PLAN.items(), key=str))), origin is not None)
    finally:
        if loop is not None:
            loop.close()
        shutil.rmtree(root, ignore_errors=True)
    sess.finish()


LEVEL_TEXT = ('Machine-checked proofs (Lean 4) about Co.processF, a transcription of CORSMiddleware.process_response (with the F12 repair) onto a header map: for every configuration, request view, '
              'pre-existing header map and outcome - no Origin / disallowed Origin leaves everything untouched; any change implies an allowed Origin; credentials only for configured origins, always with the '
              'echoed origin and never with the wildcard; a preflight is approved iff allowed origin, successful OPTIONS, Access-Control-Request-Method and an advertised Allow, with exact methods/headers/max-age '
              'and Allow removed; a denied preflight leaves none of the six grant headers; other headers are never touched. The model is tied to falcon/middleware.py on every run by calling the real '
              'process_response / process_response_async on real Request/Response objects and inside real WSGI/ASGI apps (alone and among other middleware) and diffing the resulting header map with the '
              'compiled model; an independent oracle compares every final response with a twin app lacking the middleware and applies the statement\'s rules.')
LEVEL_NOTE = ('Trusted: Lean kernel + standard axioms; the Response header map (C15); correspondence harness, twin-app oracle. The wildcard rule is about grants of the middleware (responder-preset '
              'Access-Control-Allow-Credentials is left alone); Origin "*" is excluded.')
TECHNIQUE = 'Lean 4 proofs on a header-map model of process_response + differential correspondence (unit calls and calls observed inside real WSGI/ASGI apps) + twin-app statement oracle'

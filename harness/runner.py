"""Common flow of ``./check CNN --tier quick|thorough [--replay FILE]``.

1. Lean side (the proof): build the property's modules and drivers with ``lake``
   (under a file lock), run the axiom audit (``#print axioms`` on every theorem the
   property lists) and the forbidden-token scan.  ``obligations`` / ``discharged``
   are counted from that output.
2. Tie (the correspondence): the property module runs the real implementation,
   loaded from /repo's working-tree ``.py`` files, and the compiled Lean model
   on the same generated cases and diffs canonicalised observations.
3. Oracle: a direct Python predicate of the property statement evaluated on the
   implementation's observations; this alone decides whether an input fails.
4. Decision (DESIGN.md section 4):
     exit 0  everything checked;
     exit 1  ``VIOLATION property=CNN replay=PATH`` for an oracle failure that is
             not a listed known finding; when only a proof obligation or a
             correspondence broke, the search is enlarged and, if still no failing
             input is found, the line ends with ``no-failing-input-found``;
     exit 2  harness error / timeout (never a verdict).
Evidence is (re)written in every case.
"""
import argparse
import collections
import contextlib
import fcntl
import hashlib
import importlib
import json
import multiprocessing
import os
import random
import re
import signal
import subprocess
import sys
import time
import traceback

HERE = os.path.dirname(os.path.abspath(__file__))
VERIF = os.path.dirname(HERE)
LEAN_DIR = os.path.join(VERIF, 'lean', 'FalconModel')
BIN_DIR = os.path.join(LEAN_DIR, '.lake', 'build', 'bin')
REPO = os.environ.get('FALCON_REPO', '/repo')
# when only a proof obligation / correspondence breaks: enlarge generation by this factor (fresh seed, 16 workers) to look for a failing input
SEARCH_SCALE = {'quick': 5, 'thorough': 2}
ALLOWED_AXIOMS = {'propext', 'Classical.choice', 'Quot.sound'}
FORBIDDEN = re.compile(
    r'\bsorry\b|\badmit\b|^\s*axiom\s|native_decide|bv_decide|implemented_by|\bunsafe\s|maxHeartbeats\s+0')

BASE_TRUSTED = [
    'Lean 4.33.0 kernel; axioms limited to propext, Classical.choice, Quot.sound (audited per theorem on every run)',
    'Lean compiler/runtime executing the line-protocol drivers (same definitions the theorems mention)',
    'harness/srcload.py: importing /repo/falcon/**/*.py under CPython 3.12 is the meaning of "the code in the working tree"; the prebuilt cythonized .so twins are not verified',
    'the correspondence harness (generators, canonicalisers) and the Python property oracles',
]


class Hang(BaseException):
    """A real call did not return within the per-operation alarm: an outcome, not a harness timeout."""


def _alarm(signum, frame):
    raise Hang()


@contextlib.contextmanager
def alarm(seconds=3.0):
    """Per-operation alarm: `seconds` of CPU time (ITIMER_PROF: a busy loop is a hang however loaded the machine is),
    with a wall-clock backstop of 30x for calls that block without burning CPU."""
    old_p = signal.signal(signal.SIGPROF, _alarm)
    old_r = signal.signal(signal.SIGALRM, _alarm)
    signal.setitimer(signal.ITIMER_PROF, seconds)
    signal.setitimer(signal.ITIMER_REAL, seconds * 30)
    try:
        yield
    finally:
        signal.setitimer(signal.ITIMER_PROF, 0)
        signal.setitimer(signal.ITIMER_REAL, 0)
        signal.signal(signal.SIGPROF, old_p)
        signal.signal(signal.SIGALRM, old_r)


def hx(b):
    """Hex with '-' for the empty string (the drivers' convention)."""
    return bytes(b).hex() if b else '-'


def jsonable(o):
    if isinstance(o, (bytes, bytearray)):
        return {'hex': bytes(o).hex()}
    if isinstance(o, dict):
        return {str(k): jsonable(v) for k, v in o.items()}
    if isinstance(o, (list, tuple, set, frozenset)):
        return [jsonable(v) for v in o]
    if isinstance(o, (str, int, float, bool)) or o is None:
        return o
    return repr(o)


# ---------------------------------------------------------------- Lean bridge

def _lake(args, timeout=1800):
    env = dict(os.environ)
    p = subprocess.run(['lake'] + args, cwd=LEAN_DIR, capture_output=True, text=True, timeout=timeout, env=env)
    return p.returncode, p.stdout + p.stderr


def lean_build(modules, drivers):
    """Build the modules and driver executables under a lock.  Returns (ok, log, broken_files)."""
    os.makedirs(os.path.join(LEAN_DIR, '.lake'), exist_ok=True)
    with open(os.path.join(LEAN_DIR, '.lake', 'verif.lock'), 'w') as lk:
        fcntl.flock(lk, fcntl.LOCK_EX)
        rc, out = _lake(['build'] + list(modules) + list(drivers))
    broken = sorted(set(re.findall(r'error: (FalconModel/[\w/]+\.lean)', out)))
    return rc == 0, out, broken


def lean_audit(modules, theorems, tag):
    """#print axioms for every listed theorem.  Returns {name: [axioms] | None (not accepted)}."""
    src = ''.join(f'import {m}\n' for m in modules) + ''.join(f'#print axioms {t}\n' for t in theorems)
    path = os.path.join(LEAN_DIR, '.lake', f'audit_{tag}.lean')
    with open(path, 'w') as f:
        f.write(src)
    rc, out = _lake(['env', 'lean', path], timeout=600)
    res = {t: None for t in theorems}
    for m in re.finditer(r"'(\S+)' depends on axioms: \[([^\]]*)\]", out):
        if m.group(1) in res:
            res[m.group(1)] = [a.strip() for a in m.group(2).replace('\n', ' ').split(',') if a.strip()]
    for m in re.finditer(r"'(\S+)' does not depend on any axioms", out):
        if m.group(1) in res:
            res[m.group(1)] = []
    return res, out


def lean_forbidden_scan():
    hits = []
    for root, _, files in os.walk(LEAN_DIR):
        if '.lake' in root:
            continue
        for fn in files:
            if not fn.endswith('.lean'):
                continue
            p = os.path.join(root, fn)
            depth = 0
            for i, line in enumerate(open(p, encoding='utf-8'), 1):
                # strip block comments (nesting-aware, line-granular) and line comments
                code = ''
                j = 0
                while j < len(line):
                    if line.startswith('/-', j):
                        depth += 1; j += 2; continue
                    if line.startswith('-/', j) and depth:
                        depth -= 1; j += 2; continue
                    if depth == 0:
                        if line.startswith('--', j):
                            break
                        code += line[j]
                    j += 1
                if FORBIDDEN.search(code):
                    hits.append(f'{os.path.relpath(p, LEAN_DIR)}:{i}: {line.strip()[:100]}')
    return hits


def run_driver(name, lines, timeout=900):
    exe = os.path.join(BIN_DIR, name)
    p = subprocess.run([exe], input='\n'.join(lines) + '\n', capture_output=True, text=True, timeout=timeout)
    out = p.stdout.split('\n')
    if out and out[-1] == '':
        out.pop()
    return out


# ---------------------------------------------------------------- context handed to property modules

class Session:
    """One correspondence: cases of (line, expected reply) pairs for one driver."""

    def __init__(self, ctx, name, driver, norm=None):
        self.ctx, self.name, self.driver, self.norm = ctx, name, driver, norm or (lambda s: s)
        self.lines, self.exp, self.case_start, self.case_meta = [], [], [], []

    def case(self, meta=None):
        self.case_start.append(len(self.lines))
        self.case_meta.append(meta)

    def op(self, line, expected):
        assert '\n' not in line
        if not self.case_start:
            self.case()
        self.lines.append(line)
        self.exp.append(expected)

    def finish(self):
        ctx = self.ctx
        st = ctx.corr.setdefault(self.name, {'driver': self.driver, 'cases': 0, 'ops': 0, 'mismatching_cases': 0})
        st['cases'] += len(self.case_start)
        st['ops'] += len(self.lines)
        if not self.lines:
            return
        got = run_driver(self.driver, self.lines)
        bounds = self.case_start + [len(self.lines)]
        for ci in range(len(self.case_start)):
            a, b = bounds[ci], bounds[ci + 1]
            bad = None
            for k in range(a, b):
                g = got[k] if k < len(got) else '<no reply>'
                if self.norm(g) != self.norm(self.exp[k]):
                    bad = k
                    break
            if bad is not None:
                st['mismatching_cases'] += 1
                ctx.mismatches.append({
                    'correspondence': self.name, 'driver': self.driver, 'meta': jsonable(self.case_meta[ci]),
                    'lines': self.lines[a:b], 'impl': self.exp[a:b],
                    'model': [got[k] if k < len(got) else '<no reply>' for k in range(a, b)],
                    'first_diff_op': bad - a})
            elif len(ctx.samples) < 5 and ctx.rng_samples.random() < 0.02 + 1.0 / (1 + len(self.case_start)):
                ctx.samples.append({'correspondence': self.name, 'lines': self.lines[a:b][:12], 'both_sides': self.exp[a:b][:12]})


class Ctx:
    def __init__(self, prop, tier, seed, scale=1, shard=(0, 1), searching=False):
        self.prop, self.tier, self.seed, self.scale, self.shard, self.searching = prop, tier, seed, scale, shard, searching
        h = hashlib.sha256(f'{prop}/{seed}/{shard[0]}/{scale}'.encode()).digest()
        self.rng = random.Random(int.from_bytes(h[:8], 'big'))
        self.rng_samples = random.Random(int.from_bytes(h[8:16], 'big'))
        self.corr = {}
        self.mismatches = []
        self.oracle_evals = collections.Counter()
        self.oracle_failures = []
        self.samples = []
        self.dist = collections.Counter()
        self.nontrivial = set()
        self.evaluations = 0
        self.notes = []
        self.exhaustive = False

    @property
    def quick(self):
        return self.tier == 'quick'

    def n(self, quick, thorough=None):
        """Number of cases for this shard at this tier (x scale when searching for a failing input)."""
        base = quick if (self.tier == 'quick' or thorough is None) else thorough
        total = base * self.scale
        i, k = self.shard
        return total // k + (1 if i < total % k else 0)

    def session(self, name, driver, norm=None):
        return Session(self, name, driver, norm)

    def count(self, key, k=1):
        self.dist[key] += k

    def seen(self, obj, nontrivial=True):
        """Register one executed case; `obj` (hashable/str) identifies it for the distinct count."""
        self.evaluations += 1
        if nontrivial:
            self.nontrivial.add(hashlib.blake2b(repr(obj).encode(), digest_size=8).digest())

    def sample(self, obj, cap=5):
        if len(self.samples) < cap:
            self.samples.append(jsonable(obj))

    def oracle(self, name, ok, what=None, case=None):
        """Record one oracle evaluation; a failing one carries the concrete input as `case`."""
        self.oracle_evals[name] += 1
        if not ok:
            if len(self.oracle_failures) < 200:
                self.oracle_failures.append({'oracle': name, 'what': what, 'case': jsonable(case)})
            else:
                self.dist['oracle_failures_beyond_200'] += 1
        return ok

    def export(self):
        return {'corr': self.corr, 'mismatches': self.mismatches[:50], 'n_mismatches': len(self.mismatches),
                'oracle_evals': dict(self.oracle_evals), 'oracle_failures': self.oracle_failures,
                'samples': self.samples, 'dist': dict(self.dist), 'nontrivial': list(self.nontrivial),
                'evaluations': self.evaluations, 'notes': self.notes, 'exhaustive': self.exhaustive}


def _worker(args):
    modname, prop, tier, seed, scale, shard, searching = args
    sys.path.insert(0, HERE)
    ctx = None
    try:
        import srcload  # noqa: F401  (must precede any falcon import)
        import logging
        logging.disable(logging.CRITICAL)
        mod = importlib.import_module(modname)
        ctx = Ctx(prop, tier, seed, scale, shard, searching)
        mod.run(ctx)
        return ctx.export()
    except BaseException:
        tb = traceback.format_exc()
        try:        # what the worker had observed before it stopped still counts (oracle failures, finished sessions)
            out = ctx.export()
            out['exhaustive'] = False
        except BaseException:
            return {'crash': tb}
        out['crash'] = tb
        return out


def run_shards(modname, prop, tier, seed, scale, jobs, searching=False):
    args = [(modname, prop, tier, seed, scale, (i, jobs), searching) for i in range(jobs)]
    if jobs == 1:
        # still a subprocess, so that falcon is imported fresh from the working tree
        with multiprocessing.get_context('spawn').Pool(1) as pool:
            results = pool.map(_worker, args)
    else:
        with multiprocessing.get_context('spawn').Pool(jobs) as pool:
            results = pool.map(_worker, args)
    merged = {'corr': {}, 'mismatches': [], 'n_mismatches': 0, 'oracle_evals': collections.Counter(),
              'oracle_failures': [], 'samples': [], 'dist': collections.Counter(), 'nontrivial': set(),
              'evaluations': 0, 'notes': [], 'exhaustive': True, 'crashes': []}
    for r in results:
        if 'crash' in r:
            merged['crashes'].append(r['crash'])
            if 'corr' not in r:
                continue
        for k, v in r['corr'].items():
            d = merged['corr'].setdefault(k, {'driver': v['driver'], 'cases': 0, 'ops': 0, 'mismatching_cases': 0})
            for f in ('cases', 'ops', 'mismatching_cases'):
                d[f] += v[f]
        merged['mismatches'] += r['mismatches']
        merged['n_mismatches'] += r['n_mismatches']
        merged['oracle_evals'].update(r['oracle_evals'])
        merged['oracle_failures'] += r['oracle_failures']
        merged['samples'] += r['samples']
        merged['dist'].update(r['dist'])
        merged['nontrivial'].update(bytes(x) for x in r['nontrivial'])
        merged['evaluations'] += r['evaluations']
        merged['notes'] += r['notes']
        merged['exhaustive'] = merged['exhaustive'] and r['exhaustive']
    return merged


# ---------------------------------------------------------------- known findings

def load_known():
    p = os.path.join(VERIF, 'known_findings.json')
    if not os.path.exists(p):
        return []
    return json.load(open(p))['findings']


def match_known(entry, failure):
    """An entry of kind 'known' matches a failure iff oracle name matches and every (key, regex) of
    entry['match'] matches str(failure['case'][key]) / failure['what']."""
    if entry.get('kind') != 'known':
        return False
    m = entry.get('match', {})
    if m.get('oracle') and m['oracle'] != failure['oracle']:
        return False
    if m.get('what') and not re.search(m['what'], failure.get('what') or ''):
        return False
    case = failure.get('case') or {}
    for k, rx in (m.get('case') or {}).items():
        if not isinstance(case, dict) or k not in case or not re.fullmatch(rx, json.dumps(case[k], sort_keys=True)):
            return False
    return True


# ---------------------------------------------------------------- main

def main():
    ap = argparse.ArgumentParser()
    ap.add_argument('prop')
    ap.add_argument('--tier', default=os.environ.get('VERIF_TIER', 'quick'), choices=['quick', 'thorough'])
    ap.add_argument('--replay')
    ap.add_argument('--jobs', type=int, default=0)
    a = ap.parse_args()
    prop = a.prop.upper()
    tier = a.tier
    try:
        seed = int(os.environ.get('VERIF_SEED', '0') or 0)
    except ValueError:
        seed = 0
    t0 = time.time()
    sys.path.insert(0, HERE)
    modname = f'props.{prop.lower()}'
    spec = importlib.import_module(modname)  # metadata only; falcon is imported inside run(), in the workers
    jobs = a.jobs or (spec.JOBS.get(tier, 4) if hasattr(spec, 'JOBS') else (4 if tier == 'quick' else 16))

    if a.replay:
        # Case generation is a deterministic function of (property, seed, tier, scale, shards): re-execute exactly that run
        # and report whether the recorded failing input fails again.
        rp = json.load(open(a.replay))
        print('replaying', a.replay)
        print(json.dumps(rp.get('failing_input') or rp.get('no_longer_checks'), indent=1)[:3000])
        r = run_shards(modname, prop, rp.get('tier', tier), rp.get('seed', seed), rp.get('scale', 1), rp.get('jobs', jobs), rp.get('searching', False))
        want = json.dumps((rp.get('failing_input') or {}).get('case'), sort_keys=True)
        known_r = [k for k in load_known() if k.get('property') == prop]
        fails = [f for f in r['oracle_failures'] if not any(match_known(k, f) for k in known_r)]
        same = [f for f in fails if json.dumps(f.get('case'), sort_keys=True) == want]
        print(f'replay: {len(fails)} unlisted oracle failures ({len(same)} on the recorded input; {len(r["oracle_failures"]) - len(fails)} known findings), {r["n_mismatches"]} correspondence mismatches')
        if fails or r['n_mismatches']:
            print(f'VIOLATION property={prop} replay={a.replay}')
            sys.exit(1)
        sys.exit(0)

    # 1. Lean side
    lean = {'ok': False}
    try:
        ok, blog, broken_files = lean_build(spec.LEAN_MODULES, spec.DRIVERS)
        audit, alog = (lean_audit(spec.LEAN_MODULES, spec.THEOREMS, prop) if ok else ({t: None for t in spec.THEOREMS}, ''))
        forb = lean_forbidden_scan()
        recheck = None
        if ok and tier == 'thorough':
            # independent re-check of the compiled .olean files of the property's modules
            rc_lc, out_lc = _lake(['env', 'leanchecker'] + list(spec.LEAN_MODULES), timeout=1800)
            recheck = {'cmd': 'lake env leanchecker ' + ' '.join(spec.LEAN_MODULES), 'exit': rc_lc, 'tail': out_lc[-400:]}
            if rc_lc != 0:
                ok = False; blog = out_lc
        bad_ax = {t: ax for t, ax in audit.items() if ax is None or not set(ax) <= ALLOWED_AXIOMS}
        lean = {'ok': ok and not bad_ax and not forb, 'build_ok': ok, 'broken_files': broken_files,
                'audit': audit, 'bad_axioms': bad_ax, 'forbidden': forb, 'leanchecker': recheck,
                'log_tail': (blog if not ok else alog)[-3000:] if (not ok or bad_ax) else ''}
    except subprocess.TimeoutExpired:
        print('lean build/audit timed out'); sys.exit(2)
    obligations = len(spec.THEOREMS)
    discharged = sum(1 for t, ax in lean.get('audit', {}).items() if ax is not None and set(ax) <= ALLOWED_AXIOMS) if lean.get('build_ok') else 0

    # 2./3. correspondence + oracle on the real code
    drivers_ok = all(os.path.exists(os.path.join(BIN_DIR, d)) for d in spec.DRIVERS)
    res = None
    if drivers_ok:
        res = run_shards(modname, prop, tier, seed, 1, jobs)
    else:
        res = run_shards(modname, prop, tier, seed, 1, jobs) if getattr(spec, 'ORACLE_WITHOUT_DRIVER', False) else None

    known = [k for k in load_known() if k.get('property') == prop]
    def split(failures):
        unlisted, hits = [], collections.OrderedDict()
        for f in failures:
            e = next((k for k in known if match_known(k, f)), None)
            if e is None:
                unlisted.append(f)
            else:
                hits.setdefault(e['id'], [e, 0])[1] += 1
        return unlisted, hits

    crashes = res['crashes'] if res else ['drivers missing: lean build failed']
    unlisted, hits = split(res['oracle_failures']) if res else ([], {})
    # A worker that could not complete its run (an exception surfaced where the harness did not expect one: the implementation raised
    # through the harness, or no longer has the shape the harness drives) is a BROKEN TIE like a correspondence mismatch - not a verdict by
    # itself and not a harness error: the decision protocol applies (search; VIOLATION ... no-failing-input-found naming the crash).
    # Exit 2 stays reserved for timeouts and for a Lean toolchain that cannot run.
    crashed = bool(res is not None and crashes)
    tie_broken = (not lean['ok']) or (res is None) or res['n_mismatches'] > 0 or crashed
    searched = None
    if crashed:
        print('TIE BROKEN - the harness could not complete its run against this tree:\n' + crashes[0])
    if not unlisted and tie_broken:
        # broken proof / correspondence: not by itself a violation -> search for a concrete failing input
        searched = run_shards(modname, prop, tier, seed + 7919, SEARCH_SCALE[tier], 16, searching=True)
        u2, h2 = split(searched['oracle_failures'])
        unlisted = u2
        for k, v in h2.items():
            hits.setdefault(k, v)

    # evidence
    wall = time.time() - t0
    cov = {
        'obligations': obligations, 'discharged': discharged,
        'checker_cmd': f'cd lean/FalconModel && lake build {" ".join(spec.LEAN_MODULES + spec.DRIVERS)} && lake env lean .lake/audit_{prop}.lean  (#print axioms on each theorem; forbidden-token scan)',
        'trusted_base': BASE_TRUSTED + list(getattr(spec, 'TRUSTED', [])),
        'theorems': [{'name': t, 'axioms': lean.get('audit', {}).get(t)} for t in spec.THEOREMS],
        'theorem_statements': getattr(spec, 'STATEMENTS', {}),
        'evaluations': max(1, res['evaluations']) if res else 1,
        'distinct_nontrivial': len(res['nontrivial']) if res else 0,
        'rule': spec.RULE,
        'samples': (res['samples'][:6] if res and res['samples'] else [{'note': 'no correspondence sample recorded'}]),
        'correspondences': res['corr'] if res else {},
        'oracle_evaluations': dict(res['oracle_evals']) if res else {},
        'input_distribution': dict(sorted(res['dist'].items())) if res else {},
        'exhaustive': bool(res and res['exhaustive'] and getattr(spec, 'EXHAUSTIVE', {}).get(tier, False)),
        'known_findings_hit': {k: v[1] for k, v in hits.items()},
        'lean': {k: lean.get(k) for k in ('build_ok', 'broken_files', 'bad_axioms', 'forbidden', 'leanchecker')},
        'partial': getattr(spec, 'PARTIAL', ''),
        'notes': (res['notes'][:20] if res else []),
    }
    if searched is not None:
        cov['failing_input_search'] = {'evaluations': searched['evaluations'], 'oracle_evaluations': dict(searched['oracle_evals']),
                                       'oracle_failures': len(searched['oracle_failures'])}
    violations = 0
    out_lines = []
    rc = 0
    for k, (e, cnt) in hits.items():
        out_lines.append(f'KNOWN-FINDING: property={prop} {e["what"]} (matched {cnt} observations)')
    os.makedirs(os.path.join(VERIF, 'replays'), exist_ok=True)
    if unlisted:
        violations = len(unlisted)
        rp = os.path.join(VERIF, 'replays', f'{prop}_{tier}_{seed}.json')
        json.dump({'property': prop, 'seed': (seed if searched is None else seed + 7919), 'tier': tier,
                   'scale': 1 if searched is None else SEARCH_SCALE[tier],
                   'jobs': jobs if searched is None else 16, 'searching': searched is not None,
                   'failing_input': unlisted[0], 'more_failing_inputs': unlisted[1:10], 'total_failing': len(unlisted),
                   'tie': {'lean_ok': lean['ok'], 'correspondence_mismatches': res['n_mismatches'] if res else None,
                           'first_mismatch': (res['mismatches'][0] if res and res['mismatches'] else None)}},
                  open(rp, 'w'), indent=1)
        out_lines.append(f'VIOLATION property={prop} replay={rp}')
        rc = 1
    elif tie_broken:
        violations = 1
        rp = os.path.join(VERIF, 'replays', f'{prop}_{tier}_{seed}.json')
        what = []
        if not lean['ok']:
            what.append({'broken_proof_obligations': sorted(lean.get('bad_axioms', {}).keys()) or spec.THEOREMS,
                         'broken_files': lean.get('broken_files'), 'forbidden': lean.get('forbidden'), 'log_tail': lean.get('log_tail')})
        if crashed:
            what.append({'broken_correspondences': ['the harness could not complete its run against this tree (every correspondence of the property)'],
                         'exception': crashes[0].strip().splitlines()[-1], 'traceback_tail': crashes[0].strip().splitlines()[-12:],
                         'workers_that_stopped': len(crashes)})
        if res and res['n_mismatches']:
            what.append({'broken_correspondences': sorted({m['correspondence'] for m in res['mismatches']}),
                         'n_mismatching_cases': res['n_mismatches'], 'first_mismatches': res['mismatches'][:3]})
        json.dump({'property': prop, 'seed': seed, 'tier': tier, 'no_failing_input_found': True,
                   'no_longer_checks': what,
                   'search': cov.get('failing_input_search')}, open(rp, 'w'), indent=1)
        out_lines.append(f'VIOLATION property={prop} replay={rp} no-failing-input-found')
        rc = 1
    ev = {'property_id': prop, 'tier': tier, 'seed': seed, 'level': 'proof', 'coverage': cov,
          'assumptions': list(getattr(spec, 'ASSUMPTIONS', [])), 'wall_s': round(time.time() - t0, 2), 'violations': violations}
    os.makedirs(os.path.join(VERIF, 'evidence'), exist_ok=True)
    json.dump(ev, open(os.path.join(VERIF, 'evidence', f'{prop}.json'), 'w'), indent=1, sort_keys=False)
    summ = (f'{prop} {tier} seed={seed}: theorems {discharged}/{obligations}; '
            + '; '.join(f'{k}: {v["cases"]} cases/{v["ops"]} ops, {v["mismatching_cases"]} mismatching' for k, v in (res['corr'].items() if res else []))
            + f'; oracle evals {sum(res["oracle_evals"].values()) if res else 0}, failures {len(res["oracle_failures"]) if res else 0}'
            + f'; {wall:.1f}s')
    print(summ)
    for l in out_lines:
        print(l)
    sys.exit(rc)


if __name__ == '__main__':
    main()

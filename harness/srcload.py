"""Source-mode importer: force ``falcon`` and ``falcon.*`` to load from the ``.py``
files of the working tree (``$FALCON_REPO``, default ``/repo``), ignoring the
prebuilt cythonized ``.so`` twins that sit next to them and cannot be rebuilt in
this sandbox.  ``falcon.cyutil.*`` (``.pyx`` only, prebuilt) raises ImportError
unless ``FALCON_CYUTIL=1`` so that the pure-Python ``uri.decode``,
``parse_query_string``, ``BufferedReader`` ... are what is exercised.

Import this module before anything imports ``falcon``.
"""
import importlib.abc
import importlib.util
import os
import sys

REPO = os.environ.get('FALCON_REPO', '/repo')


class SrcFinder(importlib.abc.MetaPathFinder):
    def find_spec(self, fullname, path=None, target=None):
        if fullname != 'falcon' and not fullname.startswith('falcon.'):
            return None
        base = os.path.join(REPO, *fullname.split('.'))
        init = os.path.join(base, '__init__.py')
        if os.path.isdir(base) and os.path.exists(init):
            return importlib.util.spec_from_file_location(
                fullname, init, submodule_search_locations=[base])
        if os.path.exists(base + '.py'):
            return importlib.util.spec_from_file_location(fullname, base + '.py')
        if fullname.startswith('falcon.cyutil.') and os.environ.get('FALCON_CYUTIL') != '1':
            raise ImportError('cyutil disabled by the verification harness (source mode)')
        return None


if not any(isinstance(f, SrcFinder) for f in sys.meta_path):
    assert 'falcon' not in sys.modules, 'srcload must be imported before falcon'
    sys.meta_path.insert(0, SrcFinder())
    sys.dont_write_bytecode = True

import FalconModel.AsyncReader
import FalconModel.AsyncReaderIter
open ARd Rd

def hexD (n : Nat) : Char := if n < 10 then Char.ofNat (48+n) else Char.ofNat (87+n)
def toHex (bs : Bytes) : String := String.ofList (bs.flatMap fun b => [hexD (b.toNat/16), hexD (b.toNat%16)])
def hv (c : Char) : Nat := if c.isDigit then c.toNat - 48 else c.toNat - 87
def fromHex (s : String) : Bytes :=
  let rec go : List Char → Bytes
    | a :: b :: r => (hv a * 16 + hv b).toUInt8 :: go r
    | _ => []
  if s == "-" then [] else go s.toList
def optInt (s : String) : Option Int := if s == "none" then none else s.toInt?
def showRes : ARd.Res → String
  | .ok b => "ok " ++ toHex b
  | .delimErr => "err delim"
  | .valueErr => "err value"
def st (r : AR) : String := s!" tell={tell r} eof={eof r}"

def step' (r : AR) (line : String) : AR × String :=
  match line.trimAscii.toString.splitOn " " with
  | "new" :: chunk :: parts =>
    ({ chunk := chunk.toInt!, src := parts.map fromHex }, "ok")
  | ["read", n] => let (x, r) := ARd.read r (optInt n); (r, showRes x ++ st r)
  | ["readall"] => let (x, r) := ARd.readall r; (r, showRes x ++ st r)
  | ["peek", n] => let (b, r) := ARd.peek r n.toInt!; (r, "ok " ++ toHex b ++ st r)
  | ["ru", d, n, c] => let (x, r, _) := ARd.readUntil r (fromHex d) (optInt n) (c == "1"); (r, showRes x ++ st r)
  | ["pu", d, c] => let (x, r) := ARd.pipeUntil r (fromHex d) (c == "1"); (r, showRes x ++ st r)
  | ["pipe"] => let (x, r) := ARd.pipe r; (r, showRes x ++ st r)
  | ["iter", k] =>
    let (cs, r) := ARi.iterate r (max k.toNat! 1)
    (r, "chunks" ++ String.join (cs.map fun c => " " ++ (if c.isEmpty then "-" else toHex c)) ++ st r)
  | ["exhaust"] => let (x, r) := ARd.pipe r; (r, (match x with | .ok _ => "unit" | e => showRes e) ++ st r)
  | _ => (r, "bad-op")

partial def loop (h : IO.FS.Stream) (r : AR) : IO Unit := do
  let line ← h.getLine
  if line.isEmpty then return ()
  let (r', out) := step' r line
  IO.println out
  loop h r'
def main : IO Unit := do loop (← IO.getStdin) { chunk := 1, src := [] }

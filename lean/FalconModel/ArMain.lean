import FalconModel.AsyncReader
import FalconModel.AsyncReaderIter
import FalconModel.AsyncReaderNested
import FalconModel.AsyncReaderGuard
open ARd Rd

/-! line-protocol driver for the models of falcon/asgi/reader.py:

      new <chunk> <piece hex | -> ...     -> ok          root reader `ARd.AR` over the given source pieces
      read <n|none> | readall | peek <n> | ru <d> <n|none> <0|1> | pu <d> <0|1> | pipe | exhaust | iter <k>
                                          -> ok <hex> | unit | err delim | err value | chunks <hex|-> ...
                                             followed by ` tell=<tell()> eof=<eof>` of the reader addressed;
                                             `err notallowed tell=.. eof=..` for an `iter` on a reader object whose iteration
                                             was started before (the `_iteration_started` guard: every level runs through
                                             `ARg.gStep`, one flag per reader object)
      delimit <d>                         -> ok          the innermost reader's `delimit(d)` becomes the innermost reader
      pop                                 -> ok          the innermost (delimited) reader is dropped; its parent is addressed again

    Level 0 runs the root model `ARd` (+ `ARi.iterate`); a delimited child is `Ma.AR (Ma.DelimGen σ)` - the transcription of
    the same file generic in its chunk source, the source being the parent's `_iter_delimited` generator - created from
    `An.toMa` of the root state (AsyncReaderNestedProofs.lean: `An.toMa_asyncStep` - every root operation commutes with
    `toMa`); dropping a level-1 child translates the parent back (`An.ofMa`, `An.ofMa_toMa`). -/

def hexD (n : Nat) : Char := if n < 10 then Char.ofNat (48+n) else Char.ofNat (87+n)
def toHex (bs : Bytes) : String := String.ofList (bs.flatMap fun b => [hexD (b.toNat/16), hexD (b.toNat%16)])
def hv (c : Char) : Nat := if c.isDigit then c.toNat - 48 else c.toNat - 87
def fromHex (s : String) : Bytes :=
  let rec go : List Char → Bytes
    | a :: b :: r => (hv a * 16 + hv b).toUInt8 :: go r
    | _ => []
  if s == "-" then [] else go s.toList
def optInt (s : String) : Option Int := if s == "none" then none else s.toInt?
def showRes : ARd.Res → String
  | .ok b => "ok " ++ toHex b
  | .delimErr => "err delim"
  | .valueErr => "err value"
def st (r : AR) : String := s!" tell={tell r} eof={eof r}"
def showChunks (cs : List Bytes) : String :=
  "chunks" ++ String.join (cs.map fun c => " " ++ (if c.isEmpty then "-" else toHex c))

/-- one operation on the root reader -/
def step0 (r : AR) (ws : List String) : Option (AR × String) :=
  match ws with
  | ["read", n] => let (x, r) := ARd.read r (optInt n); some (r, showRes x ++ st r)
  | ["readall"] => let (x, r) := ARd.readall r; some (r, showRes x ++ st r)
  | ["peek", n] => let (b, r) := ARd.peek r n.toInt!; some (r, "ok " ++ toHex b ++ st r)
  | ["ru", d, n, c] => let (x, r, _) := ARd.readUntil r (fromHex d) (optInt n) (c == "1"); some (r, showRes x ++ st r)
  | ["pu", d, c] => let (x, r) := ARd.pipeUntil r (fromHex d) (c == "1"); some (r, showRes x ++ st r)
  | ["pipe"] => let (x, r) := ARd.pipe r; some (r, showRes x ++ st r)
  | ["iter", k] =>
    let (cs, r) := ARi.iterate r (max k.toNat! 1)
    some (r, showChunks cs ++ st r)
  | ["exhaust"] => let (x, r) := ARd.pipe r; some (r, (match x with | .ok _ => "unit" | e => showRes e) ++ st r)
  | _ => none

def parseOp (ws : List String) : Option An.NOp :=
  match ws with
  | ["read", n] => some (.op (.read (optInt n)))
  | ["readall"] => some (.op .readall)
  | ["peek", n] => some (.op (.peek n.toInt!))
  | ["ru", d, n, c] => some (.op (.readUntil (fromHex d) (optInt n) (c == "1")))
  | ["pu", d, c] => some (.op (.pipeUntil (fromHex d) (c == "1")))
  | ["pipe"] => some (.op .pipe)
  | ["exhaust"] => some (.op .exhaust)
  | ["iter", k] => some (.iter (max k.toNat! 1))
  | _ => none

def showN : An.NObs → String
  | .obs (.bytes b) => "ok " ++ toHex b
  | .obs .unit => "unit"
  | .obs .delimErr => "err delim"
  | .obs .valueErr => "err value"
  | .chunks cs => showChunks cs
  | .valueErr => "err value"

/-- one operation on a delimited reader of any depth -/
def stepN {σ : Type} [Ma.ASource σ] (r : Ma.AR σ) (ws : List String) : Option (Ma.AR σ × String) :=
  match parseOp ws with
  | some op => let x := An.nStep r op; some (x.2, showN x.1 ++ s!" tell={Ma.tell x.2} eof={Ma.eof x.2}")
  | none => none

/-- the innermost reader with its `_iteration_started` flag; a delimited reader contains its parent (`c.src.parent`), whose
    flag is kept beside it (`fs`: flags of the enclosing readers, innermost first) -/
inductive St where
  | l0 (g : ARg.G AR)
  | l1 (g : ARg.G (Ma.AR (Ma.DelimGen Ma.Raw))) (f0 : Bool)
  | l2 (g : ARg.G (Ma.AR (Ma.DelimGen (Ma.DelimGen Ma.Raw)))) (f1 f0 : Bool)

def wsIsIter (ws : List String) : Bool := ws.head? == some "iter"

/-- an operation line run through the guard `ARg.gStep`; `stp` is the unguarded string-level step, `tl` renders tell/eof -/
def guarded {ρ : Type} (stp : ρ → List String → Option (ρ × String)) (tl : ρ → String) (g : ARg.G ρ) (ws : List String) :
    Option (ARg.G ρ × String) :=
  match stp g.r ws with
  | none => none
  | some _ =>
    let x := ARg.gStep wsIsIter (fun r w => match stp r w with | some (r', out) => (out, r') | none => ("bad-op", r)) g ws
    match x.1 with
    | .inner out => some (x.2, out)
    | .notAllowed => some (x.2, "err notallowed" ++ tl x.2.r)

def step' (s : St) (line : String) : St × String :=
  match line.trimAscii.toString.splitOn " " with
  | "new" :: chunk :: parts =>
    (.l0 { r := { chunk := chunk.toInt!, src := parts.map fromHex }, started := false }, "ok")
  | ["delimit", d] =>
    match s with
    | .l0 g => (.l1 { r := Ma.delimit (An.toMa g.r) (fromHex d), started := false } g.started, "ok")
    | .l1 g f0 => (.l2 { r := Ma.delimit g.r (fromHex d), started := false } g.started f0, "ok")
    | _ => (s, "bad-op")
  | ["pop"] =>
    match s with
    | .l1 g f0 => (.l0 { r := An.ofMa g.r.src.parent, started := f0 }, "ok")
    | .l2 g f1 f0 => (.l1 { r := g.r.src.parent, started := f1 } f0, "ok")
    | _ => (s, "bad-op")
  | ws =>
    match s with
    | .l0 g => match guarded step0 st g ws with | some (g, out) => (.l0 g, out) | none => (s, "bad-op")
    | .l1 g f0 => match guarded stepN (fun r => s!" tell={Ma.tell r} eof={Ma.eof r}") g ws with
      | some (g, out) => (.l1 g f0, out) | none => (s, "bad-op")
    | .l2 g f1 f0 => match guarded stepN (fun r => s!" tell={Ma.tell r} eof={Ma.eof r}") g ws with
      | some (g, out) => (.l2 g f1 f0, out) | none => (s, "bad-op")

partial def loop (h : IO.FS.Stream) (s : St) : IO Unit := do
  let line ← h.getLine
  if line.isEmpty then return ()
  let (s', out) := step' s line
  IO.println out
  loop h s'
def main : IO Unit := do loop (← IO.getStdin) (.l0 { r := { chunk := 1, src := [] }, started := false })

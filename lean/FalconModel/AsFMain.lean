import FalconModel.AsgiStreamFixed
import FalconModel.StreamFault
open AsF
def hexD (n : Nat) : Char := if n < 10 then Char.ofNat (48+n) else Char.ofNat (87+n)
def toHex (bs : Bytes) : String := if bs.isEmpty then "-" else String.ofList (bs.flatMap fun b => [hexD (b.toNat/16), hexD (b.toNat%16)])
def hv (c : Char) : Nat := if c.isDigit then c.toNat - 48 else c.toNat - 87
def fromHex (s : String) : Bytes :=
  let rec go : List Char → Bytes
    | a :: b :: r => (hv a * 16 + hv b).toUInt8 :: go r
    | _ => []
  if s == "-" then [] else go s.toList
def parseEv (t : String) : Event :=
  match t.splitOn ":" with
  | ["D"] => .disconnect
  | ["R", b, m] =>
    .request (if b == "~" then none else some (fromHex b)) (if m == "t" then some true else if m == "f" then some false else none)
  | _ => .disconnect
def showOut (o : Out) (s : S) : String :=
  let st := s!" tell={s.pos} eof={eof s} awaited={s.awaited}"
  match o with
  | .data b => "data " ++ toHex b ++ st
  | .closedErr => "closedErr" ++ st
  | .notAllowed => "notAllowed" ++ st
  | .blocked => "BLOCKED"
  | .unit => "unit" ++ st
def step (s : S) (line : String) : S × String :=
  match line.trimAscii.toString.splitOn " " with
  | "new" :: cl :: first :: evs =>
    let s := init (if first == "none" then none else some (parseEv first)) (if cl == "none" then none else some cl.toNat!) (evs.filter (· != "") |>.map parseEv)
    (s, "ok")
  | ["read", n] => let (o, s) := read s (if n == "none" then none else n.toInt?); (s, showOut o s)
  | ["readall"] => let (o, s) := readall s; (s, showOut o s)
  | ["iter", k] => let (o, s) := iterate s k.toNat!; (s, showOut o s)
  | ["exhaust"] => let (o, s) := exhaust s; (s, showOut o s)
  | ["close"] => let s := close s; (s, "unit" ++ s!" tell={s.pos} eof={eof s} awaited={s.awaited}")
  -- an operation whose j-th receive() (inside the operation) raised / was cancelled while parked (Af.withFault)
  | "fault" :: j :: op =>
    let f : S → Out × S := match op with
      | ["read", n] => fun s => read s (if n == "none" then none else n.toInt?)
      | ["readall"] => readall
      | ["iter", k] => fun s => iterate s k.toNat!
      | _ => exhaust
    let (o, s) := Af.withFault f s j.toNat!
    (s, (match o with | .blocked => "fault" | _ => "nofault") ++ s!" tell={s.pos} eof={eof s} awaited={s.awaited}")
  | _ => (s, "bad-op")
partial def loop (h : IO.FS.Stream) (s : S) : IO Unit := do
  let line ← h.getLine
  if line.isEmpty then return ()
  let (s', out) := step s line
  IO.println out
  loop h s'
def main : IO Unit := do loop (← IO.getStdin) (init none none [])

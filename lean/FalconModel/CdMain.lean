import FalconModel.CorsDispatch
open Co Cd

/-! Line-protocol driver for `Cd.exchange` (C20): dispatch over a registration history (`Dp`), the chosen responder's effect on the
    header map, then `CORSMiddleware.process_response` (`Co.processF`). One exchange per line:

      x ao=*|-|S,S,… ac=*|-|S,S,… ex=~|S combined=<COMBINED_METHODS> regs=<reg>|<reg>|…|- ops=s0,t1,…|- sbs=0|1|default
        route=<template token>|- hits=s0,t1,…|- method=<M> origin=~|S acrm=~|S acrh=~|S pre=-|K:S;… act=-|K:S;… raise=0|1

    `<reg>` = `<template token>:<rid>:<suffix>:<attrs>` as in the C02 driver (one `add_route` call, rejected ones included; suffix `-`
    or `=<text>`; attrs `GET,POST~alt,…|-`). `ops` = the `add_sink` / `add_static_route` history, `hits` = which of them match the
    path, `route` = the template the router resolved the path to. `pre` = the set_header calls of a process_request component in front of the policy (`Cd.exchangeMw`),
    `act` / `raise` = what the application code does if it is the responder (set_header calls, then return / raise).
    S = `.` + hex (`~` = None); K ∈ acao acac acam acah acma aceh allow o<n> (`o0` = Content-Length).
    Reply: `resp=<responder> st=<status> acao=~|S … allow=~|S` (status: `Dp.answer` for falcon's own answers; application code of the
    harness returns with 200 or raises HTTPForbidden). -/

def kv (ws : List String) (k : String) : String :=
  match ws.find? (·.startsWith (k ++ "=")) with
  | some s => (s.drop (k.length + 1)).toString
  | none => ""
def splitNE (s : String) (sep : String) : List String := if s.isEmpty || s == "-" then [] else s.splitOn sep

def hexVal (c : Char) : Nat :=
  if '0' ≤ c ∧ c ≤ '9' then c.toNat - 48 else if 'a' ≤ c ∧ c ≤ 'f' then c.toNat - 87 else 0
def unhexL : List Char → List Char
  | a :: b :: rest => Char.ofNat (hexVal a * 16 + hexVal b) :: unhexL rest
  | _ => []
def hexDigit (n : Nat) : Char := if n < 10 then Char.ofNat (48 + n) else Char.ofNat (87 + n)
def decS (s : String) : String := String.ofList (unhexL (s.toList.drop 1))
def encS (s : String) : String :=
  "." ++ String.ofList (s.toList.flatMap fun c => [hexDigit (c.toNat / 16 % 16), hexDigit (c.toNat % 16)])
def decOpt (s : String) : Option String := if s == "~" || s == "" then none else some (decS s)
def encOpt : Option String → String
  | none => "~"
  | some s => encS s
def decOrigins (s : String) : Origins :=
  if s == "*" then .any else if s == "-" || s == "" then .only [] else .only ((s.splitOn ",").map decS)
def decKey (s : String) : Option H :=
  match s with
  | "acao" => some .acao | "acac" => some .acac | "acam" => some .acam | "acah" => some .acah
  | "acma" => some .acma | "aceh" => some .aceh | "allow" => some .allow
  | _ => match s.toList with
    | 'o' :: r => (String.ofList r).toNat?.map H.other
    | _ => none
def decHdrs (s : String) : Hdrs :=
  (splitNE s ";").filterMap fun it =>
    match it.splitOn ":" with
    | [k, v] => (decKey k).map fun k' => (k', decS v)
    | _ => none

def parseEntry (s : String) : Option (Dp.Kind × Nat) :=
  match s.toList with
  | 's' :: r => (String.ofList r).toNat?.map fun n => (Dp.Kind.sink, n)
  | 't' :: r => (String.ofList r).toNat?.map fun n => (Dp.Kind.static, n)
  | _ => none
def parseAttr (s : String) : Dp.Attr :=
  match s.splitOn "~" with
  | [m, sfx] => { method := m, suffix := some sfx }
  | _ => { method := s, suffix := none }
def parseReg (s : String) : Option Dp.RouteReg :=
  match s.splitOn ":" with
  | [t, rid, sfx, attrs] =>
    rid.toNat?.map fun n =>
      { tmpl := t, rid := n, attrs := (splitNE attrs ",").map parseAttr,
        suffix := if sfx.startsWith "=" then some (sfx.drop 1).toString else none }
  | _ => none
def showR : Dp.Responder → String
  | .resource rid m => s!"resource:{rid}:{m}"
  | .options al => s!"options:{",".intercalate al}"
  | .notAllowed al => s!"405:{",".intercalate al}"
  | .badRequest => "400"
  | .sink id => s!"sink:{id}"
  | .static id => s!"static:{id}"
  | .notFound => "404"

def runCase (ws : List String) : String :=
  let c : Cfg := { allowOrigins := decOrigins (kv ws "ao"), allowCredentials := decOrigins (kv ws "ac"),
                   exposeHeaders := decOpt (kv ws "ex") }
  let s : Site := { combined := splitNE (kv ws "combined") ",", hist := (splitNE (kv ws "regs") "|").filterMap parseReg,
                    adds := ((splitNE (kv ws "ops") ",").filterMap parseEntry).map fun e =>
                      match e with | (.sink, id) => Dp.Add.sink id | (.static, id) => Dp.Add.static id,
                    sinkFirst := if kv ws "sbs" == "default" then none else some (kv ws "sbs" == "1") }
  let hits := (splitNE (kv ws "hits") ",").filterMap parseEntry
  let hitf : Dp.Kind × Nat → Bool := fun e => hits.contains e
  let tmpl : Option String := if kv ws "route" == "-" then none else some (kv ws "route")
  let r : Rq := { method := kv ws "method", origin := decOpt (kv ws "origin"), acrm := decOpt (kv ws "acrm"), acrh := decOpt (kv ws "acrh") }
  let mw := decHdrs (kv ws "pre")
  let pre := before [] mw r.method
  let act : Act := { sets := decHdrs (kv ws "act"), raises := kv ws "raise" == "1" }
  let acts : Dp.Responder → Act := fun _ => act
  let rs := s.responder tmpl hitf r.method
  let mid := respond acts (r.method == "OPTIONS") pre rs
  let out := exchangeMw c s acts tmpl hitf r [] mw
  -- falcon's own answers: `Dp.answer`; application code of the harness leaves 200 or raises HTTPForbidden; a static route serves an existing file
  let st := if rs.isDefault then (Dp.answer {} rs).status else if mid.2 then 200 else 403
  let named := [("acao", H.acao), ("acac", .acac), ("acam", .acam), ("acah", .acah), ("acma", .acma), ("aceh", .aceh), ("allow", .allow)]
  s!"resp={showR rs} st={st} " ++ " ".intercalate (named.map fun (nm, k) => nm ++ "=" ++ encOpt (get out k))

partial def loop (h : IO.FS.Stream) : IO Unit := do
  let line ← h.getLine
  if line.isEmpty then return ()
  match line.trimAscii.toString.splitOn " " with
  | "x" :: ws => IO.println (runCase ws)
  | _ => IO.println "bad-line"
  loop h
def main : IO Unit := do loop (← IO.getStdin)

import FalconModel.Cors
open Co

/-! Line-protocol driver for the CORS policy model (C20): `Co.processF` = `CORSMiddleware.process_response` as it is in the
    tree (with the F12 repair).  One call per line, space separated `key=value` words:

      p ao=*|-|S,S,…  ac=*|-|S,S,…  ex=~|S  origin=~|S  opt=0|1  acrm=~|S  acrh=~|S  ok=0|1  hdrs=-|K:S;K:S;…

    S = `.` followed by the hex of the string (so `.` is the empty string), `~` = None, `-` = empty collection,
    `*` = the wildcard literal.  K ∈ acao acac acam acah acma aceh allow o<n> (any other response header, numbered).
    Reply: the response header map after the call, restricted to the same keys:
      acao=~|S acac=… acam=… acah=… acma=… aceh=… allow=… other=-|o<n>:S;…   (others in the order given) -/

def kv (ws : List String) (k : String) : String :=
  match ws.find? (·.startsWith (k ++ "=")) with
  | some s => (s.drop (k.length + 1)).toString
  | none => ""

def hexVal (c : Char) : Nat :=
  if '0' ≤ c ∧ c ≤ '9' then c.toNat - 48 else if 'a' ≤ c ∧ c ≤ 'f' then c.toNat - 87 else 0
def unhexL : List Char → List Char
  | a :: b :: rest => Char.ofNat (hexVal a * 16 + hexVal b) :: unhexL rest
  | _ => []
def hexDigit (n : Nat) : Char := if n < 10 then Char.ofNat (48 + n) else Char.ofNat (87 + n)
/-- `S` → string -/
def decS (s : String) : String := String.ofList (unhexL (s.toList.drop 1))
def encS (s : String) : String :=
  "." ++ String.ofList (s.toList.flatMap fun c => [hexDigit (c.toNat / 16 % 16), hexDigit (c.toNat % 16)])
def decOpt (s : String) : Option String := if s == "~" || s == "" then none else some (decS s)
def encOpt : Option String → String
  | none => "~"
  | some s => encS s

def decOrigins (s : String) : Origins :=
  if s == "*" then .any else if s == "-" || s == "" then .only [] else .only ((s.splitOn ",").map decS)

def decKey (s : String) : Option H :=
  match s with
  | "acao" => some .acao | "acac" => some .acac | "acam" => some .acam | "acah" => some .acah
  | "acma" => some .acma | "aceh" => some .aceh | "allow" => some .allow
  | _ => match s.toList with
    | 'o' :: r => (String.ofList r).toNat?.map H.other
    | _ => none

def decHdrs (s : String) : Hdrs :=
  if s == "-" || s == "" then [] else
    (s.splitOn ";").filterMap fun it =>
      match it.splitOn ":" with
      | [k, v] => (decKey k).map fun k' => (k', decS v)
      | _ => none

def runCase (ws : List String) : String :=
  let c : Cfg := { allowOrigins := decOrigins (kv ws "ao"), allowCredentials := decOrigins (kv ws "ac"),
                   exposeHeaders := decOpt (kv ws "ex") }
  let r : Req := { origin := decOpt (kv ws "origin"), isOptions := kv ws "opt" == "1",
                   acrm := decOpt (kv ws "acrm"), acrh := decOpt (kv ws "acrh") }
  let h := decHdrs (kv ws "hdrs")
  let out := processF c r h (kv ws "ok" == "1")
  let named := [("acao", H.acao), ("acac", .acac), ("acam", .acam), ("acah", .acah), ("acma", .acma), ("aceh", .aceh), ("allow", .allow)]
  let others := h.filterMap fun (k, _) => match k with | .other n => some n | _ => none
  let oth := others.filterMap fun n => (get out (.other n)).map fun v => s!"o{n}:{encS v}"
  " ".intercalate (named.map fun (nm, k) => nm ++ "=" ++ encOpt (get out k))
    ++ " other=" ++ (if oth.isEmpty then "-" else ";".intercalate oth)

partial def loop (h : IO.FS.Stream) : IO Unit := do
  let line ← h.getLine
  if line.isEmpty then return ()
  match line.trimAscii.toString.splitOn " " with
  | "p" :: ws => IO.println (runCase ws)
  | _ => IO.println "bad-line"
  loop h
def main : IO Unit := do loop (← IO.getStdin)

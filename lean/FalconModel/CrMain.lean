import FalconModel.CorsCall
open Co

/-! Line-protocol driver for the CORS policy model (C20): `Co.processF` = `CORSMiddleware.process_response` as it is in the
    tree (with the F12 repair).  One call per line, space separated `key=value` words:

      p ao=*|-|S,S,…  ac=*|-|S,S,…  ex=~|S  origin=~|S  opt=0|1  acrm=~|S  acrh=~|S  ok=0|1  hdrs=-|K:S;K:S;…

    S = `.` followed by the hex of the string (so `.` is the empty string), `~` = None, `-` = empty collection,
    `*` = the wildcard literal.  K ∈ acao acac acam acah acma aceh allow o<n> (any other response header, numbered).
    Reply: the response header map after the call, restricted to the same keys:
      acao=~|S acac=… acam=… acah=… acma=… aceh=… allow=… other=-|o<n>:S;…   (others in the order given)

    `Cg.normalise` = `CORSMiddleware.__init__`:
      norm ao=A ex=A ac=A          A = ~ (None) | s<S> (a str) | l- (empty iterable) | l<S>,<S>,… (an iterable's items, in order)
    Reply: `cfg ao=*|-|S,S,… ac=*|-|S,S,… ex=~|S` (sets printed sorted by their encoding) or
           `err wildcard-origins | wildcard-credentials | origins-not-iterable`.

    `Cg.construct` = one call `CORSMiddleware(*pos, **kw)` (argument binding of the documented signature, then `__init__`):
      call pos=-|A/A/…  kao=!|A  kex=!|A  kac=!|A        `!` = keyword not passed
    Reply: as for `norm`, or `err TypeError` (a fourth positional argument / a parameter bound twice).

    `Cg.appInit` / `Cg.runAdds` (the `cors_enable` wiring) and `Pl.run` on the resulting stack:
      stack ce=0|1 indep=0|1 arg=M adds=-|M/M/… target=route|nomethod|sink|nothing resp=ret|raise fail=-|<n> pf=0|1
      M = ~ (None) | s<K> (one bare component) | l- | l<K>,<K>,…     K = u (a CORSMiddleware of the caller) | o<n> (another component)
    Other components define process_request (raises iff n = fail), process_response (raises iff n = pfail, optional word) and,
    when the optional word `rsrc=1` is given, process_resource (raises iff n = rfail).  `resp=raise` stands for every way a
    responder can raise (HTTPError, HTTPStatus of any status, an exception taken by a registered handler).
    Reply: `init=err` or `init=ok adds=-|<0/1 per call> stack=K,… calls=-|K:<resource set>:<req_succeeded>,…` where the component
    that cors_enable constructed prints as `C:?:<req_succeeded if pf=1 else ?>` (its flag is only observable in a preflight). -/

def kv (ws : List String) (k : String) : String :=
  match ws.find? (·.startsWith (k ++ "=")) with
  | some s => (s.drop (k.length + 1)).toString
  | none => ""

def hexVal (c : Char) : Nat :=
  if '0' ≤ c ∧ c ≤ '9' then c.toNat - 48 else if 'a' ≤ c ∧ c ≤ 'f' then c.toNat - 87 else 0
def unhexL : List Char → List Char
  | a :: b :: rest => Char.ofNat (hexVal a * 16 + hexVal b) :: unhexL rest
  | _ => []
def hexDigit (n : Nat) : Char := if n < 10 then Char.ofNat (48 + n) else Char.ofNat (87 + n)
/-- `S` → string -/
def decS (s : String) : String := String.ofList (unhexL (s.toList.drop 1))
def encS (s : String) : String :=
  "." ++ String.ofList (s.toList.flatMap fun c => [hexDigit (c.toNat / 16 % 16), hexDigit (c.toNat % 16)])
def decOpt (s : String) : Option String := if s == "~" || s == "" then none else some (decS s)
def encOpt : Option String → String
  | none => "~"
  | some s => encS s

def decOrigins (s : String) : Origins :=
  if s == "*" then .any else if s == "-" || s == "" then .only [] else .only ((s.splitOn ",").map decS)

def decKey (s : String) : Option H :=
  match s with
  | "acao" => some .acao | "acac" => some .acac | "acam" => some .acam | "acah" => some .acah
  | "acma" => some .acma | "aceh" => some .aceh | "allow" => some .allow
  | _ => match s.toList with
    | 'o' :: r => (String.ofList r).toNat?.map H.other
    | _ => none

def decHdrs (s : String) : Hdrs :=
  if s == "-" || s == "" then [] else
    (s.splitOn ";").filterMap fun it =>
      match it.splitOn ":" with
      | [k, v] => (decKey k).map fun k' => (k', decS v)
      | _ => none

def runCase (ws : List String) : String :=
  let c : Cfg := { allowOrigins := decOrigins (kv ws "ao"), allowCredentials := decOrigins (kv ws "ac"),
                   exposeHeaders := decOpt (kv ws "ex") }
  let r : Req := { origin := decOpt (kv ws "origin"), isOptions := kv ws "opt" == "1",
                   acrm := decOpt (kv ws "acrm"), acrh := decOpt (kv ws "acrh") }
  let h := decHdrs (kv ws "hdrs")
  let out := processF c r h (kv ws "ok" == "1")
  let named := [("acao", H.acao), ("acac", .acac), ("acam", .acam), ("acah", .acah), ("acma", .acma), ("aceh", .aceh), ("allow", .allow)]
  let others := h.filterMap fun (k, _) => match k with | .other n => some n | _ => none
  let oth := others.filterMap fun n => (get out (.other n)).map fun v => s!"o{n}:{encS v}"
  " ".intercalate (named.map fun (nm, k) => nm ++ "=" ++ encOpt (get out k))
    ++ " other=" ++ (if oth.isEmpty then "-" else ";".intercalate oth)

/-! ### constructor normalisation -/
def decArg (s : String) : Cg.Arg :=
  match s.toList with
  | 's' :: r => .str (decS (String.ofList r))
  | 'l' :: r => let t := String.ofList r; if t == "-" || t == "" then .iter [] else .iter ((t.splitOn ",").map decS)
  | _ => .none

def insertSorted (x : String) : List String → List String
  | [] => [x]
  | y :: ys => if x < y then x :: y :: ys else if x == y then y :: ys else y :: insertSorted x ys
def sortStrs (l : List String) : List String := l.foldr insertSorted []

def encOrigins : Origins → String
  | .any => "*"
  | .only l => if l.isEmpty then "-" else ",".intercalate (sortStrs (l.map encS))

def runNorm (ws : List String) : String :=
  let raw : Cg.RawConfig := { allowOrigins := decArg (kv ws "ao"), exposeHeaders := decArg (kv ws "ex"),
                              allowCredentials := decArg (kv ws "ac") }
  match Cg.normalise raw with
  | .ok c => s!"cfg ao={encOrigins c.allowOrigins} ac={encOrigins c.allowCredentials} ex={encOpt c.exposeHeaders}"
  | .error .wildcardInOrigins => "err wildcard-origins"
  | .error .wildcardInCredentials => "err wildcard-credentials"
  | .error .originsNotIterable => "err origins-not-iterable"

def decKw (s : String) : Option Cg.Arg := if s == "!" || s == "" then none else some (decArg s)

def cfgReply : Except Cg.CallError Cfg → String
  | .ok c => s!"cfg ao={encOrigins c.allowOrigins} ac={encOrigins c.allowCredentials} ex={encOpt c.exposeHeaders}"
  | .error (.config .wildcardInOrigins) => "err wildcard-origins"
  | .error (.config .wildcardInCredentials) => "err wildcard-credentials"
  | .error (.config .originsNotIterable) => "err origins-not-iterable"
  | .error .tooManyPositional => "err TypeError"
  | .error .multipleValues => "err TypeError"

def runCall (ws : List String) : String :=
  let p := kv ws "pos"
  let pos := if p == "-" || p == "" then [] else (p.splitOn "/").map decArg
  cfgReply (Cg.construct { pos := pos, kwOrigins := decKw (kv ws "kao"), kwExpose := decKw (kv ws "kex"),
                           kwCredentials := decKw (kv ws "kac") })

/-! ### cors_enable wiring + the call discipline on the resulting stack -/
def decMw (s : String) : Option Cg.Mw :=
  match s.toList with
  | ['u'] => some (.cors false)
  | 'o' :: r => (String.ofList r).toNat?.map Cg.Mw.other
  | _ => none
def decMwArg (s : String) : Cg.MwArg :=
  match s.toList with
  | 's' :: r => match decMw (String.ofList r) with | some m => .single m | none => .none
  | 'l' :: r => let t := String.ofList r; if t == "-" || t == "" then .iter [] else .iter ((t.splitOn ",").filterMap decMw)
  | _ => .none
def encMw : Cg.Mw → String
  | .cors true => "C"
  | .cors false => "u"
  | .other n => s!"o{n}"
def b01 (b : Bool) : String := if b then "1" else "0"

def runStack (ws : List String) : String :=
  let ce := kv ws "ce" == "1"
  match Cg.appInit ce (decMwArg (kv ws "arg")) with
  | .error _ => "init=err"
  | .ok st0 =>
    let addsS := kv ws "adds"
    let adds := if addsS == "-" || addsS == "" then [] else (addsS.splitOn "/").map decMwArg
    let (st, oks) := Cg.runAdds ce st0 adds
    let fail := (kv ws "fail").toNat?
    let rfail := (kv ws "rfail").toNat?
    let pfail := (kv ws "pfail").toNat?
    let hasRsrc := kv ws "rsrc" == "1"
    let beh : Nat → Pl.Comp := fun n =>
      { req := some (if fail == some n then .raise_ else .ret),
        rsrc := if hasRsrc then some (if rfail == some n then .raise_ else .ret) else none,
        resp := some (if pfail == some n then .raise_ else .ret) }
    let target : Pl.Target := match kv ws "target" with
      | "route" => .route | "nomethod" => .noMethod | "sink" => .sink | _ => .nothing
    let cfg : Pl.Cfg := { comps := Cg.comps beh st, independent := kv ws "indep" == "1", target := target,
                          responder := if kv ws "resp" == "raise" then .raise_ else .ret }
    let pf := kv ws "pf" == "1"
    let calls := (Pl.run cfg).filterMap fun c => match c with
      | .resp i hr ok => match st[i]? with
        | some (.cors true) => some s!"C:?:{if pf then b01 ok else "?"}"
        | some m => some s!"{encMw m}:{b01 hr}:{b01 ok}"
        | none => some "?"
      | _ => none
    s!"init=ok adds={if oks.isEmpty then "-" else String.join (oks.map b01)} stack={if st.isEmpty then "-" else ",".intercalate (st.map encMw)} calls={if calls.isEmpty then "-" else ",".intercalate calls}"

partial def loop (h : IO.FS.Stream) : IO Unit := do
  let line ← h.getLine
  if line.isEmpty then return ()
  match line.trimAscii.toString.splitOn " " with
  | "p" :: ws => IO.println (runCase ws)
  | "norm" :: ws => IO.println (runNorm ws)
  | "call" :: ws => IO.println (runCall ws)
  | "stack" :: ws => IO.println (runStack ws)
  | _ => IO.println "bad-line"
  loop h
def main : IO Unit := do loop (← IO.getStdin)

import FalconModel.CookieOut
import FalconModel.Cookies
open Cw

/-! Line-protocol driver for the response-cookie model (C15).  Strings are code points in hex joined by `.`, `-` is the empty
    string, `N` is `None`.
      new SECDEF                                   -> ok                 (fresh response, `secure_cookies_by_default` = 0|1)
      set NAME VALUE EXPIRES MAXAGE DOMAIN PATH SECURE HTTPONLY SAMESITE PARTITIONED -> ok | err KIND   (on the response's jar)
      unset NAME SAMESITE DOMAIN PATH              -> ok | err KIND
      emit T                                       -> lines L,L,…  | lines -      (the set-cookie values produced at `floor(time()) = T`)
      setcookie SECDEF NAME VALUE … PARTITIONED    -> line L | err KIND            (stateless `setCookieLine`)
      echo HDR                                     -> jar N=V/V,N=V,… | jar -      (`Ck.parseCookieHeader`: what `_parse_cookie_header` makes of the
                                                                                    Cookie header HDR, names in first-seen order, every value per name)
      unquote S                                    -> S'                            (`Ck.cUnquote`, the model of `http.cookies._unquote`)
    EXPIRES = N | y,m,d,h,mi,s,OFF (OFF = n for naive, else utcoffset seconds); MAXAGE = N | i<int> | s<str> | f<num>/<den>;
    SECURE = N|0|1 -/

def hexVal (c : Char) : Nat :=
  if '0' ≤ c ∧ c ≤ '9' then c.toNat - 48 else if 'a' ≤ c ∧ c ≤ 'f' then c.toNat - 87 else if 'A' ≤ c ∧ c ≤ 'F' then c.toNat - 55 else 0
def unhexNat (s : String) : Nat := s.toList.foldl (fun a c => a * 16 + hexVal c) 0
def dec (s : String) : List Char := if s == "-" then [] else (s.splitOn ".").map fun p => Char.ofNat (unhexNat p)
def decOpt (s : String) : Option (List Char) := if s == "N" then none else some (dec s)
def hexDigit (n : Nat) : Char := if n < 10 then Char.ofNat (48 + n) else Char.ofNat (87 + n)
def hexNat (n : Nat) : String := String.ofList (Nat.toDigits 16 n)
def enc (s : List Char) : String := if s.isEmpty then "-" else ".".intercalate (s.map fun c => hexNat c.toNat)

def errName : Err → String
  | .nameNotAscii => "key-ascii" | .nameReservedChar => "key-colon" | .valueNotAscii => "value-ascii"
  | .keyReserved => "key-reserved" | .keyIllegal => "key-illegal" | .dateOverflow => "overflow"
  | .maxAge => "value-maxage" | .sameSite => "value-samesite"

def parseExpires (s : String) : Option (Option Expires) :=
  if s == "N" then some none else
  match s.splitOn "," with
  | [y, m, d, h, mi, sec, off] =>
    match y.toNat?, m.toNat?, d.toNat?, h.toNat?, mi.toNat?, sec.toNat? with
    | some y, some m, some d, some h, some mi, some sec =>
      if off == "n" then some (some ⟨⟨y, m, d, h, mi, sec⟩, none⟩)
      else off.toInt?.map fun o => some ⟨⟨y, m, d, h, mi, sec⟩, some o⟩
    | _, _, _, _, _, _ => none
  | _ => none

def parseMaxAge (s : String) : Option (Option MaxAge) :=
  if s == "N" then some none else
  match s.toList with
  | 'i' :: r => (String.ofList r).toInt?.map fun n => some (.int n)
  | 's' :: r => some (some (.str (dec (String.ofList r))))
  | 'f' :: r =>
    match (String.ofList r).splitOn "/" with
    | [a, b] => match a.toInt?, b.toNat? with
      | some a, some b => some (some (.flt a b))
      | _, _ => none
    | _ => none
  | _ => none

def parseSpec : List String → Option CookieSpec
  | [name, value, expires, maxage, domain, path, secure, httponly, samesite, partitioned] =>
    match parseExpires expires, parseMaxAge maxage with
    | some e, some a =>
      some { name := dec name, value := dec value, expires := e, maxAge := a, domain := decOpt domain, path := decOpt path,
             secure := if secure == "N" then none else some (secure == "1"), httpOnly := httponly == "1",
             sameSite := decOpt samesite, partitioned := partitioned == "1" }
    | _, _ => none
  | _ => none

structure St where
  opts : Opts := {}
  jar : Jar := []

def step (st : St) (line : String) : St × String :=
  match line.trimAscii.toString.splitOn " " with
  | ["new", sd] => ({ opts := ⟨sd == "1"⟩, jar := [] }, "ok")
  | "set" :: fields =>
    match parseSpec fields with
    | none => (st, "bad-op")
    | some s =>
      let (j, e) := jarSetCookie st.opts st.jar s
      ({ st with jar := j }, match e with | none => "ok" | some e => "err " ++ errName e)
  | ["unset", name, samesite, domain, path] =>
    let (j, e) := jarUnsetCookie st.jar (dec name) (dec samesite) (decOpt domain) (decOpt path)
    ({ st with jar := j }, match e with | none => "ok" | some e => "err " ++ errName e)
  | ["emit", t] =>
    match t.toNat? with
    | none => (st, "bad-op")
    | some t =>
      let ls := jarLines t st.jar
      (st, "lines " ++ (if ls.isEmpty then "-" else ",".intercalate (ls.map enc)))
  | "setcookie" :: sd :: fields =>
    match parseSpec fields with
    | none => (st, "bad-op")
    | some s =>
      (st, match setCookieLine ⟨sd == "1"⟩ s with | .ok l => "line " ++ enc l | .error e => "err " ++ errName e)
  | ["echo", h] =>
    let j := Ck.parseCookieHeader (dec h)
    (st, "jar " ++ (if j.isEmpty then "-" else ",".intercalate (j.map fun nv => enc nv.1 ++ "=" ++ "/".intercalate (nv.2.map enc))))
  | ["unquote", v] => (st, enc (Ck.cUnquote (dec v)))
  | _ => (st, "bad-op")

partial def loop (h : IO.FS.Stream) (st : St) : IO Unit := do
  let line ← h.getLine
  if line.isEmpty then return ()
  let (st', out) := step st line
  IO.println out
  loop h st'
def main : IO Unit := do loop (← IO.getStdin) {}

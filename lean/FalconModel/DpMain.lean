import FalconModel.Dispatch
open Dp

def kv (ws : List String) (k : String) : String :=
  match ws.find? (·.startsWith (k ++ "=")) with
  | some s => (s.drop (k.length + 1)).toString
  | none => ""
def splitNE (s : String) (sep : String) : List String := if s.isEmpty || s == "-" then [] else s.splitOn sep

def parseEntry (s : String) : Option (Kind × Nat) :=
  match s.toList with
  | 's' :: r => (String.ofList r).toNat?.map fun n => (Kind.sink, n)
  | 't' :: r => (String.ofList r).toNat?.map fun n => (Kind.static, n)
  | _ => none

def showR : Responder → String
  | .resource rid m => s!"resource:{rid}:{m}"
  | .options al => s!"options:{",".intercalate al}"
  | .notAllowed al => s!"405:{",".intercalate al}"
  | .badRequest => "400"
  | .sink id => s!"sink:{id}"
  | .static id => s!"static:{id}"
  | .notFound => "404"

def runCase (ws : List String) : String :=
  let ops := (splitNE (kv ws "ops") ",").filterMap parseEntry
  let app := ops.foldl (fun a e => match e with | (.sink, id) => a.addSink id | (.static, id) => a.addStatic id)
    ({ sinkFirst := kv ws "sbs" == "1" } : App)
  let hits := (splitNE (kv ws "hits") ",").filterMap parseEntry
  let route : Option MethodMap :=
    match (kv ws "route").splitOn ":" with
    | [rid, impl] => some { rid := rid.toNat!, impl := splitNE impl ",", combined := splitNE (kv ws "combined") "," }
    | _ => none
  showR (app.getResponder route (kv ws "method") (fun e => hits.contains e))

partial def loop (h : IO.FS.Stream) : IO Unit := do
  let line ← h.getLine
  if line.isEmpty then return ()
  IO.println (runCase (line.trimAscii.toString.splitOn " "))
  loop h
def main : IO Unit := do loop (← IO.getStdin)

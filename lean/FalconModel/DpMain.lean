import FalconModel.Dispatch
open Dp

/-! Line protocol of the dispatch model (C02). One request per line, space separated `key=value` words after the kind:

      get|http sbs=0|1|default ops=s0,t1,… route=<uri_template index>|- regs=<reg>|<reg>|…|- combined=<COMBINED_METHODS>
               hits=s0,t1,…|- method=<M> fields=k:v;k:v|- gi=s0>name@1;other@3|s3>…|- grp=s0>1:text;2:text|s3>…|-
      add combined=<COMBINED_METHODS> regs=<reg>            → `ok` | `rejected` (SuffixedMethodNotFoundError)

    `<reg>` = `<template index>:<rid>:<suffix>:<attrs>` is one `add_route` CALL in history order (rejected ones included):
    `<suffix>` is `-` (not given / None) or `=<text>` (the string passed, possibly empty), `<attrs>` = `GET,POST~alt,…|-` the callable
    `on_*` attributes the resource object had when the call was made. `route` is the `uri_template` the router returned for the
    path (`-` = no route); the model finds the method map from the history (latest accepted registration of that template).

    `sbs` is the `sink_before_static_route` argument of the constructor (`default` = not given).
    `gi` is `pattern.groupindex` of every sink that has named groups (a property of the pattern), `grp` the groups that
    PARTICIPATED in `pattern.match(path)` with their text (`m.group(i)`; possibly empty text); a group that is absent from
    `grp` is Python `None`. The model computes `groupdict()` itself.
    `get`  = `App._get_responder` (method may be the meta method WEBSOCKET), `http` = the HTTP entry point.
    Reply: `<responder> kw=<k:v;k2;…|->` (sorted by key; `k:v` = text value, possibly empty; bare `k` = None) with responder one of
      resource:<rid>:<METHOD>[~suffix] | options:<allow,…> | 405:<allow,…> | 400 | sink:<id> | static:<id> | 404
    An `http` line may carry `pre=<status code>:<x + hex of the Allow value | ->`: the state of the response when the responder runs
    (left by the response_type initializer and process_request / process_resource middleware). For falcon's own answers (options, 405,
    400, 404) the reply then ends with ` st=<status> allow=<hex of the Allow header|->` (`Dp.answer`). -/

def kv (ws : List String) (k : String) : String :=
  match ws.find? (·.startsWith (k ++ "=")) with
  | some s => (s.drop (k.length + 1)).toString
  | none => ""
def splitNE (s : String) (sep : String) : List String := if s.isEmpty || s == "-" then [] else s.splitOn sep

def parseEntry (s : String) : Option (Kind × Nat) :=
  match s.toList with
  | 's' :: r => (String.ofList r).toNat?.map fun n => (Kind.sink, n)
  | 't' :: r => (String.ofList r).toNat?.map fun n => (Kind.static, n)
  | _ => none

def parseAttr (s : String) : Attr :=
  match s.splitOn "~" with
  | [m, sfx] => { method := m, suffix := some sfx }
  | _ => { method := s, suffix := none }

def parseKw (s : String) : Kw :=
  (splitNE s ";").filterMap fun it =>
    match it.splitOn ":" with
    | [k] => some (k, none)
    | k :: rest => some (k, some (":".intercalate rest))
    | [] => none

def showKw (k : Kw) : String :=
  if k.isEmpty then "-" else
    ";".intercalate ((k.mergeSort fun a b => a.1 ≤ b.1).map fun (a, b) => match b with | some v => a ++ ":" ++ v | none => a)

/-- `s3>body|s5>body` → table sink id ↦ body items -/
def parseTab (s : String) : List (Nat × List String) :=
  (splitNE s "|").filterMap fun g =>
    match g.splitOn ">" with
    | sid :: rest => (parseEntry sid).map fun e => (e.2, splitNE (">".intercalate rest) ";")
    | [] => none

def showR (sfx : Option String) : Responder → String
  | .resource rid m => s!"resource:{rid}:{m}" ++ (match sfx with | some s => "~" ++ s | none => "")
  | .options al => s!"options:{",".intercalate al}"
  | .notAllowed al => s!"405:{",".intercalate al}"
  | .badRequest => "400"
  | .sink id => s!"sink:{id}"
  | .static id => s!"static:{id}"
  | .notFound => "404"

def parseReg (s : String) : Option RouteReg :=
  match s.splitOn ":" with
  | [t, rid, sfx, attrs] =>
    rid.toNat?.map fun n =>
      { tmpl := t, rid := n, attrs := (splitNE attrs ",").map parseAttr,
        suffix := if sfx.startsWith "=" then some (sfx.drop 1).toString else none }
  | _ => none

/-- the `Allow` value travels hex-encoded (it may contain spaces and commas); a preset value arrives as hex and is kept as is:
    the model never inspects it. `hexOf` encodes the values the model itself produces; preset values are tagged `x` + hex. -/
def hexDigit (n : Nat) : Char := if n < 10 then Char.ofNat (48 + n) else Char.ofNat (87 + n)
def hexOf (s : String) : String :=
  if s.startsWith "x" && s.length % 2 == 1 && (s.drop 1).toString.all (fun c => c.isDigit || ('a' ≤ c && c ≤ 'f')) then (s.drop 1).toString
  else String.join (s.toUTF8.toList.map fun b => String.ofList [hexDigit (b.toNat / 16), hexDigit (b.toNat % 16)])

def runAdd (ws : List String) : String :=
  match (splitNE (kv ws "regs") "|").filterMap parseReg with
  | [r] => if accepted (splitNE (kv ws "combined") ",") r then "ok" else "rejected"
  | _ => "bad-line"

def runCase (kind : String) (ws : List String) : String :=
  let ops := (splitNE (kv ws "ops") ",").filterMap parseEntry
  let app := ops.foldl (fun a e => match e with | (.sink, id) => a.addSink id | (.static, id) => a.addStatic id)
    (App.init (if kv ws "sbs" == "default" then none else some (kv ws "sbs" == "1")))
  let hits := (splitNE (kv ws "hits") ",").filterMap parseEntry
  let routes := routesOf (splitNE (kv ws "combined") ",") ((splitNE (kv ws "regs") "|").filterMap parseReg)
  let bound : Option Bound := if kv ws "route" == "-" then none else routes.find (kv ws "route")
  let route : Option MethodMap := bound.map (·.mm)
  let sfx : Option String := bound.bind (·.suffix)
  let hitf : Kind × Nat → Bool := fun e => hits.contains e
  let giTab := parseTab (kv ws "gi")
  let grpTab := parseTab (kv ws "grp")
  let mtab : Nat → Match := fun id =>
    let gi : List (String × Nat) := (((giTab.find? (·.1 == id)).map (·.2)).getD []).filterMap fun it =>
      match it.splitOn "@" with
      | [n, i] => i.toNat?.map fun k => (n, k)
      | _ => none
    let grp : List (Nat × String) := (((grpTab.find? (·.1 == id)).map (·.2)).getD []).filterMap fun it =>
      match it.splitOn ":" with
      | i :: rest => i.toNat?.map fun k => (k, ":".intercalate rest)
      | [] => none
    { groupindex := gi, group := fun i => (grp.find? (·.1 == i)).map (·.2) }
  let method := kv ws "method"
  let r := if kind == "http" then app.dispatchHttp route method hitf else app.getResponder route method hitf
  -- the keyword arguments only reach a responder that is actually called with them
  let kw := match r with
    | .resource .. | .sink .. | .static .. => app.getParamsM (route.map fun _ => parseKw (kv ws "fields")) hitf mtab
    | _ => []
  -- `pre=<status>:<hex of the Allow value|->` (http lines only): what earlier stages left on the response; the model then also
  -- answers with the status / Allow of the final response when the chosen responder is one of falcon's own
  let preW := kv ws "pre"
  let tail := if preW.isEmpty || !r.isDefault then "" else
    match preW.splitOn ":" with
    | [st, al] =>
      let pre : Resp := { status := st.toNat?.getD 200, allow := if al == "-" then none else some al }
      let a := answer pre r
      s!" st={a.status} allow={(a.allow.map hexOf).getD "-"}"
    | _ => " bad-pre"
  showR sfx r ++ " kw=" ++ showKw kw ++ tail

partial def loop (h : IO.FS.Stream) : IO Unit := do
  let line ← h.getLine
  if line.isEmpty then return ()
  match line.trimAscii.toString.splitOn " " with
  | "add" :: ws => IO.println (runAdd ws)
  | kind :: ws => IO.println (runCase kind ws)
  | [] => IO.println "bad-line"
  loop h
def main : IO Unit := do loop (← IO.getStdin)

import FalconModel.ErrBody
open Eh
/-! Line protocol for C04:
    `new`                         -> `ok`    (empty registry; behaviours of the default handlers 9001/9002/9003 preset)
    `reg <classId> <handlerId>`   -> `ok`    (`App.add_error_handler`, one class)
    `behave <handlerId> <sets:STATUS:k | http:STATUS | status:STATUS | other | drafthttp:STATUS:tdm | draftstatus:STATUS:tdm>` -> `ok`  (k: 0 nothing, 1 text, 2 data, 3 media; tdm: letters of the fields assigned before the raise)
    `find <id,id,...>`            -> handler id | `none`   (`_find_error_handler` on `type(ex).__mro__[:-1]`)
    `handle <mro> <status of the raised HTTPError/HTTPStatus or 0> <preset fields t|d|m or ->` -> `status=N body=K` | `escape`
    `handles <mro> <status or 0> <preset fields t|d|m|s|e or -> <k|s|c>` -> `status=N body=K` | `escape`   (Eb.handleS + Eb.sent: `s` = a stream
        (token 6) was attached before the raise, `e` = a server-sent events emitter (token 8) was set before the raise (ASGI); last argument = what the custom handler 7 does to `resp.stream`: keeps it, sets its own
        (token 7), clears it, followed by `e` if the handler also assigns its own emitter (token 10) before it returns / raises;
        K = token of what is sent, 0 for nothing) -/
structure St where
  reg : Reg
  behs : List (Handler × Beh)

def behOf (behs : List (Handler × Beh)) (h : Handler) : Beh :=
  match behs.find? (·.1 == h) with
  | some p => p.2
  | none => if h == 9001 then .defaultException else if h == 9002 then .defaultHttp else if h == 9003 then .defaultStatus
            else .sets none none none none

def parseBeh (s : String) : Option Beh :=
  match s.splitOn ":" with
  | ["sets", st, k] =>
    let k := k.toNat!
    some (.sets st.toNat? (if k == 1 then some 1 else none) (if k == 2 then some 2 else none) (if k == 3 then some 3 else none))
  | ["http", st] => some (.raisesHttp st.toNat!)
  | ["status", st] => some (.raisesStatus st.toNat!)
  | ["other"] => some .raisesOther
  | ["drafthttp", st, k] =>
    let k := k.toList
    some (.draftRaisesHttp (if k.contains 't' then some 1 else none) (if k.contains 'd' then some 2 else none) (if k.contains 'm' then some 3 else none) st.toNat!)
  | ["draftstatus", st, k] =>
    let k := k.toList
    some (.draftRaisesStatus (if k.contains 't' then some 1 else none) (if k.contains 'd' then some 2 else none) (if k.contains 'm' then some 3 else none) st.toNat!)
  | _ => none

def ids (s : String) : List Nat := (s.splitOn ",").filterMap (·.toNat?)

def step (s : St) (line : String) : St × String :=
  match (line.trimAscii.toString.splitOn " ").filter (· != "") with
  | ["new"] => ({ reg := [], behs := [] }, "ok")
  | ["reg", c, h] =>
    match c.toNat?, h.toNat? with
    | some c, some h => ({ s with reg := register s.reg c h }, "ok")
    | _, _ => (s, "bad-op")
  | ["behave", h, b] =>
    match h.toNat?, parseBeh b with
    | some h, some b => ({ s with behs := (h, b) :: s.behs }, "ok")
    | _, _ => (s, "bad-op")
  | ["find", mro] => (s, match find s.reg (ids mro) with | some h => toString h | none => "none")
  | ["find"] => (s, "none")
  | ["handle", mro, st, pre] =>
    let has (c : Char) : Option Nat := if pre.toList.contains c then some 9 else none
    let r0 : Resp := { status := 200, text := has 't', data := has 'd', media := has 'm' }
    (s, match handle s.reg (behOf s.behs) (ids mro) st.toNat! r0 with
        | none => "escape"
        | some r => s!"status={r.status} body={(body r).getD 0}")
  | ["handles", mro, st, pre, act] =>
    let has (c : Char) : Option Nat := if pre.toList.contains c then some 9 else none
    let r0 : Resp := { status := 200, text := has 't', data := has 'd', media := has 'm' }
    let sact : Handler → Eb.StreamAct := fun h =>
      if h == 7 then (if act.toList.contains 's' then .set 7 else if act.toList.contains 'c' then .clear else .keep) else .keep
    let eact : Handler → Option Nat := fun h => if h == 7 && act.toList.contains 'e' then some 10 else none
    (s, match Eb.handleS s.reg (behOf s.behs) sact eact (ids mro) st.toNat!
                ⟨r0, if pre.toList.contains 's' then some 6 else none, if pre.toList.contains 'e' then some 8 else none⟩ with
        | none => "escape"
        | some x => s!"status={x.r.status} body={(Eb.sent x).getD 0}")
  | _ => (s, "bad-op")
partial def loop (h : IO.FS.Stream) (s : St) : IO Unit := do
  let line ← h.getLine
  if line.isEmpty then return ()
  let (s', out) := step s line
  IO.println out
  loop h s'
def main : IO Unit := do loop (← IO.getStdin) { reg := [], behs := [] }

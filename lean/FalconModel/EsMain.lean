import FalconModel.ErrSerialize
import FalconModel.ErrLink
/-! esdriver — line protocol over the C04 default-rendering model (`Es`).

  Strings are hex of the code points < 256 (two digits each), `-` = empty string, `none` = None / absent.
    choose <xml 0|1> <handlers> <accept>        -> json | xml <ct> | media <ct> | type <ct> | none | unsupported
        <handlers> = hexkey:0|1,hexkey:0|1,... | -      (mapping order; 1 = the handler object is truthy)
    todict <title> <description> <code> <href> <href_text>
        each string argument: none | - | hex ; <code>: none | integer
                                                 -> title:given|status [description] [code] [link:given|default]
        (the status line is the fixed token `STATUS`; `uri.encode` is the identity here)
    link <href> <href_text>                      -> nolink | href=<cps> text=default|given
        <href>: none | - | dot-separated hex code points (ANY code point, e.g. 2f.25.e9.1f600); <href_text>: none | - | hex
        `HTTPError.__init__` with the real encoder (`Ek.mkError`: `uri.encode` = `Us.encode`); <cps> = the stored href, same format
    cerror <xml> <handlers> <accept> <status> <resp headers> <error headers>
                                                 -> status=N body=<k> hdrs=<sorted name:value,...> | header-not-supported | unsupported
    cstatus <status> <resp headers> <status headers> <text none|-|hex>
                                                 -> status=N body=<k> hdrs=... | header-not-supported
        <headers> = hexname:hexvalue,... | - (empty) | none ;   <k> = untouched | json | xml | media | text | notext -/
open Es

def hv (c : Char) : Nat := if c.isDigit then c.toNat - 48 else c.toNat - 87
def unhexL (s : String) : List Char :=
  let rec go : List Char → List Char
    | a :: b :: r => Char.ofNat (hv a * 16 + hv b) :: go r
    | _ => []
  if s == "-" then [] else go s.toList
def hexD (n : Nat) : Char := if n < 10 then Char.ofNat (48 + n) else Char.ofNat (87 + n)
def toHexL (s : List Char) : String :=
  if s.isEmpty then "-" else String.ofList (s.flatMap fun c => [hexD (c.toNat / 16), hexD (c.toNat % 16)])

def optStr (s : String) : Option Str := if s == "none" then none else some (unhexL s)

def parseHandlers (s : String) : List (Str × Bool) :=
  if s == "-" then [] else
  (s.splitOn ",").filterMap fun it => match it.splitOn ":" with
    | [k, v] => some (unhexL k, v == "1")
    | _ => none

def parseHdrs (s : String) : Option (List (Str × Str)) :=
  if s == "none" then none else if s == "-" then some [] else
  some ((s.splitOn ",").filterMap fun it => match it.splitOn ":" with
    | [k, v] => some (unhexL k, unhexL v)
    | _ => none)

def showChoice : Choice → String
  | .json => "json"
  | .xml ct => "xml " ++ toHexL ct
  | .media ct => "media " ++ toHexL ct
  | .typeOnly ct => "type " ++ toHexL ct
  | .none => "none"
  | .unsupported => "unsupported"

def insertSorted (x : String) : List String → List String
  | [] => [x]
  | y :: ys => if x < y then x :: y :: ys else y :: insertSorted x ys

def showHdrs (h : Headers) : String :=
  let items := (h.map fun (k, v) => toHexL k ++ ":" ++ toHexL v).foldr insertSorted []
  if items.isEmpty then "-" else ",".intercalate items

def showBody : BodySrc → String
  | .untouched => "untouched"
  | .dataJson => "json"
  | .dataXml => "xml"
  | .mediaDict => "media"
  | .text (some _) => "text"
  | .text none => "notext"

def showOutcome : Outcome → String
  | .done r => s!"status={r.status} body={showBody r.body} hdrs={showHdrs r.headers}"
  | .headerNotSupported => "header-not-supported"
  | .unsupported => "unsupported"

def statusTok : Str := ['S','T','A','T','U','S']

def showDict (e : HttpError) : String :=
  " ".intercalate ((toDict e).map fun (k, v) =>
    match v with
    | .str s => if k == kTitle then (if s == statusTok then "title:status" else "title:given") else String.ofList k
    | .int _ => String.ofList k
    | .link l => "link:" ++ (if l.text == defaultLinkText then "default" else "given"))

def hexNat (s : String) : Nat := s.toList.foldl (fun n c => n * 16 + hv c) 0
def cpsOf (s : String) : Option Str :=
  if s == "none" then none else if s == "-" then some [] else some ((s.splitOn ".").map fun t => Char.ofNat (hexNat t))
def natHex (n : Nat) : String := String.ofList (Nat.toDigits 16 n)
def showCps (s : Str) : String := if s.isEmpty then "-" else ".".intercalate (s.map fun c => natHex c.toNat)

def step (line : String) : String :=
  match (line.trimAscii.toString.splitOn " ").filter (· != "") with
  | ["choose", x, hs, acc] =>
    showChoice (serializeChoice { xml := x == "1", handlers := parseHandlers hs } (optStr acc))
  | ["todict", t, d, c, h, ht] =>
    showDict (mkError id 0 statusTok (optStr t) (optStr d) none (optStr h) (optStr ht) (if c == "none" then none else c.toInt?))
  | ["link", h, ht] =>
    match (Ek.mkError 0 statusTok none none none (cpsOf h) (optStr ht) none).link with
    | none => "nolink"
    | some l => s!"href={showCps l.href} text={if l.text == defaultLinkText then "default" else "given"}"
  | ["cerror", x, hs, acc, st, rh, eh] =>
    let r : Resp := { status := 200, headers := (parseHdrs rh).getD [], body := .untouched }
    let e : HttpError := { status := st.toNat!, title := [], description := none, headers := parseHdrs eh, link := none, code := none }
    showOutcome (composeError { xml := x == "1", handlers := parseHandlers hs } (optStr acc) r e)
  | ["cstatus", st, rh, sh, t] =>
    let r : Resp := { status := 200, headers := (parseHdrs rh).getD [], body := .untouched }
    showOutcome (composeStatus r { status := st.toNat!, headers := parseHdrs sh, text := optStr t })
  | _ => "bad-op"

partial def loop (h : IO.FS.Stream) : IO Unit := do
  let line ← h.getLine
  if line.isEmpty then return ()
  IO.println (step line)
  loop h
def main : IO Unit := do loop (← IO.getStdin)

import FalconModel.AsgiStreamProofs
/-! C07 (ASGI): whole histories.  The per-operation refinement theorems of `AsgiStreamProofs` chain: every history of
    `read(n)` / `read()` / `readall()` / `exhaust()` / `async for … break` on the repaired stream hands out, in order, a prefix of
    the declared body; `tell()` counts exactly what was consumed; no operation blocks. -/
namespace AsF

theorem recv_closed (s : S) : (recv s).2.closed = s.closed := by
  unfold recv; split <;> rfl

/-- the bookkeeping done for one received event never touches `closed` -/
theorem ite_closed (c : Bool) (s : S) : (if c then { s with remaining := 0 } else s).closed = s.closed := by
  split <;> rfl

theorem readallLoop_closed : ∀ (fuel : Nat) (s : S) (chunks : List Bytes), (readallLoop fuel s chunks).1.closed = s.closed
  | 0, s, chunks => rfl
  | fuel + 1, s, chunks => by
    rw [readallLoop]
    split
    · have hr := recv_closed s
      cases hrecv : recv s with
      | mk oe s1 =>
        rw [hrecv] at hr; simp only at hr
        cases oe with
        | none => simp only; exact hr
        | some ev =>
          simp only
          rw [readallLoop_closed fuel, ite_closed]
          cases ev with
          | disconnect => exact hr
          | request body more =>
            cases body with
            | none => exact hr
            | some c => simp only; split <;> exact hr
    · rfl

theorem readLoop_closed : ∀ (fuel : Nat) (s : S) (chunks : List Bytes) (avail size : Nat),
    (readLoop fuel s chunks avail size).1.closed = s.closed
  | 0, s, chunks, avail, size => rfl
  | fuel + 1, s, chunks, avail, size => by
    rw [readLoop]
    split
    · have hr := recv_closed s
      cases hrecv : recv s with
      | mk oe s1 =>
        rw [hrecv] at hr; simp only at hr
        cases oe with
        | none => simp only; exact hr
        | some ev =>
          simp only
          rw [readLoop_closed fuel, ite_closed]
          cases ev with
          | disconnect => exact hr
          | request body more =>
            cases body with
            | none => exact hr
            | some c => simp only; split <;> exact hr
    · rfl

theorem exhaustLoop_closed : ∀ (fuel : Nat) (s : S), (exhaustLoop fuel s).closed = s.closed
  | 0, s => rfl
  | fuel + 1, s => by
    rw [exhaustLoop]
    split
    · have hr := recv_closed s
      cases hrecv : recv s with
      | mk oe s1 =>
        rw [hrecv] at hr; simp only at hr
        cases oe with
        | none => simp only; exact hr
        | some ev =>
          cases ev with
          | disconnect => simp only; rw [exhaustLoop_closed fuel]; exact hr
          | request body more =>
            simp only
            rw [exhaustLoop_closed fuel]
            split <;> exact hr
    · rfl


theorem ite_pair_closed {c : Prop} [Decidable c] (o1 o2 : Out) (x y : S) (z : Bool) (hx : x.closed = z) (hy : y.closed = z) :
    (if c then (o1, x) else (o2, y)).2.closed = z := by split <;> assumption

theorem readall_closed (s : S) : (readall s).2.closed = s.closed := by
  unfold readall
  by_cases hc : s.closed = true
  · simp [hc]
  · by_cases he : eof s = true
    · simp [hc, he]
    · rw [if_neg hc, if_neg he]
      have hL := readallLoop_closed (s.events.length + 1) { s with buffer := [] } (if !s.buffer.isEmpty then [s.buffer] else [])
      exact ite_pair_closed _ _ _ _ _ hL hL

theorem read_closed (s : S) (n : Option Int) : (read s n).2.closed = s.closed := by
  unfold read
  by_cases hc : s.closed = true
  · simp [hc]
  · by_cases he : eof s = true
    · simp [hc, he]
    · rw [if_neg hc, if_neg he]
      cases n with
      | none => exact readall_closed s
      | some sz =>
        simp only
        by_cases h1 : (sz == -1) = true
        · simp only [h1, if_true]; exact readall_closed s
        · simp only [h1, Bool.false_eq_true, if_false]
          by_cases h2 : sz ≤ 0
          · simp [h2]
          · simp only [h2, if_false]
            have hL := readLoop_closed (s.events.length + 1) s (if !s.buffer.isEmpty then [s.buffer] else []) s.buffer.length sz.toNat
            exact ite_pair_closed _ _ _ _ _ hL hL

theorem exhaust_closed (s : S) : (exhaust s).2.closed = s.closed := by
  unfold exhaust
  by_cases hc : s.closed = true
  · simp [hc]
  · rw [if_neg hc]
    have hL := exhaustLoop_closed (s.events.length + 1) { s with buffer := [], pos := s.pos + s.buffer.length }
    exact ite_pair_closed _ _ _ _ _ hL hL

theorem iterLoop_closed : ∀ (fuel : Nat) (s : S) (k : Nat) (acc : Bytes), (iterLoop fuel s k acc).1.closed = s.closed
  | 0, s, k, acc => rfl
  | fuel + 1, s, k, acc => by
    rw [iterLoop]
    split; · rfl
    split
    · have hr := recv_closed s
      cases hrecv : recv s with
      | mk oe s1 =>
        rw [hrecv] at hr; simp only at hr
        cases oe with
        | none => simp only; exact hr
        | some ev =>
          cases ev with
          | disconnect => simp only; rw [iterLoop_closed fuel, ite_closed]; exact hr
          | request body more =>
            cases body with
            | none => simp only; rw [iterLoop_closed fuel, ite_closed]; exact hr
            | some c =>
              simp only
              split
              · split
                · simp only; rw [ite_closed]; split <;> exact hr
                · rw [iterLoop_closed fuel, ite_closed]; split <;> exact hr
              · rw [iterLoop_closed fuel, ite_closed]; exact hr
    · rfl

theorem iterate_closed (s : S) (k : Nat) : (iterate s k).2.closed = s.closed := by
  unfold iterate
  by_cases hc : s.closed = true
  · simp [hc]
  · rw [if_neg hc]
    by_cases hi : s.iterStarted = true
    · simp [hi]
    · rw [if_neg hi]
      by_cases he : eof s = true
      · simp [he]
      · rw [if_neg he]
        simp only
        split
        · split
          · rfl
          · exact ite_pair_closed _ _ _ _ _ (iterLoop_closed _ _ _ _) (iterLoop_closed _ _ _ _)
        · exact ite_pair_closed _ _ _ _ _ (iterLoop_closed _ _ _ _) (iterLoop_closed _ _ _ _)

/-- the state every operation expects and re-establishes: open, never blocked, and the end of the body is within reach -/
def Good (s : S) : Prop := s.closed = false ∧ s.blocked = false ∧ (s.remaining = 0 ∨ complete s.events = true)

inductive Op where
  | read (n : Int) | readAll | exhaust | iterate (k : Nat)
  deriving Repr

def runOp (s : S) : Op → Out × S
  | .read n => read s (some n)
  | .readAll => readall s
  | .exhaust => exhaust s
  | .iterate k => iterate s k

def outBytes : Out → Bytes
  | .data b => b
  | _ => []

def isExhaust : Op → Bool
  | .exhaust => true
  | _ => false


/-- one operation, in a good state: it hands out (or, for `exhaust`, discards) exactly the next `c` bytes of what was
    declared, `tell()` advances by `|c|`, and the state is good again -/
structure OpStep (s : S) (o : Op) (r : Out × S) : Prop where
  good : Good r.2
  cut : ∃ c, c ++ absS r.2 = absS s ∧ r.2.pos = s.pos + c.length ∧
        (isExhaust o = false → outBytes r.1 = c) ∧ (isExhaust o = true → outBytes r.1 = [] ∧ absS r.2 = [])

theorem exhaust_remaining (s : S) (hc : s.closed = false) (hb : (exhaust s).2.blocked = false) : (exhaust s).2.remaining = 0 := by
  unfold exhaust at hb ⊢
  rw [if_neg (by rw [hc]; exact Bool.false_ne_true)] at hb ⊢
  simp only at hb ⊢
  split
  · rename_i h; rw [if_pos h] at hb; simp only at hb; rw [hb] at h; exact absurd h Bool.false_ne_true
  · rfl

theorem runOp_step (s : S) (o : Op) (hg : Good s) : OpStep s o (runOp s o) := by
  obtain ⟨hc, hb, hcomp⟩ := hg
  cases o with
  | readAll =>
    obtain ⟨h1, h2, h3, h4, h5⟩ := readall_refines s hc hb hcomp
    refine ⟨⟨by rw [show (runOp s .readAll) = readall s from rfl, readall_closed, hc], h4, Or.inl h5⟩, absS s, ?_, h3, ?_, ?_⟩
    · show absS s ++ absS (readall s).2 = absS s; rw [h2]; simp
    · intro _; show outBytes (readall s).1 = absS s; rw [h1]; rfl
    · intro h; simp [isExhaust] at h
  | exhaust =>
    obtain ⟨h1, h2, h3, h4⟩ := exhaust_refines s hc hb hcomp
    refine ⟨⟨by rw [show (runOp s .exhaust) = exhaust s from rfl, exhaust_closed, hc], h4, Or.inl (exhaust_remaining s hc h4)⟩, absS s, ?_, h3, ?_, ?_⟩
    · show absS s ++ absS (exhaust s).2 = absS s; rw [h2]; simp
    · intro h; simp [isExhaust] at h
    · intro _; exact ⟨by show outBytes (exhaust s).1 = []; rw [h1]; rfl, h2⟩
  | iterate k =>
    by_cases hi : s.iterStarted = true
    · have : iterate s k = (.notAllowed, s) := by
        unfold iterate; rw [if_neg (by rw [hc]; exact Bool.false_ne_true), if_pos hi]
      refine ⟨⟨?_, ?_, ?_⟩, [], ?_, ?_, ?_, ?_⟩ <;> (show _; simp only [runOp, this]) <;> first | exact hc | exact hb | exact hcomp | simp [outBytes, isExhaust]
    · have hi' : s.iterStarted = false := by simpa using hi
      obtain ⟨acc, h1, h2, h3, h4, h5⟩ := iterate_refines s k hc hi' hb hcomp
      refine ⟨⟨by rw [show (runOp s (.iterate k)) = iterate s k from rfl, iterate_closed, hc], h4, h5⟩, acc, h2, h3, ?_, ?_⟩
      · intro _; show outBytes (iterate s k).1 = acc; rw [h1]; rfl
      · intro h; simp [isExhaust] at h
  | read n =>
    show OpStep s (.read n) (read s (some n))
    by_cases hn : 0 < n
    · obtain ⟨h1, h2, h3, h4, h5⟩ := read_sized_refines s n hn hc hb hcomp
      refine ⟨⟨by rw [read_closed, hc], h4, h5⟩, (absS s).take n.toNat, ?_, h3, ?_, ?_⟩
      · rw [h2]; exact List.take_append_drop _ _
      · intro _; rw [h1]; rfl
      · intro h; simp [isExhaust] at h
    · by_cases hm : n = -1
      · subst hm
        have hc' : ¬ s.closed = true := by rw [hc]; exact Bool.false_ne_true
        have hre : read s (some (-1)) = readall s := by
          unfold read
          rw [if_neg hc']
          by_cases he : eof s = true
          · rw [if_pos he]; unfold readall; rw [if_neg hc', if_pos he]
          · rw [if_neg he]; simp
        rw [hre]
        obtain ⟨h1, h2, h3, h4, h5⟩ := readall_refines s hc hb hcomp
        refine ⟨⟨by rw [readall_closed, hc], h4, Or.inl h5⟩, absS s, ?_, h3, ?_, ?_⟩
        · rw [h2]; simp
        · intro _; rw [h1]; rfl
        · intro h; simp [isExhaust] at h
      · have hre : read s (some n) = (.data [], s) := by
          unfold read
          rw [if_neg (by rw [hc]; exact Bool.false_ne_true)]
          by_cases he : eof s = true
          · simp [he]
          · rw [if_neg he]
            have h1 : (n == -1) = false := by simp [hm]
            have h2 : n ≤ 0 := by omega
            simp [h1, h2]
        rw [hre]
        exact ⟨⟨hc, hb, hcomp⟩, [], by simp, by simp, fun _ => rfl, fun h => by simp [isExhaust] at h⟩


/-- run a history; returns the concatenation of everything handed to the application -/
def runOps : S → List Op → Bytes × S
  | s, [] => ([], s)
  | s, o :: os =>
    let r := runOp s o
    let (rest, s') := runOps r.2 os
    (outBytes r.1 ++ rest, s')

/-- **whole histories on the ASGI request stream.** From any good state (in particular a freshly constructed stream
    whose event list contains the end of the body), after ANY sequence of `read(n)` (any integer `n`), `read()`,
    `readall()`, `exhaust()` and `async for` loops abandoned after any number of chunks:
    * what was consumed (`c`) and what is still to come make up exactly what was declared (no loss, no duplication,
      nothing beyond Content-Length);
    * `tell()` advanced by exactly `|c|`;
    * the bytes handed to the application, in call order, are a prefix of `c` — all of `c` if nothing was discarded by `exhaust()`;
    * the state is good again: not blocked (no operation ever waited for `receive()` beyond the end of the body). -/
theorem history_refines (ops : List Op) : ∀ (s : S), Good s →
    Good (runOps s ops).2 ∧
    ∃ c, c ++ absS (runOps s ops).2 = absS s ∧ (runOps s ops).2.pos = s.pos + c.length ∧
      (∃ t, (runOps s ops).1 ++ t = c) ∧ ((∀ o ∈ ops, isExhaust o = false) → (runOps s ops).1 = c) := by
  induction ops with
  | nil => intro s hg; exact ⟨hg, [], by simp [runOps], by simp [runOps], ⟨[], by simp [runOps]⟩, fun _ => by simp [runOps]⟩
  | cons o os ih =>
    intro s hg
    have st := runOp_step s o hg
    obtain ⟨c1, hc1, hp1, hne, hex⟩ := st.cut
    obtain ⟨hg2, c2, hc2, hp2, ⟨t2, ht2⟩, hall2⟩ := ih (runOp s o).2 st.good
    have hrun : runOps s (o :: os) = (outBytes (runOp s o).1 ++ (runOps (runOp s o).2 os).1, (runOps (runOp s o).2 os).2) := by
      simp [runOps]
    rw [hrun]; simp only
    refine ⟨hg2, c1 ++ c2, ?_, ?_, ?_, ?_⟩
    · rw [List.append_assoc, hc2, hc1]
    · rw [hp2, hp1, List.length_append]; omega
    · cases hx : isExhaust o with
      | false => exact ⟨t2, by rw [hne hx, List.append_assoc, ht2]⟩
      | true =>
        obtain ⟨ho, habs⟩ := hex hx
        rw [habs] at hc2
        have hc2nil : c2 = [] := (List.append_eq_nil_iff.mp hc2).1
        rw [hc2nil] at ht2
        have hrest : (runOps (runOp s o).2 os).1 = [] := (List.append_eq_nil_iff.mp ht2).1
        exact ⟨c1 ++ c2, by rw [ho, hrest]; simp⟩
    · intro hall
      have ho : isExhaust o = false := hall o (by simp)
      rw [hne ho, hall2 (fun x hx => hall x (by simp [hx]))]


/-- a freshly constructed stream is in a good state as soon as the events still to come contain the end of the body -/
theorem good_init (first : Option Event) (cl : Option Nat) (events : List Event) (h : complete events = true) :
    Good (init first cl events) := by
  refine ⟨?_, ?_, Or.inr ?_⟩ <;> (unfold init; simp only) <;> first | rfl | exact h

/-- the application never receives more than what was declared, and what it receives is a prefix of it -/
theorem history_prefix_of_declared (ops : List Op) (s : S) (hg : Good s) :
    ∃ t, (runOps s ops).1 ++ t = absS s := by
  obtain ⟨_, c, hc, _, ⟨t, ht⟩, _⟩ := history_refines ops s hg
  exact ⟨t ++ absS (runOps s ops).2, by rw [← List.append_assoc, ht, hc]⟩

/-- without `exhaust()`, once nothing is left (`eof`) the application has received the whole declared body -/
theorem history_whole_at_eof (ops : List Op) (s : S) (hg : Good s) (hne : ∀ o ∈ ops, isExhaust o = false)
    (heof : absS (runOps s ops).2 = []) : (runOps s ops).1 = absS s := by
  obtain ⟨_, c, hc, _, _, hall⟩ := history_refines ops s hg
  rw [hall hne, ← hc, heof, List.append_nil]

-- non-vacuity: Content-Length 5, the server sends "abc" (more) then "defgh" (final, oversized): read(2); iterate 1 chunk; readall
example :
    let s := init (some (.request (some [97, 98, 99]) (some true))) (some 5) [.request (some [100, 101, 102, 103, 104]) none]
    (s.closed = false ∧ s.blocked = false ∧ (s.remaining = 0 ∨ complete s.events = true)) ∧ (runOps s [.read 2, .iterate 1, .readAll]).1 = [97, 98, 99, 100, 101] ∧ (runOps s [.read 2, .iterate 1, .readAll]).2.pos = 5 := by
  decide

end AsF

/-! C07: falcon/asgi/stream.py BoundedStream **after the F04/F05/F19 repairs** (Appendix C of DESIGN.md). -/
namespace AsF
abbrev Bytes := List UInt8

inductive Event where
  | request (body : Option Bytes) (more : Option Bool)     -- http.request with optional keys
  | disconnect
deriving Repr

structure S where
  buffer : Bytes
  remaining : Nat            -- _bytes_remaining (2^63 when no Content-Length)
  pos : Nat
  closed : Bool := false
  iterStarted : Bool := false
  events : List Event        -- what receive() will deliver next
  awaited : Nat := 0         -- number of receive() calls
  blocked : Bool := false    -- a receive() found no event (would block)
deriving Repr

def big : Nat := 2^63

def moreOf : Event → Bool
  | .request _ (some true) => true
  | _ => false

def init (first : Option Event) (cl : Option Nat) (events : List Event) : S :=
  let firstChunk : Bytes := match first with | some (.request (some b) _) => b | _ => []
  let (buffer, remaining) : Bytes × Nat := match cl with
    | none => (firstChunk, big)
    | some n => let b := firstChunk.take n; (b, n - b.length)
  let remaining := match first with
    | some ev => if remaining != 0 && !moreOf ev then 0 else remaining
    | none => remaining
  { buffer := buffer, remaining := remaining, pos := 0, events := events }     -- F04: nothing handed out yet

def eof (s : S) : Bool := s.buffer.isEmpty && s.remaining == 0

inductive Out where
  | data (b : Bytes) | closedErr | notAllowed | blocked | unit
deriving Repr

/-- receive(): next event or "would block" -/
def recv (s : S) : Option Event × S :=
  match s.events with
  | [] => (none, { s with awaited := s.awaited + 1, blocked := true })
  | e :: rest => (some e, { s with events := rest, awaited := s.awaited + 1 })

def exhaustLoop : Nat → S → S
  | 0, s => s
  | fuel + 1, s =>
    if s.remaining > 0 then
      match recv s with
      | (none, s) => s
      | (some .disconnect, s) => exhaustLoop fuel { s with remaining := 0 }
      | (some (.request body more), s) =>
        let n := min (body.getD []).length s.remaining     -- F04: an oversized chunk counts up to the declared length
        let s := { s with remaining := s.remaining - n, pos := s.pos + n }
        let s := if !(more == some true) then { s with remaining := 0 } else s
        exhaustLoop fuel s
    else s

def exhaust (s : S) : Out × S :=
  if s.closed then (.closedErr, s) else
  let s := exhaustLoop (s.events.length + 1) { s with buffer := [], pos := s.pos + s.buffer.length }   -- F04
  if s.blocked then (.blocked, s) else (.unit, { s with remaining := 0 })

def readallLoop : Nat → S → List Bytes → S × List Bytes
  | 0, s, chunks => (s, chunks)
  | fuel + 1, s, chunks =>
    if s.remaining > 0 then
      match recv s with
      | (none, s) => (s, chunks)
      | (some ev, s) =>
        let (s, chunks) := match ev with
          | .request (some c) _ =>
            if c.length ≤ s.remaining then ({ s with remaining := s.remaining - c.length }, chunks ++ [c])
            else ({ s with remaining := 0 }, chunks ++ [c.take s.remaining])
          | _ => (s, chunks)
        let s := if !moreOf ev then { s with remaining := 0 } else s
        readallLoop fuel s chunks
    else (s, chunks)

def readall (s : S) : Out × S :=
  if s.closed then (.notAllowed, s) else
  if eof s then (.data [], s) else
  let chunks := if !s.buffer.isEmpty then [s.buffer] else []
  let (s, chunks) := readallLoop (s.events.length + 1) { s with buffer := [] } chunks
  if s.blocked then (.blocked, s) else
  let data := chunks.flatten
  (.data data, { s with pos := s.pos + data.length })

def readLoop : Nat → S → List Bytes → Nat → Nat → S × List Bytes × Nat
  | 0, s, chunks, avail, _ => (s, chunks, avail)
  | fuel + 1, s, chunks, avail, size =>
    if s.remaining > 0 && avail < size then
      match recv s with
      | (none, s) => (s, chunks, avail)
      | (some ev, s) =>
        let (s, chunks, avail) := match ev with
          | .request (some c) _ =>
            if c.length ≤ s.remaining then
              ({ s with remaining := s.remaining - c.length }, chunks ++ [c], avail + c.length)
            else
              ({ s with remaining := 0 }, chunks ++ [c.take s.remaining], avail + s.remaining)   -- F05
          | _ => (s, chunks, avail)
        let s := if !moreOf ev then { s with remaining := 0 } else s
        readLoop fuel s chunks avail size
    else (s, chunks, avail)

def read (s : S) (size : Option Int) : Out × S :=
  if s.closed then (.notAllowed, s) else
  if eof s then (.data [], s) else
  match size with
  | none => readall s
  | some sz =>
    if sz == -1 then readall s
    else if sz ≤ 0 then (.data [], s)
    else
      let n := sz.toNat
      let chunks := if !s.buffer.isEmpty then [s.buffer] else []
      let (s, chunks, avail) := readLoop (s.events.length + 1) s chunks s.buffer.length n
      if s.blocked then (.blocked, s) else
      let buf := chunks.flatten
      let (data, rest) := if avail ≤ n then (buf, []) else (buf.take n, buf.drop n)
      (.data data, { s with buffer := rest, pos := s.pos + data.length })

/-- `async for chunk in stream`, taking at most `k` chunks and then abandoning the generator (`break`) -/
def iterLoop : Nat → S → Nat → Bytes → S × Bytes
  | 0, s, _, acc => (s, acc)
  | fuel + 1, s, k, acc =>
    if k == 0 then (s, acc) else
    if s.remaining > 0 then
      match recv s with
      | (none, s) => (s, acc)
      | (some ev, s) =>
        match ev with
        | .request (some c) _ =>
          if !c.isEmpty then
            let (s, c) :=
              if c.length ≤ s.remaining then ({ s with remaining := s.remaining - c.length, pos := s.pos + c.length }, c)
              else ({ s with pos := s.pos + s.remaining, remaining := 0 }, c.take s.remaining)
            -- F19: the `more_body` bookkeeping happens before the chunk is yielded
            let s := if !moreOf ev then { s with remaining := 0 } else s
            if k == 1 then (s, acc ++ c)
            else iterLoop fuel s (k - 1) (acc ++ c)
          else
            let s := if !moreOf ev then { s with remaining := 0 } else s
            iterLoop fuel s k acc
        | _ =>
          let s := if !moreOf ev then { s with remaining := 0 } else s
          iterLoop fuel s k acc
    else ({ s with iterStarted := false }, acc)     -- the generator ran to completion

def iterate (s : S) (k : Nat) : Out × S :=
  if s.closed then (.notAllowed, s) else
  if s.iterStarted then (.notAllowed, s) else
  if eof s then (.data [], s) else
  let s := { s with iterStarted := true }
  if !s.buffer.isEmpty then
    let c := s.buffer
    let s := { s with buffer := [], pos := s.pos + c.length }
    if k ≤ 1 then (.data c, s)
    else
      let (s, acc) := iterLoop (s.events.length + 1) s (k - 1) c
      if s.blocked then (.blocked, s) else (.data acc, s)
  else
    let (s, acc) := iterLoop (s.events.length + 1) s k []
    if s.blocked then (.blocked, s) else (.data acc, s)

def close (s : S) : S := if s.closed then s else { s with buffer := [], remaining := 0, closed := true }
end AsF

import FalconModel.AsgiStreamFixed
import FalconModel.AsgiStream
/-! C07 (ASGI): the repaired `BoundedStream` is a cursor over the declared body, whatever the event shapes. -/
namespace AsF

/-- the bytes the server will still deliver, in order, up to and including its final event -/
def future : List Event → Bytes
  | [] => []
  | .disconnect :: _ => []
  | .request body more :: rest => body.getD [] ++ (if more == some true then future rest else [])

/-- the event list contains the end of the body, so no `receive()` issued while more is expected can block -/
def complete : List Event → Bool
  | [] => false
  | .disconnect :: _ => true
  | .request _ more :: rest => if more == some true then complete rest else true

/-- what the stream will still hand out: the buffered bytes, then the future bytes within the declared length -/
def absS (s : S) : Bytes := s.buffer ++ (future s.events).take s.remaining

theorem take_append_len (c x : Bytes) (n : Nat) (h : c.length ≤ n) : (c ++ x).take n = c ++ x.take (n - c.length) := by
  rw [List.take_append]
  rw [List.take_of_length_le h]

theorem take_append_short (c x : Bytes) (n : Nat) (h : n ≤ c.length) : (c ++ x).take n = c.take n := by
  rw [List.take_append]
  have : n - c.length = 0 := by omega
  rw [this]; simp

theorem take_len_app (b x : Bytes) : (b ++ x).take b.length = b := by
  rw [take_append_len b x _ (Nat.le_refl _)]; simp
theorem drop_len_app (b x : Bytes) : (b ++ x).drop b.length = x := by
  rw [List.drop_append]; simp

/-- `readall()`'s loop: collects exactly the future bytes within the declared length and ends with the budget at 0 -/
theorem readallLoop_spec : ∀ (evs : List Event) (fuel : Nat) (s : S) (chunks : List Bytes),
    s.events = evs → evs.length < fuel → s.blocked = false → (s.remaining = 0 ∨ complete evs = true) →
    let r := readallLoop fuel s chunks
    r.2.flatten = chunks.flatten ++ (future evs).take s.remaining ∧ r.1.remaining = 0 ∧ r.1.blocked = false ∧
    r.1.buffer = s.buffer ∧ r.1.pos = s.pos ∧ r.1.closed = s.closed := by
  intro evs
  induction evs with
  | nil =>
    intro fuel s chunks he hf hb hc
    cases fuel with
    | zero => omega
    | succ n =>
      have hr : s.remaining = 0 := by rcases hc with h | h; exact h; simp [complete] at h
      simp [readallLoop, hr, hb, future]
  | cons e rest ih =>
    intro fuel s chunks he hf hb hc
    cases fuel with
    | zero => simp at hf
    | succ n =>
      by_cases hr : s.remaining = 0
      · simp [readallLoop, hr, hb]
      · have hpos : s.remaining > 0 := by omega
        have hcomp : complete (e :: rest) = true := by rcases hc with h | h; exact absurd h hr; exact h
        simp only [readallLoop, hpos, if_true, recv, he]
        cases e with
        | disconnect =>
          simp only [moreOf, Bool.not_false, if_true]
          have := ih n { s with events := rest, awaited := s.awaited + 1, remaining := 0 } chunks rfl
            (by simp at hf; omega) hb (Or.inl rfl)
          simp only at this
          obtain ⟨t1, t2, t3, t4, t5, t6⟩ := this
          refine ⟨?_, t2, t3, t4, t5, t6⟩
          rw [t1]; simp [future]
        | request body more =>
          cases body with
          | none =>
            simp only
            by_cases hm : more = some true
            · subst hm
              simp only [moreOf, Bool.not_true, Bool.false_eq_true, if_false]
              have := ih n { s with events := rest, awaited := s.awaited + 1 } chunks rfl
                (by simp at hf; omega) hb (Or.inr (by simpa [complete] using hcomp))
              simp only at this
              obtain ⟨t1, t2, t3, t4, t5, t6⟩ := this
              refine ⟨?_, t2, t3, t4, t5, t6⟩
              rw [t1]; simp [future]
            · have hmo : moreOf (.request none more) = false := by
                cases more with
                | none => rfl
                | some b => cases b <;> simp_all [moreOf]
              simp only [hmo, Bool.not_false, if_true]
              have := ih n { s with events := rest, awaited := s.awaited + 1, remaining := 0 } chunks rfl
                (by simp at hf; omega) hb (Or.inl rfl)
              simp only at this
              obtain ⟨t1, t2, t3, t4, t5, t6⟩ := this
              refine ⟨?_, t2, t3, t4, t5, t6⟩
              have hne : (more == some true) = false := by simpa using hm
              rw [t1]; simp [future, hne]
          | some c =>
            simp only
            by_cases hfit : c.length ≤ s.remaining
            · simp only [hfit, if_true]
              by_cases hm : more = some true
              · subst hm
                simp only [moreOf, Bool.not_true, Bool.false_eq_true, if_false]
                have := ih n { s with events := rest, awaited := s.awaited + 1, remaining := s.remaining - c.length }
                  (chunks ++ [c]) rfl (by simp at hf; omega) hb (Or.inr (by simpa [complete] using hcomp))
                simp only at this
                obtain ⟨t1, t2, t3, t4, t5, t6⟩ := this
                refine ⟨?_, t2, t3, t4, t5, t6⟩
                rw [t1]; simp [future, take_append_len c _ _ hfit]
              · have hmo : moreOf (.request (some c) more) = false := by
                  cases more with
                  | none => rfl
                  | some b => cases b <;> simp_all [moreOf]
                simp only [hmo, Bool.not_false, if_true]
                have := ih n { s with events := rest, awaited := s.awaited + 1, remaining := 0 }
                  (chunks ++ [c]) rfl (by simp at hf; omega) hb (Or.inl rfl)
                simp only at this
                obtain ⟨t1, t2, t3, t4, t5, t6⟩ := this
                refine ⟨?_, t2, t3, t4, t5, t6⟩
                have hne : (more == some true) = false := by simpa using hm
                rw [t1]; simp [future, hne, List.take_of_length_le hfit]
            · simp only [hfit, if_false]
              have hrest : ∀ (b : Bool), (if b then ({ s with events := rest, awaited := s.awaited + 1, remaining := 0 } : S)
                  else { s with events := rest, awaited := s.awaited + 1, remaining := 0 })
                  = { s with events := rest, awaited := s.awaited + 1, remaining := 0 } := by intro b; cases b <;> rfl
              have := ih n { s with events := rest, awaited := s.awaited + 1, remaining := 0 }
                (chunks ++ [c.take s.remaining]) rfl (by simp at hf; omega) hb (Or.inl rfl)
              simp only at this
              obtain ⟨t1, t2, t3, t4, t5, t6⟩ := this
              have key : (future (.request (some c) more :: rest)).take s.remaining = c.take s.remaining := by
                simp only [future, Option.getD_some]
                exact take_append_short c _ _ (by omega)
              cases hmo : moreOf (.request (some c) more)
              · simp only [Bool.not_false, if_true]
                refine ⟨?_, t2, t3, t4, t5, t6⟩
                rw [t1, key]; simp
              · simp only [Bool.not_true, Bool.false_eq_true, if_false]
                refine ⟨?_, t2, t3, t4, t5, t6⟩
                rw [t1, key]; simp

#print axioms readallLoop_spec

/-- `readall()` / `read()` / `read(-1)`: returns everything that is still declared, leaves nothing, and `tell()`
    advances by exactly what was returned — whatever the server's chunking, missing keys, oversized chunks or a
    disconnect in the middle -/
theorem readall_refines (s : S) (hc : s.closed = false) (hb : s.blocked = false)
    (hcomp : s.remaining = 0 ∨ complete s.events = true) :
    (readall s).1 = .data (absS s) ∧ absS (readall s).2 = [] ∧
    (readall s).2.pos = s.pos + (absS s).length ∧ (readall s).2.blocked = false ∧ (readall s).2.remaining = 0 := by
  unfold readall
  rw [if_neg (by rw [hc]; exact Bool.false_ne_true)]
  by_cases he : eof s = true
  · simp only [he, if_true]
    have h1 : s.buffer = [] ∧ s.remaining = 0 := by
      simpa [eof] using he
    have : absS s = [] := by simp [absS, h1.1, h1.2]
    simp [this, hb, h1.2]
  · simp only [he, Bool.false_eq_true, if_false]
    have spec := readallLoop_spec s.events (s.events.length + 1) { s with buffer := [] }
      (if !s.buffer.isEmpty then [s.buffer] else []) rfl (by omega) hb hcomp
    simp only at spec
    obtain ⟨t1, t2, t3, t4, t5, t6⟩ := spec
    rcases hl : readallLoop (s.events.length + 1) { s with buffer := [] }
      (if !s.buffer.isEmpty then [s.buffer] else []) with ⟨s1, chunks⟩
    rw [hl] at t1 t2 t3 t4 t5 t6
    simp only at t1 t2 t3 t4 t5 t6
    have hflat : (if !s.buffer.isEmpty then [s.buffer] else []).flatten = s.buffer := by
      cases hbuf : s.buffer with
      | nil => simp
      | cons a b => simp
    have hdata : chunks.flatten = absS s := by rw [t1, hflat]; rfl
    have hnb : ¬ (s1.blocked = true) := by rw [t3]; exact Bool.false_ne_true
    rw [if_neg hnb]
    refine ⟨by rw [hdata], ?_, by simp only; rw [hdata, t5], t3, t2⟩
    simp [absS, t4, t2]

#print axioms readall_refines

/-- the loop of a sized `read(n)`: it moves future bytes into `chunks` without losing or duplicating any, keeps an exact
    count of what it has (`avail`; this is the F05 site), and stops only when it has enough or nothing more is declared -/
theorem readLoop_spec : ∀ (evs : List Event) (fuel : Nat) (s : S) (chunks : List Bytes) (avail size : Nat),
    s.events = evs → evs.length < fuel → s.blocked = false → (s.remaining = 0 ∨ complete evs = true) →
    avail = chunks.flatten.length →
    let r := readLoop fuel s chunks avail size
    r.2.1.flatten ++ (future r.1.events).take r.1.remaining = chunks.flatten ++ (future evs).take s.remaining ∧
    r.2.2 = r.2.1.flatten.length ∧ (r.1.remaining = 0 ∨ size ≤ r.2.2) ∧ r.1.blocked = false ∧
    (r.1.remaining = 0 ∨ complete r.1.events = true) ∧
    r.1.buffer = s.buffer ∧ r.1.pos = s.pos ∧ r.1.closed = s.closed := by
  intro evs
  induction evs with
  | nil =>
    intro fuel s chunks avail size he hf hb hc ha
    cases fuel with
    | zero => omega
    | succ n =>
      have hr : s.remaining = 0 := by rcases hc with h | h; exact h; simp [complete] at h
      simp [readLoop, hr, hb, future, he, ha]
  | cons e rest ih =>
    intro fuel s chunks avail size he hf hb hc ha
    cases fuel with
    | zero => simp at hf
    | succ n =>
      by_cases hgo : (decide (s.remaining > 0) && decide (avail < size)) = true
      · have hpos : s.remaining > 0 := by simp at hgo; exact hgo.1
        have hr : s.remaining ≠ 0 := by omega
        have hcomp : complete (e :: rest) = true := by rcases hc with h | h; exact absurd h hr; exact h
        simp only [readLoop, hgo, if_true, recv, he]
        cases e with
        | disconnect =>
          simp only [moreOf, Bool.not_false, if_true]
          have := ih n { s with events := rest, awaited := s.awaited + 1, remaining := 0 } chunks avail size rfl
            (by simp at hf; omega) hb (Or.inl rfl) ha
          simp only at this
          obtain ⟨t1, t2, t3, t4, t5, t6, t7, t8⟩ := this
          refine ⟨?_, t2, t3, t4, t5, t6, t7, t8⟩
          rw [t1]; simp [future]
        | request body more =>
          cases body with
          | none =>
            simp only
            by_cases hm : more = some true
            · subst hm
              simp only [moreOf, Bool.not_true, Bool.false_eq_true, if_false]
              have := ih n { s with events := rest, awaited := s.awaited + 1 } chunks avail size rfl
                (by simp at hf; omega) hb (Or.inr (by simpa [complete] using hcomp)) ha
              simp only at this
              obtain ⟨t1, t2, t3, t4, t5, t6, t7, t8⟩ := this
              refine ⟨?_, t2, t3, t4, t5, t6, t7, t8⟩
              rw [t1]; simp [future]
            · have hmo : moreOf (.request none more) = false := by
                cases more with
                | none => rfl
                | some b => cases b <;> simp_all [moreOf]
              simp only [hmo, Bool.not_false, if_true]
              have := ih n { s with events := rest, awaited := s.awaited + 1, remaining := 0 } chunks avail size rfl
                (by simp at hf; omega) hb (Or.inl rfl) ha
              simp only at this
              obtain ⟨t1, t2, t3, t4, t5, t6, t7, t8⟩ := this
              refine ⟨?_, t2, t3, t4, t5, t6, t7, t8⟩
              have hne : (more == some true) = false := by simpa using hm
              rw [t1]; simp [future, hne]
          | some c =>
            simp only
            by_cases hfit : c.length ≤ s.remaining
            · simp only [hfit, if_true]
              by_cases hm : more = some true
              · subst hm
                simp only [moreOf, Bool.not_true, Bool.false_eq_true, if_false]
                have := ih n { s with events := rest, awaited := s.awaited + 1, remaining := s.remaining - c.length }
                  (chunks ++ [c]) (avail + c.length) size rfl (by simp at hf; omega) hb
                  (Or.inr (by simpa [complete] using hcomp)) (by simp [ha])
                simp only at this
                obtain ⟨t1, t2, t3, t4, t5, t6, t7, t8⟩ := this
                refine ⟨?_, t2, t3, t4, t5, t6, t7, t8⟩
                rw [t1]; simp [future, take_append_len c _ _ hfit]
              · have hmo : moreOf (.request (some c) more) = false := by
                  cases more with
                  | none => rfl
                  | some b => cases b <;> simp_all [moreOf]
                simp only [hmo, Bool.not_false, if_true]
                have := ih n { s with events := rest, awaited := s.awaited + 1, remaining := 0 }
                  (chunks ++ [c]) (avail + c.length) size rfl (by simp at hf; omega) hb (Or.inl rfl) (by simp [ha])
                simp only at this
                obtain ⟨t1, t2, t3, t4, t5, t6, t7, t8⟩ := this
                refine ⟨?_, t2, t3, t4, t5, t6, t7, t8⟩
                have hne : (more == some true) = false := by simpa using hm
                rw [t1]; simp [future, hne, List.take_of_length_le hfit]
            · simp only [hfit, if_false]
              have := ih n { s with events := rest, awaited := s.awaited + 1, remaining := 0 }
                (chunks ++ [c.take s.remaining]) (avail + s.remaining) size rfl (by simp at hf; omega) hb (Or.inl rfl)
                (by simp [ha, List.length_take]; omega)
              simp only at this
              obtain ⟨t1, t2, t3, t4, t5, t6, t7, t8⟩ := this
              have key : (future (.request (some c) more :: rest)).take s.remaining = c.take s.remaining := by
                simp only [future, Option.getD_some]
                exact take_append_short c _ _ (by omega)
              cases hmo : moreOf (.request (some c) more)
              · simp only [Bool.not_false, if_true]
                refine ⟨?_, t2, t3, t4, t5, t6, t7, t8⟩
                rw [t1, key]; simp
              · simp only [Bool.not_true, Bool.false_eq_true, if_false]
                refine ⟨?_, t2, t3, t4, t5, t6, t7, t8⟩
                rw [t1, key]; simp
      · -- the loop does not run: either nothing more is declared or enough has been collected
        have hstop : s.remaining = 0 ∨ size ≤ avail := by
          simp at hgo
          by_cases h0 : s.remaining = 0
          · exact Or.inl h0
          · exact Or.inr (hgo (by omega))
        simp only [readLoop, hgo, Bool.false_eq_true, if_false]
        exact ⟨by rw [he], ha, hstop, hb, by rw [he]; exact hc, by first | rfl | trivial, by first | rfl | trivial, by first | rfl | trivial⟩

#print axioms readLoop_spec

/-- **sized `read(n)`, n > 0**: returns exactly the next `min n (what is declared)` bytes — never more than `n` (F05) —,
    leaves exactly the rest, and `tell()` advances by what was returned (F04) -/
theorem read_sized_refines (s : S) (n : Int) (hn : 0 < n) (hc : s.closed = false) (hb : s.blocked = false)
    (hcomp : s.remaining = 0 ∨ complete s.events = true) :
    (read s (some n)).1 = .data ((absS s).take n.toNat) ∧
    absS (read s (some n)).2 = (absS s).drop n.toNat ∧
    (read s (some n)).2.pos = s.pos + ((absS s).take n.toNat).length ∧
    (read s (some n)).2.blocked = false ∧
    ((read s (some n)).2.remaining = 0 ∨ complete (read s (some n)).2.events = true) := by
  unfold read
  rw [if_neg (by rw [hc]; exact Bool.false_ne_true)]
  by_cases he : eof s = true
  · simp only [he, if_true]
    have h1 : s.buffer = [] ∧ s.remaining = 0 := by simpa [eof] using he
    have : absS s = [] := by simp [absS, h1.1, h1.2]
    simp [this, hb, h1.2]
  · simp only [he, Bool.false_eq_true, if_false]
    have hn1 : (n == -1) = false := by simp; omega
    have hn2 : ¬ (n ≤ 0) := by omega
    simp only [hn1, Bool.false_eq_true, if_false, hn2]
    have hflat : (if !s.buffer.isEmpty then [s.buffer] else []).flatten = s.buffer := by
      cases hbuf : s.buffer with
      | nil => simp
      | cons a b => simp
    have spec := readLoop_spec s.events (s.events.length + 1) s
      (if !s.buffer.isEmpty then [s.buffer] else []) s.buffer.length n.toNat rfl (by omega) hb hcomp (by rw [hflat])
    simp only at spec
    rcases hl : readLoop (s.events.length + 1) s (if !s.buffer.isEmpty then [s.buffer] else []) s.buffer.length n.toNat
      with ⟨s1, chunks, avail⟩
    rw [hl] at spec
    simp only at spec
    obtain ⟨t1, t2, t3, t4, t5, t6, t7, t8⟩ := spec
    rw [hflat] at t1
    have hnb : ¬ (s1.blocked = true) := by rw [t4]; exact Bool.false_ne_true
    simp only [if_neg hnb]
    -- absS s = buf ++ X
    have habs : absS s = chunks.flatten ++ (future s1.events).take s1.remaining := by rw [t1]; rfl
    by_cases hav : avail ≤ n.toNat
    · simp only [hav, if_true]
      have hX : chunks.flatten.length = n.toNat ∨ (future s1.events).take s1.remaining = [] := by
        rcases t3 with h | h
        · right; rw [h]; simp
        · left; omega
      have htake : (absS s).take n.toNat = chunks.flatten := by
        rw [habs]
        rcases hX with h | h
        · rw [← h]; exact take_len_app _ _
        · rw [h, List.append_nil, List.take_of_length_le (by omega)]
      have hdrop : (absS s).drop n.toNat = (future s1.events).take s1.remaining := by
        rw [habs]
        rcases hX with h | h
        · rw [← h]; exact drop_len_app _ _
        · rw [h, List.append_nil, List.drop_of_length_le (by omega)]
      refine ⟨by rw [htake], ?_, by rw [htake, t7], t4, t5⟩
      rw [hdrop]; rfl
    · simp only [hav, if_false]
      have hlt : n.toNat < chunks.flatten.length := by omega
      have htake : (absS s).take n.toNat = chunks.flatten.take n.toNat := by
        rw [habs, take_append_short _ _ _ (by omega)]
      have hdrop : (absS s).drop n.toNat = chunks.flatten.drop n.toNat ++ (future s1.events).take s1.remaining := by
        rw [habs, List.drop_append_of_le_length (by omega)]
      refine ⟨by rw [htake], ?_, by rw [htake, t7], t4, t5⟩
      rw [hdrop]; rfl

#print axioms read_sized_refines

/-- `exhaust()`'s loop: discards exactly the future bytes within the declared length, counting each once -/
theorem exhaustLoop_spec : ∀ (evs : List Event) (fuel : Nat) (s : S),
    s.events = evs → evs.length < fuel → s.blocked = false → (s.remaining = 0 ∨ complete evs = true) →
    let r := exhaustLoop fuel s
    r.remaining = 0 ∧ r.pos = s.pos + ((future evs).take s.remaining).length ∧ r.blocked = false ∧
    r.buffer = s.buffer ∧ r.closed = s.closed := by
  intro evs
  induction evs with
  | nil =>
    intro fuel s he hf hb hc
    cases fuel with
    | zero => omega
    | succ n =>
      have hr : s.remaining = 0 := by rcases hc with h | h; exact h; simp [complete] at h
      simp [exhaustLoop, hr, hb, future]
  | cons e rest ih =>
    intro fuel s he hf hb hc
    cases fuel with
    | zero => simp at hf
    | succ n =>
      by_cases hr : s.remaining = 0
      · simp [exhaustLoop, hr, hb]
      · have hpos : s.remaining > 0 := by omega
        have hcomp : complete (e :: rest) = true := by rcases hc with h | h; exact absurd h hr; exact h
        simp only [exhaustLoop, hpos, if_true, recv, he]
        cases e with
        | disconnect =>
          have := ih n { s with events := rest, awaited := s.awaited + 1, remaining := 0 } rfl
            (by simp at hf; omega) hb (Or.inl rfl)
          simp only at this
          obtain ⟨t1, t2, t3, t4, t5⟩ := this
          refine ⟨t1, ?_, t3, t4, t5⟩
          rw [t2]; simp [future]
        | request body more =>
          simp only
          have hkey : ((body.getD [] ++ (if more == some true then future rest else [])).take s.remaining).length
              = min (body.getD []).length s.remaining
                + ((if more == some true then future rest else []).take (s.remaining - min (body.getD []).length s.remaining)).length := by
            by_cases hfit : (body.getD []).length ≤ s.remaining
            · rw [take_append_len _ _ _ hfit, Nat.min_eq_left hfit, List.length_append]
            · have hle : s.remaining ≤ (body.getD []).length := by omega
              rw [take_append_short _ _ _ hle, Nat.min_eq_right hle]
              simp [List.length_take]; omega
          generalize hk : min (body.getD []).length s.remaining = k at hkey ⊢
          by_cases hm : more = some true
          · subst hm
            simp only [beq_self_eq_true, Bool.not_true, Bool.false_eq_true, if_false]
            have := ih n { s with events := rest, awaited := s.awaited + 1, remaining := s.remaining - k, pos := s.pos + k } rfl
              (by simp at hf; omega) hb (Or.inr (by simpa [complete] using hcomp))
            simp only at this
            obtain ⟨t1, t2, t3, t4, t5⟩ := this
            refine ⟨t1, ?_, t3, t4, t5⟩
            rw [t2]
            simp only [future, beq_self_eq_true, if_true] at hkey ⊢
            rw [hkey]; omega
          · have hne : (more == some true) = false := by simpa using hm
            simp only [hne, Bool.not_false, if_true]
            have := ih n { s with events := rest, awaited := s.awaited + 1, remaining := 0, pos := s.pos + k } rfl
              (by simp at hf; omega) hb (Or.inl rfl)
            simp only at this
            obtain ⟨t1, t2, t3, t4, t5⟩ := this
            refine ⟨t1, ?_, t3, t4, t5⟩
            rw [t2]
            simp only [future, hne, Bool.false_eq_true, if_false] at hkey ⊢
            rw [hkey]; simp

/-- **`exhaust()`**: leaves nothing to read and advances `tell()` by exactly what was still declared (F04: the buffered
    first chunk is counted here, and an oversized chunk only up to the declared length) -/
theorem exhaust_refines (s : S) (hc : s.closed = false) (hb : s.blocked = false)
    (hcomp : s.remaining = 0 ∨ complete s.events = true) :
    (exhaust s).1 = .unit ∧ absS (exhaust s).2 = [] ∧ (exhaust s).2.pos = s.pos + (absS s).length ∧
    (exhaust s).2.blocked = false := by
  unfold exhaust
  rw [if_neg (by rw [hc]; exact Bool.false_ne_true)]
  have spec := exhaustLoop_spec s.events (s.events.length + 1) { s with buffer := [], pos := s.pos + s.buffer.length }
    rfl (by omega) hb hcomp
  simp only at spec
  obtain ⟨t1, t2, t3, t4, t5⟩ := spec
  generalize exhaustLoop (s.events.length + 1) { s with buffer := [], pos := s.pos + s.buffer.length } = s1 at t1 t2 t3 t4 t5
  simp only
  have hnb : ¬ (s1.blocked = true) := by rw [t3]; exact Bool.false_ne_true
  rw [if_neg hnb]
  refine ⟨rfl, ?_, ?_, t3⟩
  · simp [absS, t4]
  · simp only [t2, absS, List.length_append]; omega

#print axioms exhaust_refines

/-- what the iteration has handed out (`X`) and what the stream will still hand out make up what was declared -/
structure IterPost (s : S) (acc : Bytes) (r : S × Bytes) : Prop where
  split : ∃ X, r.2 = acc ++ X ∧ X ++ (future r.1.events).take r.1.remaining = (future s.events).take s.remaining ∧
    r.1.pos = s.pos + X.length
  blocked : r.1.blocked = false
  cont : r.1.remaining = 0 ∨ complete r.1.events = true      -- the next operation cannot block (F19)
  buffer : r.1.buffer = s.buffer
  closed : r.1.closed = s.closed

theorem IterPost.step {s s1 : S} {acc c : Bytes} {r : S × Bytes}
    (h : IterPost s1 (acc ++ c) r)
    (hfut : c ++ (future s1.events).take s1.remaining = (future s.events).take s.remaining)
    (hpos : s1.pos = s.pos + c.length) (hbuf : s1.buffer = s.buffer) (hcl : s1.closed = s.closed) :
    IterPost s acc r := by
  obtain ⟨X, x1, x2, x3⟩ := h.split
  refine ⟨⟨c ++ X, by rw [x1, List.append_assoc], ?_, ?_⟩, h.blocked, h.cont, by rw [h.buffer, hbuf], by rw [h.closed, hcl]⟩
  · rw [List.append_assoc, x2, hfut]
  · rw [x3, hpos, List.length_append]; omega

theorem IterPost.skip {s s1 : S} {acc : Bytes} {r : S × Bytes} (h : IterPost s1 acc r)
    (hfut : (future s1.events).take s1.remaining = (future s.events).take s.remaining)
    (hpos : s1.pos = s.pos) (hbuf : s1.buffer = s.buffer) (hcl : s1.closed = s.closed) : IterPost s acc r := by
  obtain ⟨X, x1, x2, x3⟩ := h.split
  exact ⟨⟨X, x1, by rw [x2, hfut], by rw [x3, hpos]⟩, h.blocked, h.cont, by rw [h.buffer, hbuf], by rw [h.closed, hcl]⟩

/-- the body of `async for chunk in stream`, abandoned after at most `k` chunks -/
theorem iterLoop_spec : ∀ (evs : List Event) (fuel : Nat) (s : S) (k : Nat) (acc : Bytes),
    s.events = evs → evs.length < fuel → s.blocked = false → (s.remaining = 0 ∨ complete evs = true) →
    IterPost s acc (iterLoop fuel s k acc) := by
  intro evs
  induction evs with
  | nil =>
    intro fuel s k acc he hf hb hc
    cases fuel with
    | zero => omega
    | succ n =>
      have hr : s.remaining = 0 := by rcases hc with h | h; exact h; simp [complete] at h
      unfold iterLoop
      by_cases hk : (k == 0) = true
      · simp only [hk, if_true]
        exact ⟨⟨[], by simp, by simp, by simp⟩, hb, Or.inl hr, rfl, rfl⟩
      · simp only [hk, Bool.false_eq_true, if_false, hr, Nat.lt_irrefl, gt_iff_lt]
        exact ⟨⟨[], by simp, by simp [hr], by simp⟩, hb, Or.inl (by first | rfl | exact hr), rfl, rfl⟩
  | cons e rest ih =>
    intro fuel s k acc he hf hb hc
    cases fuel with
    | zero => simp at hf
    | succ n =>
      unfold iterLoop
      by_cases hk : (k == 0) = true
      · simp only [hk, if_true]
        exact ⟨⟨[], by simp, by simp, by simp⟩, hb, by rw [he]; exact hc, rfl, rfl⟩
      · simp only [hk, Bool.false_eq_true, if_false]
        by_cases hr : s.remaining = 0
        · simp only [hr, Nat.lt_irrefl, gt_iff_lt, if_false]
          exact ⟨⟨[], by simp, by simp [hr], by simp⟩, hb, Or.inl (by first | rfl | exact hr), rfl, rfl⟩
        · have hpos : s.remaining > 0 := by omega
          have hcomp : complete (e :: rest) = true := by rcases hc with h | h; exact absurd h hr; exact h
          simp only [hpos, if_true, recv, he]
          have hlen : rest.length < n := by simp at hf; omega
          -- the three ways an event can leave the budget
          have hnomore : ∀ (body : Option Bytes) (more : Option Bool), more ≠ some true →
              moreOf (.request body more) = false := by
            intro body more hm
            cases more with
            | none => rfl
            | some b => cases b <;> simp_all [moreOf]
          cases e with
          | disconnect =>
            simp only [moreOf, Bool.not_false, if_true]
            have h1 := ih n { s with events := rest, awaited := s.awaited + 1, remaining := 0 } k acc rfl hlen hb (Or.inl rfl)
            refine IterPost.skip h1 ?_ rfl rfl rfl
            simp [he, future]
          | request body more =>
            cases body with
            | none =>
              simp only
              by_cases hm : more = some true
              · subst hm
                simp only [moreOf, Bool.not_true, Bool.false_eq_true, if_false]
                have h1 := ih n { s with events := rest, awaited := s.awaited + 1 } k acc rfl hlen hb
                  (Or.inr (by simpa [complete] using hcomp))
                refine IterPost.skip h1 ?_ rfl rfl rfl
                simp [he, future]
              · simp only [hnomore none more hm, Bool.not_false, if_true]
                have h1 := ih n { s with events := rest, awaited := s.awaited + 1, remaining := 0 } k acc rfl hlen hb (Or.inl rfl)
                refine IterPost.skip h1 ?_ rfl rfl rfl
                have hne : (more == some true) = false := by simpa using hm
                simp [he, future, hne]
            | some c =>
              simp only
              by_cases hce : c.isEmpty = true
              · have hcn : c = [] := by simpa using hce
                subst hcn
                simp only [List.isEmpty_nil, Bool.not_true, Bool.false_eq_true, if_false]
                by_cases hm : more = some true
                · subst hm
                  simp only [moreOf, Bool.not_true, Bool.false_eq_true, if_false]
                  have h1 := ih n { s with events := rest, awaited := s.awaited + 1 } k acc rfl hlen hb
                    (Or.inr (by simpa [complete] using hcomp))
                  refine IterPost.skip h1 ?_ rfl rfl rfl
                  simp [he, future]
                · simp only [hnomore (some []) more hm, Bool.not_false, if_true]
                  have h1 := ih n { s with events := rest, awaited := s.awaited + 1, remaining := 0 } k acc rfl hlen hb (Or.inl rfl)
                  refine IterPost.skip h1 ?_ rfl rfl rfl
                  have hne : (more == some true) = false := by simpa using hm
                  simp [he, future, hne]
              · have hce' : (!c.isEmpty) = true := by simpa using hce
                simp only [hce', if_true]
                by_cases hfit : c.length ≤ s.remaining
                · simp only [hfit, if_true]
                  by_cases hm : more = some true
                  · subst hm
                    simp only [moreOf, Bool.not_true, Bool.false_eq_true, if_false]
                    have hfut : c ++ (future rest).take (s.remaining - c.length) = (future s.events).take s.remaining := by
                      rw [he]; simp [future, take_append_len c _ _ hfit]
                    by_cases hk1 : (k == 1) = true
                    · simp only [hk1, if_true]
                      exact ⟨⟨c, rfl, hfut, rfl⟩, hb, Or.inr (by simpa [complete] using hcomp), rfl, rfl⟩
                    · simp only [hk1, Bool.false_eq_true, if_false]
                      have h1 := ih n { s with events := rest, awaited := s.awaited + 1, remaining := s.remaining - c.length, pos := s.pos + c.length } (k - 1) (acc ++ c) rfl hlen hb (Or.inr (by simpa [complete] using hcomp))
                      exact IterPost.step h1 hfut rfl rfl rfl
                  · simp only [hnomore (some c) more hm, Bool.not_false, if_true]
                    have hne : (more == some true) = false := by simpa using hm
                    have hfut : c ++ (future rest).take 0 = (future s.events).take s.remaining := by
                      rw [he]; simp [future, hne, List.take_of_length_le hfit]
                    by_cases hk1 : (k == 1) = true
                    · simp only [hk1, if_true]
                      exact ⟨⟨c, rfl, hfut, rfl⟩, hb, Or.inl rfl, rfl, rfl⟩
                    · simp only [hk1, Bool.false_eq_true, if_false]
                      have h1 := ih n { s with events := rest, awaited := s.awaited + 1, remaining := 0, pos := s.pos + c.length } (k - 1) (acc ++ c) rfl hlen hb (Or.inl rfl)
                      exact IterPost.step h1 hfut rfl rfl rfl
                · simp only [hfit, if_false]
                  have hle : s.remaining ≤ c.length := by omega
                  have hfut : c.take s.remaining ++ (future rest).take 0 = (future s.events).take s.remaining := by
                    rw [he]; simp only [future, Option.getD_some, List.take_zero, List.append_nil]
                    exact (take_append_short c _ _ hle).symm
                  have hl : (c.take s.remaining).length = s.remaining := by rw [List.length_take]; omega
                  cases hmo : moreOf (.request (some c) more) <;>
                    simp only [Bool.not_false, Bool.not_true, if_true, Bool.false_eq_true, if_false] <;>
                    (by_cases hk1 : (k == 1) = true
                     · simp only [hk1, if_true]
                       exact ⟨⟨c.take s.remaining, rfl, hfut, by simp only; rw [hl]⟩, hb, Or.inl rfl, rfl, rfl⟩
                     · simp only [hk1, Bool.false_eq_true, if_false]
                       have h1 := ih n { s with events := rest, awaited := s.awaited + 1, pos := s.pos + s.remaining, remaining := 0 } (k - 1) (acc ++ c.take s.remaining) rfl hlen hb (Or.inl rfl)
                       exact IterPost.step h1 hfut (by simp only; rw [hl]) rfl rfl)

#print axioms iterLoop_spec

/-- **`async for chunk in stream`, abandoned after at most `k` chunks**: what was handed out is the next part of the
    declared body, `tell()` advanced by exactly that, and — the F19 repair — whatever chunk the consumer stopped at, the
    stream is left in a state from which no later operation can block on `receive()` -/
theorem iterate_refines (s : S) (k : Nat) (hc : s.closed = false) (hi : s.iterStarted = false) (hb : s.blocked = false)
    (hcomp : s.remaining = 0 ∨ complete s.events = true) :
    ∃ acc, (iterate s k).1 = .data acc ∧ acc ++ absS (iterate s k).2 = absS s ∧
      (iterate s k).2.pos = s.pos + acc.length ∧ (iterate s k).2.blocked = false ∧
      ((iterate s k).2.remaining = 0 ∨ complete (iterate s k).2.events = true) := by
  unfold iterate
  rw [if_neg (by rw [hc]; exact Bool.false_ne_true), if_neg (by rw [hi]; exact Bool.false_ne_true)]
  by_cases he : eof s = true
  · simp only [he, if_true]
    exact ⟨[], rfl, by simp, by simp, hb, hcomp⟩
  · simp only [he, Bool.false_eq_true, if_false]
    by_cases hbuf : s.buffer.isEmpty = true
    · have hbn : s.buffer = [] := by simpa using hbuf
      simp only [hbuf, Bool.not_true, Bool.false_eq_true, if_false]
      have spec := iterLoop_spec s.events (s.events.length + 1) { s with iterStarted := true } k [] rfl (by omega) hb hcomp
      rcases hl : iterLoop (s.events.length + 1) { s with iterStarted := true } k [] with ⟨s1, acc⟩
      rw [hl] at spec
      obtain ⟨X, x1, x2, x3⟩ := spec.split
      have hnb : ¬ (s1.blocked = true) := by rw [spec.blocked]; exact Bool.false_ne_true
      simp only [if_neg hnb]
      simp only at x1 x2 x3
      refine ⟨acc, rfl, ?_, by rw [x3, x1]; simp, spec.blocked, spec.cont⟩
      have hb1 : s1.buffer = [] := by rw [spec.buffer]; exact hbn
      simp only [absS, hb1, hbn, List.nil_append]
      rw [x1, List.nil_append]; exact x2
    · have hne : (!s.buffer.isEmpty) = true := by simpa using hbuf
      simp only [hne, if_true]
      by_cases hk : k ≤ 1
      · simp only [hk, if_true]
        exact ⟨s.buffer, rfl, by simp [absS], rfl, hb, hcomp⟩
      · simp only [hk, if_false]
        have spec := iterLoop_spec s.events (s.events.length + 1)
          { s with iterStarted := true, buffer := [], pos := s.pos + s.buffer.length } (k - 1) s.buffer rfl (by omega) hb hcomp
        rcases hl : iterLoop (s.events.length + 1)
          { s with iterStarted := true, buffer := [], pos := s.pos + s.buffer.length } (k - 1) s.buffer with ⟨s1, acc⟩
        rw [hl] at spec
        obtain ⟨X, x1, x2, x3⟩ := spec.split
        have hnb : ¬ (s1.blocked = true) := by rw [spec.blocked]; exact Bool.false_ne_true
        simp only [if_neg hnb]
        simp only at x1 x2 x3
        refine ⟨acc, rfl, ?_, by rw [x3, x1, List.length_append]; omega, spec.blocked, spec.cont⟩
        have hb1 : s1.buffer = [] := spec.buffer
        simp only [absS, hb1, List.nil_append]
        rw [x1, List.append_assoc, x2]

#print axioms iterate_refines

end AsF

/-! ### the same statements refuted on the pinned model, and satisfiable on the repaired one -/
section Witness
open As in
/-- F05 on the pinned model: Content-Length 10, one 20-byte chunk, `read(3)` returns 10 bytes -/
theorem f05_witness :
    (match (As.read (As.init none (some 10) [.request (some (List.replicate 20 120)) none]) (some 3)).1 with
     | .data d => d.length | _ => 0) = 10 := by decide
open As in
/-- F04 on the pinned model: the first event's body is counted before anything was read -/
theorem f04_witness : (As.init (some (.request (some [104, 101, 108, 108, 111]) (some true))) none []).pos = 5 := by decide
/-- on the repaired model the F05 input yields 3 bytes, and the hypotheses of `read_sized_refines` hold for it -/
example :
    let s := AsF.init none (some 10) [.request (some (List.replicate 20 120)) none]
    s.closed = false ∧ s.blocked = false ∧ (s.remaining = 0 ∨ AsF.complete s.events = true) ∧
    (match (AsF.read s (some 3)).1 with | .data d => d.length | _ => 0) = 3 ∧ (AsF.read s (some 3)).2.pos = 3 := by decide
open As in
/-- F19 on the pinned model: the consumer stops iterating on the chunk of the final event; the next `read()` awaits
    `receive()` although the body is complete (outcome `blocked`) — on the repaired model it returns `b''` at once -/
theorem f19_witness :
    (match (As.read (As.iterate (As.init none none [.request (some [97]) (some true), .request (some [98]) none]) 2).2 none).1 with
     | .blocked => true | _ => false) = true ∧
    (match (AsF.read (AsF.iterate (AsF.init none none [.request (some [97]) (some true), .request (some [98]) none]) 2).2 none).1 with
     | .data [] => true | _ => false) = true := by decide
end Witness

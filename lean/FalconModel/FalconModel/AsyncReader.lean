import FalconModel.Reader
/-! Prototype: model of falcon/asgi/reader.py BufferedReader. Async generators are explicit resumable
    step functions; state is committed before each `yield`, as in the code, so abandonment by `break` is modelled. -/
namespace ARd
open Rd (Bytes slice sliceFrom sliceTo find)

inductive NormPc where
  | running | yielded1 (item : Bytes) | yielded2 | finished
deriving Repr

structure AR where
  buf : Bytes := []
  len : Int := 0
  pos : Int := 0
  chunk : Int
  consumed : Int := 0
  exhausted : Bool := false
  pending : Bytes := []      -- local `chunk` of _iter_normalized
  src : List Bytes           -- remaining items of the underlying async iterator
  npc : NormPc := .running
deriving Repr

/-- one `__anext__` on self._source (= _iter_normalized) -/
def normLoop : Nat → AR → Option Bytes × AR
  | 0, r => (none, r)
  | fuel + 1, r =>
    match r.src with
    | [] =>
      if !r.pending.isEmpty then
        (some r.pending, { r with consumed := r.consumed + r.pending.length, npc := .yielded2 })
      else (none, { r with exhausted := true, npc := .finished })
    | item :: rest =>
      let r := { r with src := rest }
      if (r.pending.length : Int) ≥ r.chunk then
        (some r.pending, { r with consumed := r.consumed + r.pending.length, npc := .yielded1 item })
      else normLoop fuel { r with pending := r.pending ++ item }

def nextNorm (r : AR) : Option Bytes × AR :=
  match r.npc with
  | .finished => (none, r)
  | .yielded2 => (none, { r with exhausted := true, npc := .finished })
  | .yielded1 item => normLoop (r.src.length + 1) { r with pending := item, npc := .running }
  | .running => normLoop (r.src.length + 1) r

def trimBuffer (r : AR) : AR := { r with buf := sliceFrom r.buf r.pos, len := r.len - r.pos, pos := 0 }

def prependBuffer (r : AR) (c : Bytes) : AR :=
  if r.len > r.pos then
    let b := c ++ sliceFrom r.buf r.pos
    { r with buf := b, len := b.length, pos := 0 }
  else { r with buf := c, len := c.length, pos := 0 }

inductive Res where
  | ok (b : Bytes) | delimErr | valueErr
deriving Repr

/-- wrapper generator program counters -/
inductive Pc where
  | wStart (hint : Int) | wAfterHint | wSource
  | dStart (delim : Bytes) (hint : Int) | dFoundAfterHint (delim : Bytes) (p : Int) | dPreLoop (delim : Bytes)
  | dLoop (delim : Bytes) | dAfterOutput (delim : Bytes)
  | done
deriving Repr

inductive Y where
  | yield (b : Bytes) | stop | raiseValue
deriving Repr

/-- after a chunk has been merged into the buffer inside the loop: look for the delimiter in the buffer -/
def dCheckBuffer (delim : Bytes) (r : AR) : Option (Y × Pc × AR) :=
  let p := find r.buf delim 0
  if p ≥ 0 then
    if p > 0 then some (.yield (sliceTo r.buf p), .done, { r with pos := p })
    else some (.stop, .done, r)
  else none

/-- resume a wrapper generator until its next yield / stop -/
def step : Nat → Pc → AR → Y × Pc × AR
  | 0, _, r => (.stop, .done, r)
  | fuel + 1, pc, r =>
    match pc with
    | .done => (.stop, .done, r)
    | .wStart hint =>
      if r.len > r.pos then
        if 0 < hint && hint < r.len - r.pos then
          (.yield (slice r.buf r.pos (r.pos + hint)), .wAfterHint, { r with pos := r.pos + hint })
        else (.yield (slice r.buf r.pos r.len), .wSource, { r with pos := r.len })
      else step fuel .wSource r
    | .wAfterHint => (.yield (slice r.buf r.pos r.len), .wSource, { r with pos := r.len })
    | .wSource =>
      match nextNorm r with
      | (some c, r) => (.yield c, .wSource, r)
      | (none, r) => (.stop, .done, r)
    | .dStart delim hint =>
      let dl1 : Int := delim.length - 1
      if !(0 ≤ dl1 && dl1 < r.chunk) then (.raiseValue, .done, r) else
      if r.len > r.pos then
        let p := find r.buf delim r.pos
        if p == 0 then (.stop, .done, r)
        else if p > 0 then
          if 0 < hint && hint < p - r.pos then
            (.yield (slice r.buf r.pos (r.pos + hint)), .dFoundAfterHint delim p, { r with pos := r.pos + hint })
          else (.yield (slice r.buf r.pos p), .done, { r with pos := p })
        else if 0 < hint && hint < r.len - r.pos - dl1 then
          (.yield (slice r.buf r.pos (r.pos + hint)), .dPreLoop delim, { r with pos := r.pos + hint })
        else step fuel (.dPreLoop delim) r
      else step fuel (.dPreLoop delim) r
    | .dFoundAfterHint _ p => (.yield (slice r.buf r.pos p), .done, { r with pos := p })
    | .dPreLoop delim =>
      let r := if r.pos > 0 then trimBuffer r else r
      step fuel (.dLoop delim) r
    | .dAfterOutput delim =>
      match dCheckBuffer delim r with
      | some out => out
      | none => step fuel (.dLoop delim) r
    | .dLoop delim =>
      let dl1 : Int := delim.length - 1
      match nextNorm r with
      -- F15 repair: the final `yield` consumes what it hands out (the pinned code has `(.yield r.buf, .done, r)`)
      | (none, r) => (.yield r.buf, .done, { r with buf := [], len := 0, pos := 0 })
      | (some c, r) =>
        let offset := r.len - dl1
        if offset > 0 then
          let fragment := sliceFrom r.buf offset ++ sliceTo c dl1
          let p := find fragment delim 0
          if p < 0 then
            let output := r.buf
            (.yield output, .dAfterOutput delim, { r with buf := c, len := c.length })
          else
            let b := r.buf ++ c
            (.yield (sliceTo b (offset + p)), .done, { r with buf := b, len := r.len + c.length, pos := offset + p })
        else
          let r := if !r.buf.isEmpty then { r with buf := r.buf ++ c, len := r.len + c.length }
                   else { r with buf := c, len := c.length }
          match dCheckBuffer delim r with
          | some out => out
          | none => step fuel (.dLoop delim) r

def fuelOf (r : AR) : Nat := 2 * r.src.length + 8

/-- _read_from(source, size) -/
def readAll : Nat → Pc → AR → Bytes → Res × AR
  | 0, _, r, acc => (.ok acc, r)
  | fuel + 1, pc, r, acc =>
    match step (fuelOf r) pc r with
    | (.yield c, pc, r) => readAll fuel pc r (acc ++ c)
    | (.stop, _, r) => (.ok acc, r)
    | (.raiseValue, _, r) => (.valueErr, r)

def readN : Nat → Pc → AR → Int → Bytes → Res × AR
  | 0, _, r, _, acc => (.ok acc, r)
  | fuel + 1, pc, r, remaining, acc =>
    match step (fuelOf r) pc r with
    | (.yield c, pc, r) =>
      let cl : Int := c.length
      if remaining < cl then (.ok (acc ++ sliceTo c remaining), prependBuffer r (sliceFrom c remaining))
      else
        let remaining := remaining - cl
        if remaining == 0 then (.ok (acc ++ c), r) else readN fuel pc r remaining (acc ++ c)
    | (.stop, _, r) => (.ok acc, r)
    | (.raiseValue, _, r) => (.valueErr, r)

def readFrom (pc : Pc) (r : AR) (size : Option Int) : Res × AR :=
  let big := 4 * (r.src.length + 4)
  match size with
  | none => readAll big pc r []
  | some s =>
    if s == -1 then readAll big pc r []
    else if s ≤ 0 then (.ok [], r)
    else readN big pc r s []

def hintOf (size : Option Int) : Int := match size with | none => 0 | some s => s

def peekLoop : Nat → AR → Int → AR
  | 0, r, _ => r
  | fuel + 1, r, size =>
    match nextNorm r with
    | (none, r) => r
    | (some c, r) =>
      let b := r.buf ++ c
      let r := { r with buf := b, len := b.length }
      if r.len ≥ size then r else peekLoop fuel r size

def peek (r : AR) (size : Int) : Bytes × AR :=
  let size := if size < 0 || size > r.chunk then r.chunk else size
  let r := if r.pos > 0 then trimBuffer r else r
  let r := if r.len < size then peekLoop (r.src.length + 2) r size else r
  (sliceTo r.buf size, r)

def consumeDelimiter (r : AR) (delim : Bytes) : Option AR :=
  let (p, r) := peek r delim.length
  if p != delim then none else some { r with pos := r.pos + delim.length }

def read (r : AR) (size : Option Int) : Res × AR := readFrom (.wStart (hintOf size)) r size
def readall (r : AR) : Res × AR := readFrom (.wStart 0) r none

def readUntil (r : AR) (delim : Bytes) (size : Option Int) (consume : Bool) : Res × AR × Bool :=
  match readFrom (.dStart delim (hintOf size)) r size with
  | (.ok b, r) =>
    if consume then
      match consumeDelimiter r delim with
      | some r => (.ok b, r, true)
      | none =>
        let (_, r) := peek r delim.length   -- state after the failed peek
        (.delimErr, r, true)
    else (.ok b, r, true)
  | (e, r) => (e, r, false)

def pipe (r : AR) : Res × AR := readAll (4 * (r.src.length + 4)) (.wStart 0) r []

def pipeUntil (r : AR) (delim : Bytes) (consume : Bool) : Res × AR :=
  match readAll (4 * (r.src.length + 4)) (.dStart delim 0) r [] with
  | (.ok b, r) =>
    if consume then
      match consumeDelimiter r delim with
      | some r => (.ok b, r)
      | none => let (_, r) := peek r delim.length; (.delimErr, r)
    else (.ok b, r)
  | e => e

def tell (r : AR) : Int := r.consumed - (r.len - r.pos)
def eof (r : AR) : Bool := r.exhausted && r.len == r.pos
end ARd

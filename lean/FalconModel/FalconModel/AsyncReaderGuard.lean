/-! Model of the `_iteration_started` guard of the async `BufferedReader` (falcon/asgi/reader.py `__aiter__`):

        def __aiter__(self):
            if self._iteration_started:
                raise OperationNotAllowed('This stream is already being iterated over.')
            self._iteration_started = True
            ...hand out the iterator...

    The guard sits in front of the iterator hand-out and touches nothing else, so it is modelled once, generically in the
    reader state `ρ`, the operation type `Op` and the guarded machine `step` (the root model `ARd.iterStep`, the nested
    model `An.nStep`, or the string-level steps of `ardriver` - the driver runs literally `gStep`).  Every reader object
    has its own flag: `delimit()` constructs a new reader (flag clear) and `_iter_delimited` never goes through the
    parent's `__aiter__`, so a child's iteration does not set its parent's flag (the driver keeps one flag per level). -/
namespace ARg
variable {ρ ο Op : Type}

/-- a reader together with its `_iteration_started` flag -/
structure G (ρ : Type) where
  r : ρ
  started : Bool

inductive GObs (ο : Type) where
  | inner (o : ο)
  | notAllowed          -- OperationNotAllowed

/-- one public operation of the guarded reader: an iteration is refused, without touching the reader, once one was started;
    the first one sets the flag before the iterator is handed out; every other operation ignores the flag -/
def gStep (isIter : Op → Bool) (step : ρ → Op → ο × ρ) (g : G ρ) (op : Op) : GObs ο × G ρ :=
  if isIter op then
    if g.started then (.notAllowed, g)
    else (.inner (step g.r op).1, { r := (step g.r op).2, started := true })
  else (.inner (step g.r op).1, { r := (step g.r op).2, started := g.started })

def gRun (isIter : Op → Bool) (step : ρ → Op → ο × ρ) : G ρ → List Op → List (GObs ο) × G ρ
  | g, [] => ([], g)
  | g, op :: rest =>
    ((gStep isIter step g op).1 :: (gRun isIter step (gStep isIter step g op).2 rest).1,
     (gRun isIter step (gStep isIter step g op).2 rest).2)

/-- the unguarded machine -/
def run (step : ρ → Op → ο × ρ) : ρ → List Op → List ο × ρ
  | r, [] => ([], r)
  | r, op :: rest => ((step r op).1 :: (run step (step r op).2 rest).1, (run step (step r op).2 rest).2)

/-- the operations that reach the reader: an iteration is admitted only while none was started -/
def admitted (isIter : Op → Bool) : Bool → List Op → List Op
  | _, [] => []
  | s, op :: rest =>
    if isIter op then (if s then admitted isIter true rest else op :: admitted isIter true rest)
    else op :: admitted isIter s rest

/-- the observations that came from the reader itself -/
def inner : List (GObs ο) → List ο
  | [] => []
  | .inner o :: rest => o :: inner rest
  | .notAllowed :: rest => inner rest

/-- which operations of a history are refused -/
def refused (isIter : Op → Bool) : Bool → List Op → List Bool
  | _, [] => []
  | s, op :: rest => (isIter op && s) :: refused isIter (s || isIter op) rest

def isNotAllowed : GObs ο → Bool
  | .notAllowed => true
  | .inner _ => false
end ARg

import FalconModel.AsyncReaderGuard
import FalconModel.AsyncReaderProofs
import FalconModel.AsyncReaderNestedProofs
/-! The `_iteration_started` guard (AsyncReaderGuard.lean) in front of the proved reader models: a guarded history is the
    unguarded history of the admitted operations - so every theorem about histories with iteration carries over -, at most
    one iteration of a reader object ever hands out chunks, and a refused iteration consumes nothing. -/
namespace ARg
variable {ρ ο Op : Type}

@[simp] theorem inner_cons_inner (o : ο) (rest : List (GObs ο)) : inner (.inner o :: rest) = o :: inner rest := rfl
@[simp] theorem inner_cons_na (rest : List (GObs ο)) : inner (.notAllowed :: rest) = inner rest := rfl
theorem run_cons (step : ρ → Op → ο × ρ) (r : ρ) (op : Op) (rest : List Op) :
    run step r (op :: rest) = ((step r op).1 :: (run step (step r op).2 rest).1, (run step (step r op).2 rest).2) := rfl
theorem gRun_cons (isIter : Op → Bool) (step : ρ → Op → ο × ρ) (g : G ρ) (op : Op) (rest : List Op) :
    gRun isIter step g (op :: rest) = ((gStep isIter step g op).1 :: (gRun isIter step (gStep isIter step g op).2 rest).1,
      (gRun isIter step (gStep isIter step g op).2 rest).2) := rfl

/-- a refused iteration leaves the reader (and the flag) exactly as they were -/
theorem refused_iter_unchanged (isIter : Op → Bool) (step : ρ → Op → ο × ρ) (g : G ρ) (op : Op)
    (hi : isIter op = true) (hs : g.started = true) : gStep isIter step g op = (.notAllowed, g) := by
  unfold gStep; rw [if_pos hi, if_pos hs]

/-- `OperationNotAllowed` is raised exactly for an iteration of a reader whose iteration was started before -/
theorem notAllowed_iff (isIter : Op → Bool) (step : ρ → Op → ο × ρ) (g : G ρ) (op : Op) :
    isNotAllowed (gStep isIter step g op).1 = (isIter op && g.started) := by
  rcases g with ⟨r, s⟩
  unfold gStep
  cases isIter op <;> cases s <;> simp [isNotAllowed]

/-- the flag after a step: set by an iteration, never cleared -/
theorem started_after (isIter : Op → Bool) (step : ρ → Op → ο × ρ) (g : G ρ) (op : Op) :
    (gStep isIter step g op).2.started = (g.started || isIter op) := by
  rcases g with ⟨r, s⟩
  unfold gStep
  cases isIter op <;> cases s <;> simp

/-- **a guarded history is the unguarded history of the admitted operations**: the observations that come from the reader
    and the final reader state are those of the unguarded machine run on the history with every refused iteration erased -/
theorem gRun_admitted (isIter : Op → Bool) (step : ρ → Op → ο × ρ) (ops : List Op) : ∀ (g : G ρ),
    inner (gRun isIter step g ops).1 = (run step g.r (admitted isIter g.started ops)).1 ∧
    (gRun isIter step g ops).2.r = (run step g.r (admitted isIter g.started ops)).2 := by
  induction ops with
  | nil => intro g; exact ⟨rfl, rfl⟩
  | cons op rest ih =>
    intro g
    rw [gRun_cons]
    cases hi : isIter op
    · have hst : gStep isIter step g op = (.inner (step g.r op).1, { r := (step g.r op).2, started := g.started }) := by
        unfold gStep; rw [hi]; rfl
      have had : admitted isIter g.started (op :: rest) = op :: admitted isIter g.started rest := by
        show (if isIter op then _ else _) = _; rw [hi]; rfl
      obtain ⟨i1, i2⟩ := ih { r := (step g.r op).2, started := g.started }
      rw [hst, had, run_cons]
      exact ⟨by rw [inner_cons_inner, i1], i2⟩
    · cases hs : g.started
      · have hst : gStep isIter step g op = (.inner (step g.r op).1, { r := (step g.r op).2, started := true }) := by
          unfold gStep; rw [hi, hs]; rfl
        have had : admitted isIter false (op :: rest) = op :: admitted isIter true rest := by
          show (if isIter op then _ else _) = _; rw [hi]; rfl
        obtain ⟨i1, i2⟩ := ih { r := (step g.r op).2, started := true }
        rw [hst, had, run_cons]
        exact ⟨by rw [inner_cons_inner, i1], i2⟩
      · have hst : gStep isIter step g op = (.notAllowed, g) := refused_iter_unchanged _ _ _ _ hi hs
        have had : admitted isIter true (op :: rest) = admitted isIter true rest := by
          show (if isIter op then _ else _) = _; rw [hi]; rfl
        obtain ⟨i1, i2⟩ := ih g
        rw [hs] at i1 i2
        rw [hst, had]
        exact ⟨by rw [inner_cons_na, i1], i2⟩

/-- which observations of a guarded history are `OperationNotAllowed`: exactly the iterations after the first -/
theorem gRun_refused (isIter : Op → Bool) (step : ρ → Op → ο × ρ) (ops : List Op) : ∀ (g : G ρ),
    (gRun isIter step g ops).1.map isNotAllowed = refused isIter g.started ops := by
  induction ops with
  | nil => intro g; rfl
  | cons op rest ih =>
    intro g
    simp only [gRun, List.map_cons, refused]
    rw [notAllowed_iff, ih, started_after]

/-- **at most one iteration of a reader object reaches the reader**: none once the flag is set, at most one otherwise -/
theorem admitted_iter_count (isIter : Op → Bool) (ops : List Op) : ∀ s : Bool,
    ((admitted isIter s ops).filter isIter).length ≤ (if s then 0 else 1) := by
  induction ops with
  | nil => intro s; cases s <;> simp [admitted]
  | cons op rest ih =>
    intro s
    cases hi : isIter op <;> cases s
    · have := ih false; simpa [admitted, hi, List.filter_cons] using this
    · have := ih true; simpa [admitted, hi, List.filter_cons] using this
    · have := ih true; simp [admitted, hi] at this ⊢; omega
    · have := ih true; simpa [admitted, hi, List.filter_cons] using this

/-- the admitted operations are operations of the history (so argument conditions carry over) -/
theorem mem_admitted (isIter : Op → Bool) (ops : List Op) : ∀ (s : Bool) (op : Op), op ∈ admitted isIter s ops → op ∈ ops := by
  induction ops with
  | nil => intro s op h; simp [admitted] at h
  | cons a rest ih =>
    intro s op h
    cases hi : isIter a <;> cases s <;> simp only [admitted, hi, if_true, if_false, Bool.false_eq_true, List.mem_cons] at h ⊢
    · rcases h with h | h; exact .inl h; exact .inr (ih _ _ h)
    · rcases h with h | h; exact .inl h; exact .inr (ih _ _ h)
    · rcases h with h | h; exact .inl h; exact .inr (ih _ _ h)
    · exact .inr (ih _ _ h)

/-! ### the root reader -/
open ARd in
def rootIsIter : IOp → Bool
  | .iter _ => true
  | .op _ => false

theorem run_iterStep (ops : List ARd.IOp) : ∀ r : ARd.AR, run ARd.iterStep r ops = ARd.iterRun r ops := by
  induction ops with
  | nil => intro r; rfl
  | cons op rest ih => intro r; simp only [run, ARd.iterRun, ih]

/-- **C14, async root reader with the iteration guard, from construction**: for every list of source chunks, chunk size > 0
    and every history (valid delimiters) that may ask for an iteration ANY number of times: the observations that are not
    `OperationNotAllowed` are accepted, one by one, by the flat cursor over the concatenated data as the history of the
    admitted operations; the cursor ends at what the reader still has to deliver; `tell()` is the cursor position; the
    refused operations are exactly the iterations after the first (`gRun_refused`) and they consume nothing -/
theorem guarded_async_reader_refines_flat_cursor (chunk : Int) (parts : List Rd.Bytes) (ops : List ARd.IOp) (hc : 0 < chunk)
    (hok : ∀ op ∈ ops, op.ok chunk) :
    let g := gRun rootIsIter ARd.iterStep { r := { chunk := chunk, src := parts }, started := false } ops
    ARd.AcceptsRun chunk parts.flatten (admitted rootIsIter false ops) (inner g.1) (ARd.abs g.2.r) ∧
    ARd.tell g.2.r = (parts.flatten.length : Int) - (ARd.abs g.2.r).length ∧
    g.1.map isNotAllowed = refused rootIsIter false ops := by
  intro g
  obtain ⟨e1, e2⟩ := gRun_admitted rootIsIter ARd.iterStep ops { r := { chunk := chunk, src := parts }, started := false }
  have hr := gRun_refused rootIsIter ARd.iterStep ops { r := { chunk := chunk, src := parts }, started := false }
  obtain ⟨h1, h2⟩ := ARd.async_reader_iter_refines_flat_cursor chunk parts (admitted rootIsIter false ops) hc
    (fun op h => hok op (mem_admitted _ _ _ _ h))
  simp only [run_iterStep] at e1 e2
  refine ⟨?_, ?_, hr⟩
  · show ARd.AcceptsRun chunk parts.flatten _ (inner (gRun _ _ _ ops).1) (ARd.abs (gRun _ _ _ ops).2.r)
    rw [e1, e2]; exact h1
  · show ARd.tell (gRun _ _ _ ops).2.r = _ - (ARd.abs (gRun _ _ _ ops).2.r).length
    rw [e2]; exact h2

/-- non-vacuity: chunk size 2, source `a` `` `bc` `d` `e`: iterate 1 chunk, iterate again (refused, nothing consumed), readall, iterate (refused) -/
example :
    (gRun rootIsIter ARd.iterStep { r := { chunk := 2, src := [[97], [], [98, 99], [100], [101]] }, started := false }
      [.iter 1, .iter 2, .op .readall, .iter 1]).1.map isNotAllowed = [false, true, false, true] := by rfl

/-! ### readers over any lawful chunk source (delimited children at any depth) -/
section nested
open An Ma
variable {σ : Type} [ASource σ] [LawfulASource σ]

def nIsIter : NOp → Bool
  | .iter _ => true
  | .op _ => false

omit [LawfulASource σ] in
theorem run_nStep (ops : List NOp) : ∀ r : Ma.AR σ, run An.nStep r ops = An.nRun r ops := by
  induction ops with
  | nil => intro r; rfl
  | cons op rest ih => intro r; simp only [run, An.nRun, ih]

/-- **the guard on a reader over any lawful chunk source** (a delimited child at any depth has its own flag): the
    observations that are not `OperationNotAllowed` are accepted by the flat cursor over the reader's text as the history
    of the admitted operations; the invariant, the chunk size and tell()+len(rest) are preserved -/
theorem guarded_n_history_refines_cursor (ops : List NOp) (g : G (Ma.AR σ)) (hg : Ma.Good g.r)
    (hok : ∀ op ∈ ops, op.ok g.r.chunk) :
    let x := gRun nIsIter An.nStep g ops
    An.NAcceptsRun g.r.chunk (Ma.absA g.r) (admitted nIsIter g.started ops) (inner x.1) (Ma.absA x.2.r) ∧ Ma.Good x.2.r ∧
    x.2.r.chunk = g.r.chunk ∧ Ma.total x.2.r = Ma.total g.r ∧ x.1.map isNotAllowed = refused nIsIter g.started ops := by
  intro x
  obtain ⟨e1, e2⟩ := gRun_admitted nIsIter (An.nStep (σ := σ)) ops g
  have hr := gRun_refused nIsIter (An.nStep (σ := σ)) ops g
  obtain ⟨h1, h2, h3, h4⟩ := An.n_history_refines_cursor (admitted nIsIter g.started ops) g.r hg
    (fun op h => hok op (mem_admitted _ _ _ _ h))
  simp only [run_nStep] at e1 e2
  refine ⟨?_, ?_, ?_, ?_, hr⟩
  · show An.NAcceptsRun _ _ _ (inner (gRun _ _ g ops).1) (Ma.absA (gRun _ _ g ops).2.r)
    rw [e1, e2]; exact h1
  · show Ma.Good (gRun _ _ g ops).2.r
    rw [e2]; exact h2
  · show (gRun _ _ g ops).2.r.chunk = _
    rw [e2]; exact h3
  · show Ma.total (gRun _ _ g ops).2.r = _
    rw [e2]; exact h4
end nested
end ARg

import FalconModel.AsyncReader
/-! Model of iteration over the async `BufferedReader` (falcon/asgi/reader.py `__aiter__`), on top of the model `ARd`:
    `async for chunk in reader: out.append(chunk); if len(out) >= k: break` - the loop the C14 harness runs.
    `__aiter__` returns the wrapper generator `_iter_with_buffer()` when something is buffered and `self._source` itself
    otherwise; the loop resumes it until `k` chunks were handed out or it stops. State is committed before each `yield`
    (see `ARd.step`), so abandoning the generator by `break` needs nothing more.
    Not modelled: the `_iteration_started` guard (a second `__aiter__` raises OperationNotAllowed; the harness iterates a
    reader at most once). -/
namespace ARi
open Rd (Bytes)
open ARd

/-- `__aiter__`: `return self._iter_with_buffer()` if `self._buffer_len > self._buffer_pos` else `return self._source` -/
def aiterPc (r : AR) : Pc := if r.len > r.pos then .wStart 0 else .wSource

/-- the `async for` loop, abandoned (`break`) once `k` chunks were collected; a `StopAsyncIteration` ends it earlier -/
def iterLoop : Nat → Pc → AR → List Bytes → List Bytes × AR
  | 0, _, r, acc => (acc, r)
  | k + 1, pc, r, acc =>
    match step (fuelOf r) pc r with
    | (.yield c, pc, r) => iterLoop k pc r (acc ++ [c])
    | (_, _, r) => (acc, r)

/-- iterate the reader, taking at most `k` chunks (`k ≥ 1`: the loop above tests `len(out) >= k` only after a chunk arrived) -/
def iterate (r : AR) (k : Nat) : List Bytes × AR := iterLoop k (aiterPc r) r []
end ARi

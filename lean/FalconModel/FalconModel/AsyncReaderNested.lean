import FalconModel.AsyncReader
import FalconModel.AsyncReaderIter
import FalconModel.MultipartAsync
/-! C14, async reader, **nested delimited readers** (`falcon.asgi.reader.BufferedReader.delimit`):
    `delimit(d)` is `type(self)(self._iter_delimited(d), chunk_size=self._chunk_size)` - a second reader with its own buffer and
    its own `_iter_normalized`, whose chunk source is the parent's generator `_iter_delimited(d)`; the parent object is shared.

    The executable model of that is `Ma.delimit` / `Ma.DelimGen` of FalconModel/MultipartAsync.lean: `Ma.AR σ` is the
    transcription of falcon/asgi/reader.py generic in its chunk source (`Ma.ASource`), so a child is `Ma.AR (Ma.DelimGen σ)` and
    a grandchild `Ma.AR (Ma.DelimGen (Ma.DelimGen σ))`, each containing its parent. This file adds what `ardriver` needs to run
    nested cases next to the root model `ARd` (FalconModel/AsyncReader.lean):

    * `toMa` / `ofMa`: the (bijective) translation between a root reader state `ARd.AR` and `Ma.AR Ma.Raw` (same fields; the
      remaining source items as a `Raw` iterator). AsyncReaderNestedProofs.lean proves that every operation of `ARd` is the
      corresponding operation of `Ma` under this translation (`toMa_asyncStep`, `toMa_iterate`), i.e. `ARd` IS `Ma`'s generic
      reader at the concrete source.
    * `iterate`: `async for chunk in reader` abandoned after `k` chunks (`ARi.iterate`), generic in the source.
    * `NOp` / `nStep` / `nRun`: the operations the harness applies to a reader at any nesting level.
    * `AProg` / `runAProg`: programs over a reader and, recursively, delimited sub-readers of any depth. -/
namespace An
open Rd (Bytes)
open Ma (AR ASource Raw DelimGen Pc Item AOp AObs gstep fuelOf arStep)

/-! ### root reader `ARd.AR` = `Ma.AR Raw` -/

def toNpc : ARd.NormPc → Ma.NormPc
  | .running => .running
  | .yielded1 item => .yielded1 item
  | .yielded2 => .yielded2
  | .finished => .finished

def ofNpc : Ma.NormPc → ARd.NormPc
  | .running => .running
  | .yielded1 item => .yielded1 item
  | .yielded2 => .yielded2
  | .finished => .finished

def toMa (r : ARd.AR) : AR Raw :=
  { buf := r.buf, len := r.len, pos := r.pos, chunk := r.chunk, consumed := r.consumed, exhausted := r.exhausted,
    pending := r.pending, npc := toNpc r.npc, src := ⟨r.src⟩ }

def ofMa (r : AR Raw) : ARd.AR :=
  { buf := r.buf, len := r.len, pos := r.pos, chunk := r.chunk, consumed := r.consumed, exhausted := r.exhausted,
    pending := r.pending, npc := ofNpc r.npc, src := r.src.items }

/-! ### iteration, generic in the chunk source -/

variable {σ : Type} [ASource σ]

/-- `__aiter__`: `return self._iter_with_buffer()` if `self._buffer_len > self._buffer_pos` else `return self._source` -/
def aiterPc (r : AR σ) : Pc := if r.len > r.pos then .wStart 0 else .wSource

/-- `async for chunk in reader: out.append(chunk); if len(out) >= k: break`; `none` = the source raised `ValueError` -/
def iterLoop : Nat → Pc → AR σ → List Bytes → Option (List Bytes) × AR σ
  | 0, _, r, acc => (some acc, r)
  | k + 1, pc, r, acc =>
    match gstep (fuelOf r) pc r with
    | (.chunk c, pc, r) => iterLoop k pc r (acc ++ [c])
    | (.stop, _, r) => (some acc, r)
    | (.raiseValue, _, r) => (none, r)

def iterate (r : AR σ) (k : Nat) : Option (List Bytes) × AR σ := iterLoop k (aiterPc r) r []

/-- what the harness applies to a reader: a coroutine method, or an iteration abandoned after `k` chunks -/
inductive NOp where
  | op (a : AOp)
  | iter (k : Nat)

inductive NObs where
  | obs (o : AObs)
  | chunks (cs : List Bytes)
  | valueErr

def nStep (r : AR σ) : NOp → NObs × AR σ
  | .op a => let x := arStep r a; (.obs x.1, x.2)
  | .iter k => let x := iterate r k; ((match x.1 with | some cs => .chunks cs | none => .valueErr), x.2)

def nRun : AR σ → List NOp → List NObs × AR σ
  | r, [] => ([], r)
  | r, op :: rest => ((nStep r op).1 :: (nRun (nStep r op).2 rest).1, (nRun (nStep r op).2 rest).2)

/-! ### programs over nested readers of any depth -/

inductive AProg where
  | done
  | op (o : NOp) (k : AProg)
  | nest (d : Bytes) (inner : AProg) (k : AProg)   -- child = delimit(d); run `inner` on it; drop it; continue with `k` on this reader

def runAProg : AProg → {σ : Type} → [ASource σ] → AR σ → List NObs × AR σ
  | .done, _, _, r => ([], r)
  | .op o k, _, _, r => ((nStep r o).1 :: (runAProg k (nStep r o).2).1, (runAProg k (nStep r o).2).2)
  | .nest d inner k, _, _, r =>
    ((runAProg inner (Ma.delimit r d)).1 ++ (runAProg k (runAProg inner (Ma.delimit r d)).2.src.parent).1,
     (runAProg k (runAProg inner (Ma.delimit r d)).2.src.parent).2)

end An

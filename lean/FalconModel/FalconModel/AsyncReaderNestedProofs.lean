import FalconModel.AsyncReaderNested
import FalconModel.AsyncReaderProofs
import FalconModel.MultipartAsyncReaderProofs
/-! C14, async reader: **the flat-cursor theorems transfer to nested delimited readers, at any depth.**

    Which route: `ARd` (the C14 root model) has a concrete source (a list of chunks), so it has no source class to
    instantiate. Instead (1) `ARd` is shown to BE `Ma`'s generic transcription of falcon/asgi/reader.py at the concrete source
    `Ma.Raw` - `toMa_asyncStep`, `toMa_asyncRun`, `toMa_iterate`: every operation commutes with the field-by-field translation
    `An.toMa`, which is a bijection (`ofMa_toMa`, `toMa_ofMa`) preserving the invariant, the abstract text, `tell()`, `eof`
    (`toMa_good`, `toMa_abs`, `toMa_tell`, `toMa_eof`); and (2) `Ma`'s theorems, which hold for EVERY lawful chunk source -
    in particular for `Ma.DelimGen σ`, the parent's `_iter_delimited(d)` generator (`instance : LawfulASource (DelimGen σ)`,
    `Ma.PInv_reach`, `Ma.ar_history_refines_cursor`, all in MultipartAsyncReaderProofs.lean) - are imported and sharpened:

    * `VT`, `*_vt` (frame): once `_iter_normalized` has seen the end of its source, the source holds nothing more; with it
      `absA_held`: a reader's text = what it holds (unread buffer ++ `_iter_normalized`'s pending chunk) ++ its source's text.
    * `total_reach`: reading through a child never changes the parent's `tell() + len(text to come)`.
    * `iterate` (abandoned `async for`) generically: `iterate_refines`; `NOp` histories: `n_history_refines_cursor`.
    * `delimited_source_lawful`, `async_nested_history_refines_cursor`: every history (incl. iteration) on `p.delimit(d)` is
      accepted by the flat cursor over the text of `p` up to the first `d`; the child's `tell()` is the cursor position; the
      parent is left in a good state at position `child cursor + bytes the child holds` - nothing lost, nothing duplicated,
      never past the delimiter, exactly at it when the child was drained - and its `tell()` moved by exactly that.
    * `async_nested_depth_refines`: the same for programs with `delimit` nested to ANY depth, by induction over `AProg`
      generalising the source type (the child's source `DelimGen σ` is again a lawful source, so the induction hypothesis applies
      to the child directly); `root_nested_history_refines_cursor`, `async_nested_depth_fresh`: for the C14 root model `ARd`. -/
set_option linter.unusedVariables false
namespace An
open Rd (Bytes slice sliceFrom sliceTo find occ stopAt)
open Ma
open Mf (contentOf)
open Ma.LawfulASource (data left valid)

section generic
variable {σ : Type} [ASource σ] [LawfulASource σ]

/-- the chunk source is in a valid state, and once `_iter_normalized` has seen its end it holds nothing more -/
def VT (r : AR σ) : Prop := valid r.src ∧ ((r.npc = .yielded2 ∨ r.npc = .finished) → data r.src = [])

theorem vt_ite {α : Type} (c : Prop) [Decidable c] (a b : α × AR σ) (ha : VT a.2) (hb : VT b.2) : VT (if c then a else b).2 := by
  split
  · exact ha
  · exact hb

theorem normLoop_vt : ∀ (fuel : Nat) (r : AR σ), valid r.src → r.npc = .running → VT (normLoop fuel r).2 := by
  intro fuel
  induction fuel with
  | zero =>
    intro r hv hn
    refine ⟨hv, fun h => ?_⟩
    have h' : r.npc = .yielded2 ∨ r.npc = .finished := h
    rw [hn] at h'; rcases h' with h' | h' <;> cases h'
  | succ f ih =>
    intro r hv hn
    simp only [normLoop]
    rcases hx : ASource.anext r.src with ⟨it, s⟩
    cases it with
    | raiseValue => exact absurd hx (LawfulASource.anext_noraise r.src s hv)
    | stop =>
      obtain ⟨_, e2, e3⟩ := LawfulASource.anext_stop r.src s hv hx
      simp only
      split
      · exact ⟨e3, fun _ => e2⟩
      · exact ⟨e3, fun _ => e2⟩
    | chunk item =>
      obtain ⟨_, _, e3⟩ := LawfulASource.anext_chunk r.src item s hv hx
      simp only
      split
      · exact ⟨e3, fun h => by rcases h with h | h <;> cases h⟩
      · exact ih { r with src := s, pending := r.pending ++ item } e3 hn

theorem nextNorm_vt (r : AR σ) (h : VT r) : VT (nextNorm r).2 := by
  unfold nextNorm
  cases hn : r.npc with
  | finished => exact h
  | yielded2 => exact ⟨h.1, fun _ => h.2 (Or.inl hn)⟩
  | yielded1 item => exact normLoop_vt _ { r with pending := item, npc := .running } h.1 rfl
  | running => exact normLoop_vt _ r h.1 hn

theorem dCheck_vt (d : Bytes) (r : AR σ) (out : Item × Pc × AR σ) (hck : dCheckBuffer d r = some out) (h : VT r) : VT out.2.2 := by
  unfold dCheckBuffer at hck
  simp only at hck
  split at hck
  · split at hck
    · simp only [Option.some.injEq] at hck; subst hck; exact h
    · simp only [Option.some.injEq] at hck; subst hck; exact h
  · cases hck

theorem gstep_vt : ∀ (fuel : Nat) (pc : Pc) (r : AR σ), VT r → VT (gstep fuel pc r).2.2 := by
  intro fuel
  induction fuel with
  | zero => intro pc r h; exact h
  | succ f ih =>
    intro pc r h
    cases pc with
    | done => exact h
    | wStart hint =>
      simp only [gstep]
      split
      · split <;> exact h
      · exact ih _ _ h
    | wAfterHint => exact h
    | wSource =>
      simp only [gstep]
      have h1 := nextNorm_vt r h
      rcases hx : nextNorm r with ⟨y, r'⟩
      rw [hx] at h1
      cases y <;> exact h1
    | dStart delim hint =>
      simp only [gstep]
      split
      · exact h
      · split
        · split
          · exact h
          · split
            · split <;> exact h
            · split
              · exact h
              · exact ih _ _ h
        · exact ih _ _ h
    | dFoundAfterHint delim p => exact h
    | dPreLoop delim =>
      simp only [gstep]
      refine ih (.dLoop delim) (if r.pos > 0 then trimBuffer r else r) ?_
      split
      · exact h
      · exact h
    | dAfterOutput delim =>
      simp only [gstep]
      cases hck : dCheckBuffer delim r with
      | some out => exact dCheck_vt delim r out hck h
      | none => exact ih _ _ h
    | dLoop delim =>
      simp only [gstep]
      have h1 := nextNorm_vt r h
      rcases hx : nextNorm r with ⟨y, r'⟩
      rw [hx] at h1
      cases y with
      | stop => exact h1
      | raiseValue => exact h1
      | chunk c =>
        simp only
        split
        · split <;> exact h1
        · generalize hm : (if (!r'.buf.isEmpty) = true then { r' with buf := r'.buf ++ c, len := r'.len + ↑c.length }
              else { r' with buf := c, len := ↑c.length }) = rm
          have hs : VT rm := by rw [← hm]; split <;> exact h1
          cases hck : dCheckBuffer delim rm with
          | some out => exact dCheck_vt delim rm out hck hs
          | none => exact ih (.dLoop delim) rm hs

theorem readAll_vt : ∀ (fuel : Nat) (pc : Pc) (r : AR σ) (acc : Bytes), VT r → VT (readAll fuel pc r acc).2 := by
  intro fuel
  induction fuel with
  | zero => intro pc r acc h; exact h
  | succ f ih =>
    intro pc r acc h
    simp only [readAll]
    have h1 := gstep_vt (fuelOf r) pc r h
    rcases hx : gstep (fuelOf r) pc r with ⟨y, pc', r1⟩
    rw [hx] at h1
    cases y with
    | chunk c => exact ih _ _ _ h1
    | stop => exact h1
    | raiseValue => exact h1

theorem prepend_vt (r : AR σ) (x : Bytes) (h : VT r) : VT (prependBuffer r x) := by
  unfold prependBuffer; split <;> exact h

theorem readN_vt : ∀ (fuel : Nat) (pc : Pc) (r : AR σ) (rem : Int) (acc : Bytes), VT r → VT (readN fuel pc r rem acc).2 := by
  intro fuel
  induction fuel with
  | zero => intro pc r rem acc h; exact h
  | succ f ih =>
    intro pc r rem acc h
    simp only [readN]
    have h1 := gstep_vt (fuelOf r) pc r h
    rcases hx : gstep (fuelOf r) pc r with ⟨y, pc', r1⟩
    rw [hx] at h1
    cases y with
    | chunk c =>
      simp only
      split
      · exact prepend_vt _ _ h1
      · split
        · exact h1
        · exact ih _ _ _ _ h1
    | stop => exact h1
    | raiseValue => exact h1

theorem readFrom_vt (pc : Pc) (r : AR σ) (size : Option Int) (h : VT r) : VT (readFrom pc r size).2 := by
  unfold readFrom
  split
  · exact readAll_vt _ _ _ _ h
  · split
    · exact readAll_vt _ _ _ _ h
    · split
      · exact h
      · exact readN_vt _ _ _ _ _ h

theorem peekLoop_vt : ∀ (fuel : Nat) (r : AR σ) (size : Int), VT r → VT (peekLoop fuel r size).2 := by
  intro fuel
  induction fuel with
  | zero => intro r size h; exact h
  | succ f ih =>
    intro r size h
    simp only [peekLoop]
    have h1 := nextNorm_vt r h
    rcases hx : nextNorm r with ⟨y, r'⟩
    rw [hx] at h1
    cases y with
    | stop => exact h1
    | raiseValue => exact h1
    | chunk c =>
      simp only
      split
      · exact h1
      · exact ih { r' with buf := r'.buf ++ c, len := ((r'.buf ++ c).length : Int) } size h1

theorem peek_vt (r : AR σ) (size : Int) (h : VT r) : VT (peek r size).2 := by
  have key : ∀ (r1 : AR σ) (S : Int), VT r1 →
      VT (if r1.len < S then peekLoop (ASource.bound r1.src + 2) r1 S else (.ok (sliceTo r1.buf S), r1)).2 := by
    intro r1 S hs
    split
    · exact peekLoop_vt _ r1 S hs
    · exact hs
  exact key (if r.pos > 0 then trimBuffer r else r) _ (by split <;> exact h)

theorem consume_vt (b : Bytes) (r : AR σ) (d : Bytes) (h : VT r) : VT (consumeDelimiter b r d).2 := by
  unfold consumeDelimiter
  have h1 := peek_vt r d.length h
  rcases hx : peek r d.length with ⟨res, r1⟩
  rw [hx] at h1
  cases res with
  | ok p => simp only; split <;> exact h1
  | delimErr => exact h1
  | valueErr => exact h1

theorem readUntil_vt (r : AR σ) (d : Bytes) (s : Option Int) (c : Bool) (h : VT r) : VT (readUntil r d s c).2 := by
  unfold readUntil
  have h1 := readFrom_vt (.dStart d (hintOf s)) r s h
  rcases hx : readFrom (.dStart d (hintOf s)) r s with ⟨res, r1⟩
  rw [hx] at h1
  cases res with
  | ok b =>
    simp only
    split
    · exact consume_vt _ _ _ h1
    · exact h1
  | delimErr => exact h1
  | valueErr => exact h1

theorem pipeUntil_vt (r : AR σ) (d : Bytes) (c : Bool) (h : VT r) : VT (pipeUntil r d c).2 := by
  unfold pipeUntil
  have h1 := readAll_vt (bigFuel r) (.dStart d 0) r [] h
  rcases hx : readAll (bigFuel r) (.dStart d 0) r [] with ⟨res, r1⟩
  rw [hx] at h1
  cases res with
  | ok b =>
    simp only
    split
    · exact consume_vt _ _ _ h1
    · exact h1
  | delimErr => exact h1
  | valueErr => exact h1

theorem arStep_vt (r : AR σ) (op : AOp) (h : VT r) : VT (arStep r op).2 := by
  cases op with
  | read s => exact readFrom_vt _ _ _ h
  | readall => exact readFrom_vt _ _ _ h
  | peek n => exact peek_vt _ _ h
  | readUntil d s c => exact readUntil_vt _ _ _ _ h
  | pipeUntil d c => exact pipeUntil_vt _ _ _ h
  | pipe => exact readAll_vt _ _ _ _ h
  | exhaust => exact readAll_vt _ _ _ _ h
  | iterate => exact readAll_vt _ _ _ _ h

theorem arRun_vt (ops : List AOp) : ∀ (r : AR σ), VT r → VT (arRun r ops).2 := by
  induction ops with
  | nil => intro r h; exact h
  | cons op rest ih => intro r h; exact ih _ (arStep_vt r op h)

/-- what `_iter_normalized` has taken from its source and not yet yielded -/
def heldN (r : AR σ) : Bytes :=
  match r.npc with
  | .running => r.pending
  | .yielded1 item => item
  | _ => []

/-- the bytes a reader has taken from its source and not yet handed out: unread buffer ++ what `_iter_normalized` holds -/
def held (r : AR σ) : Bytes := sliceFrom r.buf r.pos ++ heldN r

theorem absA_held (r : AR σ) (h : VT r) : absA r = held r ++ data r.src := by
  unfold absA held future heldN
  cases hn : r.npc with
  | running => simp only [List.append_assoc]
  | yielded1 item => simp only [List.append_assoc]
  | yielded2 => simp only [h.2 (Or.inl hn), List.append_nil]
  | finished => simp only [h.2 (Or.inr hn), List.append_nil]

theorem tell_eq (r : AR σ) (hg : Good r) : tell r = total r - (absA r).length := by
  have := absA_length_buf r hg
  have := hg.pos_le
  unfold tell total; omega

theorem eof_rest (r : AR σ) (hg : Good r) (he : eof r = true) : absA r = [] := by
  unfold eof at he
  simp only [Bool.and_eq_true, beq_iff_eq] at he
  have hfin := hg.exh_iff.mp he.1
  have hl := absA_length_buf r hg
  have hf : future r = [] := by unfold future; rw [hfin]
  rw [hf] at hl
  exact List.eq_nil_of_length_eq_zero (by rw [hl]; simp; omega)

/-- reading through a delimited child never changes the parent's `total` (= `tell()` + text still to come), and keeps `VT` -/
theorem total_reach (A0 : Bytes) (ch : Int) (d : Bytes) {s s' : DelimGen σ} (hr : Reach s s') (h : PInv A0 ch d s) :
    total s'.parent = total s.parent ∧ (VT s.parent → VT s'.parent) := by
  induction hr with
  | refl => exact ⟨rfl, id⟩
  | @step s s1 s2 it e hrest ih =>
    have hv := h.1
    have hs := step_spec (fuelOf s.parent) s.pc s.parent hv (need_le_fuelOf s.pc s.parent hv.1)
    have hvt := gstep_vt (fuelOf s.parent) s.pc s.parent
    have he : ASource.anext s = ((gstep (fuelOf s.parent) s.pc s.parent).1,
        ({ parent := (gstep (fuelOf s.parent) s.pc s.parent).2.2, pc := (gstep (fuelOf s.parent) s.pc s.parent).2.1 } : DelimGen σ)) := rfl
    have h1 : PInv A0 ch d s1 := PInv_reach A0 ch d (.step e (.refl _)) h
    obtain ⟨i1, i2⟩ := ih h1
    rw [he] at e
    rcases hx : gstep (fuelOf s.parent) s.pc s.parent with ⟨y, pc', r1⟩
    rw [hx] at hs e hvt
    simp only [Prod.mk.injEq] at e
    obtain ⟨rfl, rfl⟩ := e
    have ht : total r1 = total s.parent := by
      cases y with
      | raiseValue => exact absurd hs id
      | stop => exact hs.2.2.2.1
      | chunk c => exact hs.2.2.2.2.2.1
    exact ⟨by rw [i1]; exact ht, fun hv => i2 (hvt hv)⟩

theorem delimit_good (p : AR σ) (d : Bytes) (hg : Good p) (hd : d ≠ []) (hdc : (d.length : Int) ≤ p.chunk) :
    Good (delimit p d) ∧ VT (delimit p d) ∧ absA (delimit p d) = contentOf d (absA p) ∧ total (delimit p d) = (contentOf d (absA p)).length ∧
    PInv (absA p) p.chunk d (delimit p d).src := by
  have hab : absA (delimit p d) = contentOf d (absA p) := by
    rw [contentOf_eq_U]
    show sliceFrom [] 0 ++ ([] ++ (absA p).take (lim (.dStart d 0) (absA p))) = _
    simp [sliceFrom, lim]
  refine ⟨⟨rfl, Int.le_refl 0, Int.le_refl 0, hg.chunk_pos, by constructor <;> intro h <;> simp [delimit] at h, ⟨hg, hd, hdc⟩⟩,
    ⟨⟨hg, hd, hdc⟩, fun h => by rcases h with h | h <;> simp [delimit] at h⟩, hab, ?_,
    ⟨⟨hg, hd, hdc⟩, rfl, 0, rfl, by show 0 + U d (absA p) = _; omega⟩⟩
  show (0 : Int) + (future (delimit p d)).length = _
  have : future (delimit p d) = absA (delimit p d) := by simp [absA, delimit, sliceFrom]
  rw [this, hab]; simp

/-- how a child in a good state relates to its parent -/
theorem child_parent (A0 : Bytes) (ch : Int) (d : Bytes) (c : AR (DelimGen σ)) (hvt : VT c) (hp : PInv A0 ch d c.src) :
    held c ++ absA c.src.parent = absA c ++ A0.drop (contentOf d A0).length := by
  obtain ⟨_, _, j, hj1, hj2⟩ := hp
  have hdata : data c.src = (absA c.src.parent).take (lim c.src.pc (absA c.src.parent)) := rfl
  have hC : (contentOf d A0).length = U d A0 := by
    rw [contentOf_eq_U, List.length_take]
    have : U d A0 ≤ A0.length := by unfold U stopAt; omega
    omega
  rw [absA_held c hvt, hdata, List.append_assoc]
  congr 1
  rw [hC, ← hj2]
  have : A0.drop (j + lim c.src.pc (absA c.src.parent)) = (absA c.src.parent).drop (lim c.src.pc (absA c.src.parent)) := by
    rw [hj1, List.drop_drop]
  rw [this, List.take_append_drop]

end generic

/-! ### `ARd` = `Ma.AR Raw` -/

def toItem : Option Bytes → Item
  | some c => .chunk c
  | none => .stop

def toPc : ARd.Pc → Ma.Pc
  | .wStart h => .wStart h
  | .wAfterHint => .wAfterHint
  | .wSource => .wSource
  | .dStart d h => .dStart d h
  | .dFoundAfterHint d p => .dFoundAfterHint d p
  | .dPreLoop d => .dPreLoop d
  | .dLoop d => .dLoop d
  | .dAfterOutput d => .dAfterOutput d
  | .done => .done

def toY : ARd.Y → Item
  | .yield b => .chunk b
  | .stop => .stop
  | .raiseValue => .raiseValue

def toRes : ARd.Res → Rd.Res
  | .ok b => .ok b
  | .delimErr => .delimErr
  | .valueErr => .valueErr

theorem toMa_mk (buf : Bytes) (len pos chunk consumed : Int) (exh : Bool) (pending : Bytes) (src : List Bytes) (npc : ARd.NormPc) :
    toMa ⟨buf, len, pos, chunk, consumed, exh, pending, src, npc⟩ = ⟨buf, len, pos, chunk, consumed, exh, pending, toNpc npc, ⟨src⟩⟩ := rfl

theorem normLoop_eq : ∀ (fuel : Nat) (r : ARd.AR),
    Ma.normLoop fuel (toMa r) = (toItem (ARd.normLoop fuel r).1, toMa (ARd.normLoop fuel r).2) := by
  intro fuel
  induction fuel with
  | zero => intro r; rfl
  | succ f ih =>
    intro r
    rcases r with ⟨buf, len, pos, chunk, consumed, exh, pending, src, npc⟩
    cases src with
    | nil =>
      by_cases h : (!pending.isEmpty) = true
      · simp only [ARd.normLoop, Ma.normLoop, toMa_mk, ASource.anext, h, ↓reduceIte]; rfl
      · simp only [ARd.normLoop, Ma.normLoop, toMa_mk, ASource.anext, h]; rfl
    | cons item rest =>
      by_cases h : (pending.length : Int) ≥ chunk
      · simp only [ARd.normLoop, Ma.normLoop, toMa_mk, ASource.anext, h, ↓reduceIte]; rfl
      · simp only [ARd.normLoop, Ma.normLoop, toMa_mk, ASource.anext, h, ↓reduceIte]
        exact ih ⟨buf, len, pos, chunk, consumed, exh, pending ++ item, rest, npc⟩

theorem nextNorm_eq (r : ARd.AR) : Ma.nextNorm (toMa r) = (toItem (ARd.nextNorm r).1, toMa (ARd.nextNorm r).2) := by
  rcases r with ⟨buf, len, pos, chunk, consumed, exh, pending, src, npc⟩
  cases npc with
  | finished => rfl
  | yielded2 => rfl
  | yielded1 item => exact normLoop_eq (src.length + 1) ⟨buf, len, pos, chunk, consumed, exh, item, src, .running⟩
  | running => exact normLoop_eq (src.length + 1) ⟨buf, len, pos, chunk, consumed, exh, pending, src, .running⟩

def toOut (x : ARd.Y × ARd.Pc × ARd.AR) : Item × Ma.Pc × AR Raw := (toY x.1, toPc x.2.1, toMa x.2.2)

theorem ite_toOut (c : Prop) [Decidable c] (a b : ARd.Y × ARd.Pc × ARd.AR) (A B : Item × Ma.Pc × AR Raw)
    (h1 : A = toOut a) (h2 : B = toOut b) : (if c then A else B) = toOut (if c then a else b) := by
  split <;> assumption

theorem dCheck_eq (d : Bytes) (r : ARd.AR) : Ma.dCheckBuffer d (toMa r) = (ARd.dCheckBuffer d r).map toOut := by
  rcases r with ⟨buf, len, pos, chunk, consumed, exh, pending, src, npc⟩
  simp only [Ma.dCheckBuffer, ARd.dCheckBuffer, toMa_mk]
  by_cases h1 : find buf d 0 ≥ 0
  · by_cases h2 : find buf d 0 > 0
    · simp only [h1, h2, ↓reduceIte]; rfl
    · simp only [h1, h2, ↓reduceIte]; rfl
  · simp only [h1, ↓reduceIte]; rfl

theorem trim_eq (r : ARd.AR) : Ma.trimBuffer (toMa r) = toMa (ARd.trimBuffer r) := rfl

theorem gstep_eq : ∀ (fuel : Nat) (pc : ARd.Pc) (r : ARd.AR),
    Ma.gstep fuel (toPc pc) (toMa r) = toOut (ARd.step fuel pc r) := by
  intro fuel
  induction fuel with
  | zero => intro pc r; rfl
  | succ f ih =>
    intro pc r
    cases pc with
    | done => rfl
    | wAfterHint => rfl
    | dFoundAfterHint d p => rfl
    | wStart hint =>
      have ih' := ih .wSource r
      rcases r with ⟨buf, len, pos, chunk, consumed, exh, pending, src, npc⟩
      simp only [toPc] at ih' ⊢
      simp only [Ma.gstep, ARd.step, toMa_mk] at ih' ⊢
      refine ite_toOut _ _ _ _ _ ?_ ih'
      exact ite_toOut _ _ _ _ _ rfl rfl
    | wSource =>
      simp only [toPc, Ma.gstep, ARd.step, nextNorm_eq]
      rcases ARd.nextNorm r with ⟨o, r'⟩
      cases o <;> rfl
    | dPreLoop d =>
      simp only [toPc, Ma.gstep, ARd.step]
      have : (if (toMa r).pos > 0 then Ma.trimBuffer (toMa r) else toMa r) = toMa (if r.pos > 0 then ARd.trimBuffer r else r) := by
        show (if r.pos > 0 then _ else _) = _
        split <;> rfl
      rw [this]
      exact ih (.dLoop d) _
    | dAfterOutput d =>
      simp only [toPc, Ma.gstep, ARd.step, dCheck_eq]
      cases hck : ARd.dCheckBuffer d r with
      | some out => rfl
      | none => exact ih (.dLoop d) r
    | dStart d hint =>
      have ih' := ih (.dPreLoop d) r
      rcases r with ⟨buf, len, pos, chunk, consumed, exh, pending, src, npc⟩
      simp only [toPc] at ih' ⊢
      simp only [Ma.gstep, ARd.step, toMa_mk] at ih' ⊢
      refine ite_toOut _ _ _ _ _ rfl ?_
      refine ite_toOut _ _ _ _ _ ?_ ih'
      refine ite_toOut _ _ _ _ _ rfl ?_
      refine ite_toOut _ _ _ _ _ ?_ ?_
      · exact ite_toOut _ _ _ _ _ rfl rfl
      · exact ite_toOut _ _ _ _ _ rfl ih'
    | dLoop d =>
      simp only [toPc, Ma.gstep, ARd.step, nextNorm_eq]
      rcases ARd.nextNorm r with ⟨o, r'⟩
      cases o with
      | none => rfl
      | some c =>
        rcases r' with ⟨buf, len, pos, chunk, consumed, exh, pending, src, npc⟩
        simp only [toItem, toMa_mk]
        refine ite_toOut _ _ _ _ _ ?_ ?_
        · exact ite_toOut _ _ _ _ _ rfl rfl
        · by_cases h3 : (!buf.isEmpty) = true
          · simp only [h3, ↓reduceIte]
            rw [← toMa_mk, dCheck_eq]
            cases ARd.dCheckBuffer d ⟨buf ++ c, len + c.length, pos, chunk, consumed, exh, pending, src, npc⟩ with
            | some out => rfl
            | none => exact ih (.dLoop d) _
          · simp only [h3, Bool.false_eq_true, ↓reduceIte]
            rw [← toMa_mk, dCheck_eq]
            cases ARd.dCheckBuffer d ⟨c, c.length, pos, chunk, consumed, exh, pending, src, npc⟩ with
            | some out => rfl
            | none => exact ih (.dLoop d) _

theorem fuelOf_eq (r : ARd.AR) : Ma.fuelOf (toMa r) = ARd.fuelOf r := rfl
theorem bigFuel_eq (r : ARd.AR) : Ma.bigFuel (toMa r) = 4 * (r.src.length + 4) := rfl

theorem gstep_eq' (fuel : Nat) (pc : ARd.Pc) (r : ARd.AR) :
    Ma.gstep fuel (toPc pc) (toMa r) = (toY (ARd.step fuel pc r).1, toPc (ARd.step fuel pc r).2.1, toMa (ARd.step fuel pc r).2.2) :=
  gstep_eq fuel pc r

theorem readAll_eq : ∀ (fuel : Nat) (pc : ARd.Pc) (r : ARd.AR) (acc : Bytes),
    Ma.readAll fuel (toPc pc) (toMa r) acc = (toRes (ARd.readAll fuel pc r acc).1, toMa (ARd.readAll fuel pc r acc).2) := by
  intro fuel
  induction fuel with
  | zero => intro pc r acc; rfl
  | succ f ih =>
    intro pc r acc
    simp only [Ma.readAll, ARd.readAll, fuelOf_eq, gstep_eq']
    rcases ARd.step (ARd.fuelOf r) pc r with ⟨y, pc', r1⟩
    cases y with
    | yield c => exact ih pc' r1 _
    | stop => rfl
    | raiseValue => rfl

theorem prepend_eq (r : ARd.AR) (c : Bytes) : Ma.prependBuffer (toMa r) c = toMa (ARd.prependBuffer r c) := by
  rcases r with ⟨buf, len, pos, chunk, consumed, exh, pending, src, npc⟩
  simp only [Ma.prependBuffer, ARd.prependBuffer, toMa_mk]
  by_cases h : len > pos
  · simp only [h, ↓reduceIte]; rfl
  · simp only [h, ↓reduceIte]; rfl

theorem readN_eq : ∀ (fuel : Nat) (pc : ARd.Pc) (r : ARd.AR) (rem : Int) (acc : Bytes),
    Ma.readN fuel (toPc pc) (toMa r) rem acc = (toRes (ARd.readN fuel pc r rem acc).1, toMa (ARd.readN fuel pc r rem acc).2) := by
  intro fuel
  induction fuel with
  | zero => intro pc r rem acc; rfl
  | succ f ih =>
    intro pc r rem acc
    simp only [Ma.readN, ARd.readN, fuelOf_eq, gstep_eq']
    rcases ARd.step (ARd.fuelOf r) pc r with ⟨y, pc', r1⟩
    cases y with
    | yield c =>
      simp only [toY]
      by_cases h1 : rem < (c.length : Int)
      · simp only [h1, ↓reduceIte, prepend_eq]; rfl
      · simp only [h1, ↓reduceIte]
        by_cases h2 : (rem - (c.length : Int) == 0) = true
        · simp only [h2, ↓reduceIte]; rfl
        · simp only [h2, Bool.false_eq_true, ↓reduceIte]
          exact ih pc' r1 _ _
    | stop => rfl
    | raiseValue => rfl

theorem readFrom_eq (pc : ARd.Pc) (r : ARd.AR) (size : Option Int) :
    Ma.readFrom (toPc pc) (toMa r) size = (toRes (ARd.readFrom pc r size).1, toMa (ARd.readFrom pc r size).2) := by
  unfold Ma.readFrom ARd.readFrom
  simp only [bigFuel_eq]
  cases size with
  | none => exact readAll_eq _ _ _ _
  | some s =>
    simp only
    by_cases h1 : (s == -1) = true
    · simp only [h1, ↓reduceIte]; exact readAll_eq _ _ _ _
    · simp only [h1, Bool.false_eq_true, ↓reduceIte]
      by_cases h2 : s ≤ 0
      · simp only [h2, ↓reduceIte]; rfl
      · simp only [h2, ↓reduceIte]; exact readN_eq _ _ _ _ _

theorem peekLoop_eq : ∀ (fuel : Nat) (r : ARd.AR) (size : Int),
    Ma.peekLoop fuel (toMa r) size = (.ok (sliceTo (ARd.peekLoop fuel r size).buf size), toMa (ARd.peekLoop fuel r size)) := by
  intro fuel
  induction fuel with
  | zero => intro r size; rfl
  | succ f ih =>
    intro r size
    simp only [Ma.peekLoop, ARd.peekLoop, nextNorm_eq]
    rcases ARd.nextNorm r with ⟨o, r'⟩
    cases o with
    | none => rfl
    | some c =>
      rcases r' with ⟨buf, len, pos, chunk, consumed, exh, pending, src, npc⟩
      simp only [toItem, toMa_mk]
      by_cases h : ((buf ++ c).length : Int) ≥ size
      · simp only [h, ↓reduceIte]; rfl
      · simp only [h, ↓reduceIte]
        exact ih ⟨buf ++ c, (buf ++ c).length, pos, chunk, consumed, exh, pending, src, npc⟩ size

theorem peek_eq (r : ARd.AR) (size : Int) : Ma.peek (toMa r) size = (.ok (ARd.peek r size).1, toMa (ARd.peek r size).2) := by
  have key : ∀ (r1 : ARd.AR) (S : Int),
      (if (toMa r1).len < S then Ma.peekLoop (ASource.bound (toMa r1).src + 2) (toMa r1) S else (.ok (sliceTo (toMa r1).buf S), toMa r1))
        = (.ok (sliceTo (if r1.len < S then ARd.peekLoop (r1.src.length + 2) r1 S else r1).buf S),
           toMa (if r1.len < S then ARd.peekLoop (r1.src.length + 2) r1 S else r1)) := by
    intro r1 S
    by_cases h : r1.len < S
    · have h' : (toMa r1).len < S := h
      simp only [h, h', ↓reduceIte]
      exact peekLoop_eq _ r1 S
    · have h' : ¬ (toMa r1).len < S := h
      simp only [h, h', ↓reduceIte]; rfl
  have ht : (if (toMa r).pos > 0 then Ma.trimBuffer (toMa r) else toMa r) = toMa (if r.pos > 0 then ARd.trimBuffer r else r) := by
    show (if r.pos > 0 then _ else _) = _
    split <;> rfl
  unfold Ma.peek ARd.peek
  simp only [ht]
  exact key _ _

theorem consume_eq (b : Bytes) (r : ARd.AR) (d : Bytes) :
    Ma.consumeDelimiter b (toMa r) d =
      match ARd.consumeDelimiter r d with
      | some r' => (.ok b, toMa r')
      | none => (.delimErr, toMa (ARd.peek r d.length).2) := by
  unfold Ma.consumeDelimiter ARd.consumeDelimiter
  rw [peek_eq]
  rcases ARd.peek r d.length with ⟨p, r1⟩
  simp only
  by_cases h : (p != d) = true
  · simp only [h, ↓reduceIte]
  · simp only [h, Bool.false_eq_true, ↓reduceIte]; rfl

def toMaOp : ARd.AOp → Ma.AOp
  | .read s => .read s
  | .readall => .readall
  | .peek n => .peek n
  | .readUntil d s c => .readUntil d s c
  | .pipeUntil d c => .pipeUntil d c
  | .pipe => .pipe
  | .exhaust => .exhaust

theorem toObs_toRes (x : ARd.Res) : (Ma.resObs (toRes x)).toObs = ARd.resObs x := by cases x <;> rfl

theorem read_eq (r : ARd.AR) (s : Option Int) : Ma.read (toMa r) s = (toRes (ARd.read r s).1, toMa (ARd.read r s).2) :=
  readFrom_eq (.wStart (ARd.hintOf s)) r s

theorem readall_eq (r : ARd.AR) : Ma.readall (toMa r) = (toRes (ARd.readall r).1, toMa (ARd.readall r).2) :=
  readFrom_eq (.wStart 0) r none

theorem pipe_eq (r : ARd.AR) : Ma.pipe (toMa r) = (toRes (ARd.pipe r).1, toMa (ARd.pipe r).2) :=
  readAll_eq _ (.wStart 0) r []

theorem readUntil_eq (r : ARd.AR) (d : Bytes) (s : Option Int) (c : Bool) :
    Ma.readUntil (toMa r) d s c = (toRes (ARd.readUntil r d s c).1, toMa (ARd.readUntil r d s c).2.1) := by
  unfold Ma.readUntil ARd.readUntil
  have h := readFrom_eq (.dStart d (ARd.hintOf s)) r s
  have hh : Ma.hintOf s = ARd.hintOf s := rfl
  simp only [toPc] at h
  rw [hh, h]
  rcases ARd.readFrom (.dStart d (ARd.hintOf s)) r s with ⟨res, r1⟩
  cases res with
  | ok b =>
    simp only [toRes]
    cases c with
    | false => rfl
    | true =>
      simp only [↓reduceIte, consume_eq]
      cases ARd.consumeDelimiter r1 d with
      | some r2 => rfl
      | none => rfl
  | delimErr => rfl
  | valueErr => rfl

theorem pipeUntil_eq (r : ARd.AR) (d : Bytes) (c : Bool) :
    Ma.pipeUntil (toMa r) d c = (toRes (ARd.pipeUntil r d c).1, toMa (ARd.pipeUntil r d c).2) := by
  unfold Ma.pipeUntil ARd.pipeUntil
  have h := readAll_eq (4 * (r.src.length + 4)) (.dStart d 0) r []
  simp only [toPc] at h
  rw [bigFuel_eq, h]
  rcases ARd.readAll (4 * (r.src.length + 4)) (.dStart d 0) r [] with ⟨res, r1⟩
  cases res with
  | ok b =>
    simp only [toRes]
    cases c with
    | false => rfl
    | true =>
      simp only [↓reduceIte, consume_eq]
      cases ARd.consumeDelimiter r1 d with
      | some r2 => rfl
      | none => rfl
  | delimErr => rfl
  | valueErr => rfl

/-- **`ARd` is `Ma`'s generic reader at the concrete source**: every public operation of the root model `ARd` (the one `ardriver`
    runs at level 0) is the same operation of `Ma.AR Raw` under the field-by-field translation `toMa` -/
theorem toMa_asyncStep (r : ARd.AR) (op : ARd.AOp) :
    (Ma.arStep (toMa r) (toMaOp op)).1.toObs = (ARd.asyncStep r op).1 ∧
    (Ma.arStep (toMa r) (toMaOp op)).2 = toMa (ARd.asyncStep r op).2 := by
  cases op with
  | read s => simp only [toMaOp, Ma.arStep, ARd.asyncStep, read_eq, toObs_toRes]; exact ⟨trivial, trivial⟩
  | readall => simp only [toMaOp, Ma.arStep, ARd.asyncStep, readall_eq, toObs_toRes]; exact ⟨trivial, trivial⟩
  | peek n => simp only [toMaOp, Ma.arStep, ARd.asyncStep, peek_eq]; exact ⟨rfl, trivial⟩
  | readUntil d s c => simp only [toMaOp, Ma.arStep, ARd.asyncStep, readUntil_eq, toObs_toRes]; exact ⟨trivial, trivial⟩
  | pipeUntil d c => simp only [toMaOp, Ma.arStep, ARd.asyncStep, pipeUntil_eq, toObs_toRes]; exact ⟨trivial, trivial⟩
  | pipe => simp only [toMaOp, Ma.arStep, ARd.asyncStep, pipe_eq, toObs_toRes]; exact ⟨trivial, trivial⟩
  | exhaust =>
    simp only [toMaOp, Ma.arStep, ARd.asyncStep, pipe_eq]
    refine ⟨?_, trivial⟩
    cases (ARd.pipe r).1 <;> rfl

theorem toMa_asyncRun (ops : List ARd.AOp) : ∀ (r : ARd.AR),
    (Ma.arRun (toMa r) (ops.map toMaOp)).1.map AObs.toObs = (ARd.asyncRun r ops).1 ∧
    (Ma.arRun (toMa r) (ops.map toMaOp)).2 = toMa (ARd.asyncRun r ops).2 := by
  induction ops with
  | nil => intro r; exact ⟨rfl, rfl⟩
  | cons op rest ih =>
    intro r
    obtain ⟨a, b⟩ := toMa_asyncStep r op
    obtain ⟨i1, i2⟩ := ih (ARd.asyncStep r op).2
    simp only [List.map_cons, Ma.arRun, b, ARd.asyncRun]
    exact ⟨by rw [a, i1], i2⟩

theorem ofMa_toMa (r : ARd.AR) : ofMa (toMa r) = r := by
  rcases r with ⟨buf, len, pos, chunk, consumed, exh, pending, src, npc⟩
  cases npc <;> rfl

theorem toMa_ofMa (m : AR Raw) : toMa (ofMa m) = m := by
  rcases m with ⟨buf, len, pos, chunk, consumed, exh, pending, npc, ⟨src⟩⟩
  cases npc <;> rfl

theorem toMa_tell (r : ARd.AR) : Ma.tell (toMa r) = ARd.tell r := rfl
theorem toMa_eof (r : ARd.AR) : Ma.eof (toMa r) = ARd.eof r := rfl

theorem toMa_future (r : ARd.AR) : Ma.future (toMa r) = ARd.future r := by
  rcases r with ⟨buf, len, pos, chunk, consumed, exh, pending, src, npc⟩
  cases npc <;> rfl

theorem toMa_abs (r : ARd.AR) : Ma.absA (toMa r) = ARd.abs r := by
  unfold Ma.absA ARd.abs; rw [toMa_future]; rfl

theorem toMa_total (r : ARd.AR) : Ma.total (toMa r) = ARd.total r := by
  unfold Ma.total ARd.total; rw [toMa_future]; rfl

theorem toMa_good (r : ARd.AR) : Ma.Good (toMa r) ↔ ARd.Good r := by
  have hn : (toMa r).npc = .finished ↔ r.npc = .finished := by
    show toNpc r.npc = .finished ↔ _
    cases r.npc <;> simp [toNpc]
  constructor
  · intro h
    exact ⟨h.len_eq, h.pos_nonneg, h.pos_le, h.chunk_pos, ⟨fun e => hn.mp (h.exh_iff.mp e), fun e => h.exh_iff.mpr (hn.mpr e)⟩⟩
  · intro h
    exact ⟨h.len_eq, h.pos_nonneg, h.pos_le, h.chunk_pos, ⟨fun e => hn.mpr (h.exh_iff.mp e), fun e => h.exh_iff.mpr (hn.mp e)⟩, trivial⟩

theorem iterLoop_eq : ∀ (k : Nat) (pc : ARd.Pc) (r : ARd.AR) (acc : List Bytes),
    iterLoop k (toPc pc) (toMa r) acc = (some (ARi.iterLoop k pc r acc).1, toMa (ARi.iterLoop k pc r acc).2) ∨
    (iterLoop k (toPc pc) (toMa r) acc).1 = none := by
  intro k
  induction k with
  | zero => intro pc r acc; left; rfl
  | succ k ih =>
    intro pc r acc
    simp only [iterLoop, ARi.iterLoop, fuelOf_eq, gstep_eq']
    rcases ARd.step (ARd.fuelOf r) pc r with ⟨y, pc', r1⟩
    cases y with
    | yield c => exact ih pc' r1 _
    | stop => left; rfl
    | raiseValue => right; rfl

theorem aiterPc_eq (r : ARd.AR) : aiterPc (toMa r) = toPc (ARi.aiterPc r) := by
  unfold aiterPc ARi.aiterPc
  show (if r.len > r.pos then _ else _) = _
  split <;> rfl

/-- iteration of the root reader: the same chunks and the same state, unless the generic model reports a `ValueError` (which
    `ARi.iterate` does not model; it cannot happen in a state satisfying the invariant - `iterate_refines`) -/
theorem toMa_iterate (r : ARd.AR) (k : Nat) :
    iterate (toMa r) k = (some (ARi.iterate r k).1, toMa (ARi.iterate r k).2) ∨ (iterate (toMa r) k).1 = none := by
  unfold iterate ARi.iterate
  rw [aiterPc_eq]
  exact iterLoop_eq k _ r []

/-! ### iteration and histories with iteration, any lawful source -/

section generic2
variable {σ : Type} [ASource σ] [LawfulASource σ]

theorem lim_isW (pc : Pc) (A : Bytes) (h : isW pc = true) : lim pc A = A.length := by
  cases pc <;> simp [isW] at h <;> rfl

theorem iterLoop_spec : ∀ (k : Nat) (pc : Pc) (r : AR σ) (acc : List Bytes), GI pc r → isW pc = true →
    ∃ out, (iterLoop k pc r acc).1 = some (acc ++ out) ∧ out.flatten = (absA r).take out.flatten.length ∧
      absA (iterLoop k pc r acc).2 = (absA r).drop out.flatten.length ∧ out.length ≤ k ∧
      (out.length = k ∨ absA (iterLoop k pc r acc).2 = []) ∧ Good (iterLoop k pc r acc).2 ∧
      total (iterLoop k pc r acc).2 = total r ∧ (iterLoop k pc r acc).2.chunk = r.chunk := by
  intro k
  induction k with
  | zero =>
    intro pc r acc hgi _
    exact ⟨[], by simp [iterLoop], by simp, by simp [iterLoop], Nat.le_refl _, Or.inl rfl, hgi.1, rfl, rfl⟩
  | succ k ih =>
    intro pc r acc hgi hW
    have hs := step_spec (fuelOf r) pc r hgi (need_le_fuelOf pc r hgi.1)
    simp only [iterLoop]
    rcases hx : gstep (fuelOf r) pc r with ⟨y, pc', r1⟩
    rw [hx] at hs
    cases y with
    | chunk c =>
      obtain ⟨a1, a2, a3, a4, a5, a6, a7, a8⟩ := hs
      obtain ⟨out, e1, e2, e3, e4, e5, e6, e7, e8⟩ := ih pc' r1 (acc ++ [c]) a4 (by rw [a8]; exact hW)
      simp only
      refine ⟨c :: out, by rw [e1]; simp, ?_, ?_, by simp; omega, ?_, e6, by rw [e7, a6], by rw [e8, a7]⟩
      · simp only [List.flatten_cons, List.length_append]
        rw [List.take_add, ← a1, ← a2, ← e2]
      · simp only [List.flatten_cons, List.length_append]
        rw [e3, a2, List.drop_drop]
      · rcases e5 with h | h
        · left; simp; omega
        · right; exact h
    | stop =>
      obtain ⟨a1, a2, a3, a4, a5, a6⟩ := hs
      rw [lim_isW pc _ hW] at a1
      have hA : absA r = [] := List.eq_nil_of_length_eq_zero a1
      simp only
      exact ⟨[], by simp, by simp, by rw [a2]; simp, Nat.zero_le _, Or.inr (by rw [a2, hA]), a3, a4, a5⟩
    | raiseValue => exact absurd hs id

/-- **iteration of a reader at any nesting level refines the flat cursor** -/
theorem iterate_refines (r : AR σ) (k : Nat) (hg : Good r) :
    ∃ cs, (iterate r k).1 = some cs ∧
    cs.flatten = (absA r).take cs.flatten.length ∧ absA (iterate r k).2 = (absA r).drop cs.flatten.length ∧
    cs.length ≤ k ∧ (cs.length = k ∨ absA (iterate r k).2 = []) ∧ Good (iterate r k).2 ∧
    total (iterate r k).2 = total r ∧ (iterate r k).2.chunk = r.chunk := by
  have hgi : GI (aiterPc r) r ∧ isW (aiterPc r) = true := by
    unfold aiterPc
    by_cases h : r.len > r.pos
    · rw [if_pos h]; exact ⟨⟨hg, trivial⟩, rfl⟩
    · rw [if_neg h]; exact ⟨⟨hg, by show r.pos = r.len; have := hg.pos_le; omega⟩, rfl⟩
  obtain ⟨out, e1, e2, e3, e4, e5, e6, e7, e8⟩ := iterLoop_spec k _ r [] hgi.1 hgi.2
  exact ⟨out, by show (iterLoop k _ r []).1 = _; rw [e1]; rfl, e2, e3, e4, e5, e6, e7, e8⟩

section frames
omit [LawfulASource σ]
theorem iterLoop_reach : ∀ (k : Nat) (pc : Pc) (r : AR σ) (acc : List Bytes), Reach r.src (iterLoop k pc r acc).2.src := by
  intro k
  induction k with
  | zero => intro pc r acc; exact .refl _
  | succ k ih =>
    intro pc r acc
    simp only [iterLoop]
    have h := gstep_reach (fuelOf r) pc r
    rcases hx : gstep (fuelOf r) pc r with ⟨y, pc', r1⟩
    rw [hx] at h
    cases y with
    | chunk c => exact h.trans (ih _ _ _)
    | stop => exact h
    | raiseValue => exact h

theorem nStep_reach (r : AR σ) (op : NOp) : Reach r.src (nStep r op).2.src := by
  cases op with
  | op a => exact arStep_reach r a
  | iter k => exact iterLoop_reach _ _ _ _

theorem nRun_reach (ops : List NOp) : ∀ (r : AR σ), Reach r.src (nRun r ops).2.src := by
  induction ops with
  | nil => intro r; exact .refl _
  | cons op rest ih => intro r; exact (nStep_reach r op).trans (ih _)
end frames

theorem iterLoop_vt : ∀ (k : Nat) (pc : Pc) (r : AR σ) (acc : List Bytes), VT r → VT (iterLoop k pc r acc).2 := by
  intro k
  induction k with
  | zero => intro pc r acc h; exact h
  | succ k ih =>
    intro pc r acc h
    simp only [iterLoop]
    have h1 := gstep_vt (fuelOf r) pc r h
    rcases hx : gstep (fuelOf r) pc r with ⟨y, pc', r1⟩
    rw [hx] at h1
    cases y with
    | chunk c => exact ih _ _ _ h1
    | stop => exact h1
    | raiseValue => exact h1

theorem nStep_vt (r : AR σ) (op : NOp) (h : VT r) : VT (nStep r op).2 := by
  cases op with
  | op a => exact arStep_vt r a h
  | iter k => exact iterLoop_vt _ _ _ _ h

theorem nRun_vt (ops : List NOp) : ∀ (r : AR σ), VT r → VT (nRun r ops).2 := by
  induction ops with
  | nil => intro r h; exact h
  | cons op rest ih => intro r h; exact ih _ (nStep_vt r op h)

/-- the flat cursor over `A` accepts observation `o` for `op` and moves to `A'` -/
def NAccepts (chunk : Int) (A : Bytes) : NOp → NObs → Bytes → Prop
  | .op a, .obs o, A' => o.toObs = (Rd.cursorStep chunk A a.toP).1 ∧ A' = (Rd.cursorStep chunk A a.toP).2
  | .iter k, .chunks cs, A' => cs.flatten = A.take cs.flatten.length ∧ A' = A.drop cs.flatten.length ∧ cs.length ≤ k ∧
      (cs.length = k ∨ A' = [])
  | _, _, _ => False

def NAcceptsRun (chunk : Int) : Bytes → List NOp → List NObs → Bytes → Prop
  | A, [], [], A' => A' = A
  | A, op :: ops, o :: os, A' => ∃ A1, NAccepts chunk A op o A1 ∧ NAcceptsRun chunk A1 ops os A'
  | _, _, _, _ => False

def NOp.ok (chunk : Int) : NOp → Prop
  | .op a => a.okA chunk
  | .iter _ => True

theorem nStep_refines (r : AR σ) (op : NOp) (hg : Good r) (hok : op.ok r.chunk) :
    NAccepts r.chunk (absA r) op (nStep r op).1 (absA (nStep r op).2) ∧ Good (nStep r op).2 ∧
    (nStep r op).2.chunk = r.chunk ∧ total (nStep r op).2 = total r := by
  cases op with
  | op a =>
    obtain ⟨s1, s2, s3, s4, s5⟩ := arStep_refines r a hg hok
    exact ⟨⟨s1, s2⟩, s3, s4, s5⟩
  | iter k =>
    obtain ⟨cs, e1, e2, e3, e4, e5, e6, e7, e8⟩ := iterate_refines r k hg
    have hx : (nStep r (.iter k)).1 = .chunks cs := by simp only [nStep, e1]
    have hy : (nStep r (.iter k)).2 = (iterate r k).2 := rfl
    rw [hx, hy]
    exact ⟨⟨e2, e3, e4, e5⟩, e6, e8, e7⟩

/-- every history of operations (incl. abandoned iteration) on a reader over ANY lawful chunk source refines the flat cursor -/
theorem n_history_refines_cursor (ops : List NOp) : ∀ (r : AR σ), Good r → (∀ op ∈ ops, op.ok r.chunk) →
    NAcceptsRun r.chunk (absA r) ops (nRun r ops).1 (absA (nRun r ops).2) ∧ Good (nRun r ops).2 ∧
    (nRun r ops).2.chunk = r.chunk ∧ total (nRun r ops).2 = total r := by
  induction ops with
  | nil => intro r hg _; exact ⟨rfl, hg, rfl, rfl⟩
  | cons op rest ih =>
    intro r hg hok
    obtain ⟨h1, h3, h4, h5⟩ := nStep_refines r op hg (hok op (by simp))
    obtain ⟨t1, t2, t3, t4⟩ := ih (nStep r op).2 h3 (fun op' h' => by rw [h4]; exact hok op' (by simp [h']))
    rw [h4] at t1
    exact ⟨⟨_, h1, t1⟩, t2, t3.trans h4, t4.trans h5⟩

end generic2

theorem parent_src_reach {σ : Type} [ASource σ] {s s' : DelimGen σ} (hr : Reach s s') : Reach s.parent.src s'.parent.src := by
  induction hr with
  | refl => exact .refl _
  | @step s s1 s2 it e _ ih =>
    have he : ASource.anext s = ((gstep (fuelOf s.parent) s.pc s.parent).1,
        ({ parent := (gstep (fuelOf s.parent) s.pc s.parent).2.2, pc := (gstep (fuelOf s.parent) s.pc s.parent).2.1 } : DelimGen σ)) := rfl
    rw [he] at e
    have h := gstep_reach (fuelOf s.parent) s.pc s.parent
    simp only [Prod.mk.injEq] at e
    obtain ⟨_, rfl⟩ := e
    exact h.trans ih

variable {σ : Type} [ASource σ] [LawfulASource σ]

/-- **C14, one level of nesting (async) - `async_nested_history_refines_cursor`.** Parent `p` in a good state over ANY lawful chunk
    source, delimiter `d` with `1 ≤ |d| ≤ chunk size`, ANY history `ops` of read / readall / peek / read_until / pipe_until / pipe /
    exhaust / iteration (complete, or abandoned after `k` chunks) on the child `p.delimit(d)`; `C` = the parent's text before the
    first `d`; `c'`/`p'` = child and parent afterwards:
    1. every observation is accepted by the flat cursor over `C` in turn, ending at `absA c'` (the child's remaining text);
    2. the child is in a good state, `c'.tell() = |C| - |absA c'|` (its cursor position), `eof` only at the end;
    3. (bytes the child holds) ++ parent text = child's rest ++ (the parent's original text from the delimiter on);
    4. child drained ⇒ the parent is exactly AT the delimiter;
    5. the parent is at `j = child cursor + |held| ≤ |C|` - never past the delimiter - and `p'.tell() = p.tell() + j`;
    6. the parent is in a good state again, same chunk size (and keeps `VT`). -/
theorem async_nested_history_refines_cursor (p : AR σ) (d : Bytes) (ops : List NOp) (hg : Good p) (hd : d ≠ [])
    (hdc : (d.length : Int) ≤ p.chunk) (hok : ∀ op ∈ ops, op.ok p.chunk) :
    let c' := (nRun (delimit p d) ops).2
    let p' := c'.src.parent
    let C := contentOf d (absA p)
    NAcceptsRun p.chunk C ops (nRun (delimit p d) ops).1 (absA c') ∧
    Good c' ∧ tell c' = (C.length : Int) - (absA c').length ∧ (eof c' = true → absA c' = []) ∧
    held c' ++ absA p' = absA c' ++ (absA p).drop C.length ∧
    (absA c' = [] → absA p' = (absA p).drop C.length) ∧
    (∃ j, j ≤ C.length ∧ j + (absA c').length = C.length + (held c').length ∧ absA p' = (absA p).drop j ∧ tell p' = tell p + j) ∧
    Good p' ∧ p'.chunk = p.chunk ∧ (VT p → VT p') := by
  intro c' p' C
  obtain ⟨g1, g2, g3, g4, g5⟩ := delimit_good p d hg hd hdc
  obtain ⟨t1, t3, t4, t5⟩ := n_history_refines_cursor ops (delimit p d) g1 (fun op h => hok op h)
  have hch : (delimit p d).chunk = p.chunk := rfl
  rw [g3, hch] at t1
  have hr := nRun_reach ops (delimit p d)
  have hvt := nRun_vt ops (delimit p d) g2
  have hp := PInv_reach (absA p) p.chunk d hr g5
  obtain ⟨u1, u2⟩ := total_reach (absA p) p.chunk d hr g5
  have hcp := child_parent (absA p) p.chunk d c' hvt hp
  obtain ⟨q1, q2, j, q3, q4⟩ := hp
  have hCU : C.length = U d (absA p) := by
    show ((absA p).take (U d (absA p))).length = _
    rw [List.length_take]
    have : U d (absA p) ≤ (absA p).length := by unfold U stopAt; omega
    omega
  refine ⟨t1, t3, ?_, eof_rest c' t3, hcp, ?_, ⟨j, by omega, ?_, q3, ?_⟩, q1.1, q2, u2⟩
  · rw [tell_eq c' t3, t5, g4]
  · intro h0
    rw [h0] at hcp
    have hh : held c' = [] := by
      have := absA_held c' hvt
      rw [h0] at this
      exact (List.append_eq_nil_iff.mp this.symm).1
    rw [hh] at hcp
    simpa using hcp
  · have hU : U d (absA p) ≤ (absA p).length := by unfold U stopAt; omega
    have q3' : absA p' = (absA p).drop j := q3
    have hl : (held c').length + ((absA p).length - j) = (absA c').length + ((absA p).length - C.length) := by
      have := congrArg List.length hcp
      rw [List.length_append, List.length_append, q3', List.length_drop, List.length_drop] at this
      exact this
    omega
  · have e1 := tell_eq p' q1.1
    have e2 := tell_eq p hg
    have hl : (absA p').length = (absA p).length - j := by
      show (absA c'.src.parent).length = _
      rw [q3, List.length_drop]
    have hU : U d (absA p) ≤ (absA p).length := by unfold U stopAt; omega
    have u1' : total p' = total p := u1
    omega

def AProg.ok (chunk : Int) : AProg → Prop
  | .done => True
  | .op o k => o.ok chunk ∧ k.ok chunk
  | .nest d inner k => (d ≠ [] ∧ (d.length : Int) ≤ chunk) ∧ inner.ok chunk ∧ k.ok chunk

/-- the specification of a program over nested readers: every reader is a flat cursor; a delimited child is a cursor over the
    text up to the first occurrence of its delimiter; when the child is dropped the parent resumes at `T`, somewhere between
    what the child had consumed and the delimiter (`held` = what the child had taken from the parent without handing it out),
    exactly at the delimiter when the child was drained (`C' = []` forces `held = []`) -/
inductive AProgSpec (chunk : Int) : AProg → Bytes → List NObs → Bytes → Prop
  | done (A : Bytes) : AProgSpec chunk .done A [] A
  | op (o : NOp) (k : AProg) (A : Bytes) (obs : NObs) (A1 : Bytes) (os : List NObs) (A' : Bytes) :
      NAccepts chunk A o obs A1 → AProgSpec chunk k A1 os A' → AProgSpec chunk (.op o k) A (obs :: os) A'
  | nest (d : Bytes) (inner k : AProg) (A : Bytes) (os1 : List NObs) (C' held T : Bytes) (os2 : List NObs) (A' : Bytes) :
      AProgSpec chunk inner (contentOf d A) os1 C' →
      held ++ T = C' ++ A.drop (contentOf d A).length → held.length ≤ C'.length →
      AProgSpec chunk k T os2 A' → AProgSpec chunk (.nest d inner k) A (os1 ++ os2) A'

/-- **C14 for nested async readers of any depth - `async_nested_depth_refines`.** For every program (operations, iterations,
    `delimit(d){ sub-program }` blocks nested arbitrarily deep) and every reader in a good state over ANY lawful chunk source:
    `runAProg` satisfies `AProgSpec` from `absA r` to `absA` of the final reader; the invariant, the chunk size and
    `tell() + len(rest)` are preserved; the source is only advanced by `__anext__` (`Reach`); `VT` is kept. Induction over the
    program with the source type generalised: the child's source `DelimGen σ` is a lawful source (`Ma`'s instance), so the
    induction hypothesis applies to the child as it is; `PInv_reach` / `total_reach` / `child_parent` give the parent's state. -/
theorem async_nested_depth_refines (prog : AProg) : ∀ {σ : Type} [ASource σ] [LawfulASource σ] (r : AR σ), Good r →
    prog.ok r.chunk →
    AProgSpec r.chunk prog (absA r) (runAProg prog r).1 (absA (runAProg prog r).2) ∧ Good (runAProg prog r).2 ∧
    (runAProg prog r).2.chunk = r.chunk ∧ total (runAProg prog r).2 = total r ∧
    Reach r.src (runAProg prog r).2.src ∧ (VT r → VT (runAProg prog r).2) := by
  induction prog with
  | done => intro σ _ _ r hg _; exact ⟨.done _, hg, rfl, rfl, .refl _, id⟩
  | op o k ih =>
    intro σ _ _ r hg hok
    obtain ⟨s1, s3, s4, s5⟩ := nStep_refines r o hg hok.1
    obtain ⟨t1, t2, t3, t4, t5, t6⟩ := ih (nStep r o).2 s3 (by rw [s4]; exact hok.2)
    rw [s4] at t1
    simp only [runAProg]
    exact ⟨.op o k (absA r) _ _ _ _ s1 t1, t2, t3.trans s4, t4.trans s5, (nStep_reach r o).trans t5, fun h => t6 (nStep_vt r o h)⟩
  | nest d inner k ih1 ih2 =>
    intro σ _ _ r hg hok
    obtain ⟨⟨hd, hdc⟩, hok1, hok2⟩ := hok
    obtain ⟨g1, g2, g3, g4, g5⟩ := delimit_good r d hg hd hdc
    have hch : (delimit r d).chunk = r.chunk := rfl
    obtain ⟨t1, t2, t3, t4, t5, t6⟩ := ih1 (delimit r d) g1 (by rw [hch]; exact hok1)
    rw [g3, hch] at t1
    have hvt := t6 g2
    have hp := PInv_reach (absA r) r.chunk d t5 g5
    obtain ⟨u1, u2⟩ := total_reach (absA r) r.chunk d t5 g5
    have hcp := child_parent (absA r) r.chunk d (runAProg inner (delimit r d)).2 hvt hp
    have hheld := absA_held (runAProg inner (delimit r d)).2 hvt
    obtain ⟨q1, q2, j, q3, q4⟩ := hp
    obtain ⟨v1, v2, v3, v4, v5, v6⟩ := ih2 (runAProg inner (delimit r d)).2.src.parent q1.1 (by rw [q2]; exact hok2)
    rw [q2] at v1
    simp only [runAProg]
    refine ⟨.nest d inner k (absA r) _ _ (held (runAProg inner (delimit r d)).2) _ _ _ t1 hcp ?_ v1, v2, v3.trans q2,
      v4.trans u1, (parent_src_reach t5).trans v5, fun h => v6 (u2 h)⟩
    rw [hheld, List.length_append]; omega

/-- the generator `parent._iter_delimited(d)` handed to the child reader is a lawful chunk source: it is `Ma`'s instance
    `LawfulASource (DelimGen σ)` (data = the parent's text up to the first `d`, valid = the generator invariant), and a freshly
    delimited child starts in a good state over exactly that text -/
theorem delimited_source_lawful {σ : Type} [ASource σ] [LawfulASource σ] (p : AR σ) (d : Bytes) (hg : Good p) (hd : d ≠ [])
    (hdc : (d.length : Int) ≤ p.chunk) :
    valid (delimit p d).src ∧ data (delimit p d).src = contentOf d (absA p) ∧ Good (delimit p d) ∧ VT (delimit p d) ∧
    absA (delimit p d) = contentOf d (absA p) ∧ tell (delimit p d) = 0 := by
  obtain ⟨g1, g2, g3, g4, g5⟩ := delimit_good p d hg hd hdc
  exact ⟨g2.1, rfl, g1, g2, g3, rfl⟩

/-- **the C14 root model, one level of nesting**: a reader state of `ARd` (the model `ardriver` runs at level 0) satisfying its
    invariant, `delimit(d)` on it, any history on the child, and back to `ARd` -/
theorem root_nested_history_refines_cursor (r : ARd.AR) (d : Bytes) (ops : List NOp) (hg : ARd.Good r) (hd : d ≠ [])
    (hdc : (d.length : Int) ≤ r.chunk) (hok : ∀ op ∈ ops, op.ok r.chunk) :
    let c' := (nRun (delimit (toMa r) d) ops).2
    let r' := ofMa c'.src.parent
    let C := contentOf d (ARd.abs r)
    NAcceptsRun r.chunk C ops (nRun (delimit (toMa r) d) ops).1 (absA c') ∧
    tell c' = (C.length : Int) - (absA c').length ∧ (eof c' = true → absA c' = []) ∧
    held c' ++ ARd.abs r' = absA c' ++ (ARd.abs r).drop C.length ∧
    (absA c' = [] → ARd.abs r' = (ARd.abs r).drop C.length) ∧
    (∃ j, j ≤ C.length ∧ j + (absA c').length = C.length + (held c').length ∧ ARd.abs r' = (ARd.abs r).drop j ∧
      ARd.tell r' = ARd.tell r + j) ∧
    ARd.Good r' ∧ r'.chunk = r.chunk := by
  intro c' r' C
  have h := async_nested_history_refines_cursor (toMa r) d ops ((toMa_good r).mpr hg) hd hdc hok
  simp only [toMa_abs] at h
  obtain ⟨h1, h2, h3, h4, h5, h6, ⟨j, j1, j2, j3, j4⟩, h8, h9, _⟩ := h
  have hr' : toMa r' = c'.src.parent := toMa_ofMa _
  have ha : ARd.abs r' = absA c'.src.parent := by rw [← toMa_abs, hr']
  have ht : ARd.tell r' = tell c'.src.parent := by rw [← toMa_tell, hr']
  refine ⟨h1, h3, h4, by rw [ha]; exact h5, by rw [ha]; exact h6, ⟨j, j1, j2, by rw [ha]; exact j3, ?_⟩, ?_, h9⟩
  · rw [ht, j4, toMa_tell]
  · exact (toMa_good r').mp (by rw [hr']; exact h8)

/-- **from construction, any depth**: `BufferedReader(source, chunk_size)` over any list of source chunks, any program of
    operations, iterations and nested `delimit`s -/
theorem async_nested_depth_fresh (prog : AProg) (chunk : Int) (parts : List Bytes) (hc : 0 < chunk) (hok : prog.ok chunk) :
    let r0 : ARd.AR := { chunk := chunk, src := parts }
    let run := runAProg prog (toMa r0)
    AProgSpec chunk prog parts.flatten run.1 (absA run.2) ∧ Good run.2 ∧
    tell run.2 = (parts.flatten.length : Int) - (absA run.2).length := by
  intro r0 run
  obtain ⟨f1, f2, f3⟩ := ARd.fresh_async chunk parts hc
  have hg : Good (toMa r0) := (toMa_good r0).mpr f1
  obtain ⟨t1, t2, t3, t4, _, _⟩ := async_nested_depth_refines prog (toMa r0) hg hok
  have ha : absA (toMa r0) = parts.flatten := by rw [toMa_abs]; exact f2
  have hch : (toMa r0).chunk = chunk := rfl
  rw [ha, hch] at t1
  refine ⟨t1, t2, ?_⟩
  have e1 := tell_eq (runAProg prog (toMa r0)).2 t2
  have e0 := tell_eq (toMa r0) hg
  have f3' : tell (toMa r0) = 0 := by rw [toMa_tell]; exact f3
  rw [ha] at e0
  show tell (runAProg prog (toMa r0)).2 = _ - ((absA (runAProg prog (toMa r0)).2).length : Int)
  omega

/-! ### non-vacuity -/

/-- "ab--cd\nef--gh" in source chunks `a` `b-` `` `-cd\ne` `f--gh`; chunk size 3 -/
def exRoot : ARd.AR := { chunk := 3, src := [[97], [98,45], [], [45,99,100,10,101], [102,45,45,103,104]] }

/-- read(1); child("--"){peek(1); iterate 1 chunk}; read_until("--", consume); child("--"){ grandchild("\n"){read(1)}; peek(5) }; pipe() -/
def exProg : AProg :=
  .op (.op (.read (some 1))) (.nest [45,45] (.op (.op (.peek 1)) (.op (.iter 1) .done))
    (.op (.op (.readUntil [45,45] none true)) (.nest [45,45] (.nest [10] (.op (.op (.read (some 1))) .done) (.op (.op (.peek 5)) .done)) (.op (.op .pipe) .done))))

example : (0 : Int) < exRoot.chunk ∧ exProg.ok exRoot.chunk := by
  refine ⟨by decide, trivial, ⟨by simp, by decide⟩, ⟨trivial, trivial, trivial⟩, ⟨by simp, by decide⟩, ⟨by simp, by decide⟩,
    ⟨⟨by simp, by decide⟩, ⟨trivial, trivial⟩, trivial, trivial⟩, trivial, trivial⟩

example : (runAProg exProg (toMa exRoot)).1 = [.obs (.bytes [97]), .obs (.bytes [98]), .chunks [[98]], .obs (.bytes []),
    .obs (.bytes [99]), .obs (.bytes [10, 101, 102]), .obs (.bytes [45, 45, 103, 104])] ∧
    tell (runAProg exProg (toMa exRoot)).2 = 13 := ⟨by rfl, by rfl⟩

end An
